#!/usr/bin/env python3
"""Shared driver of all checks: builds, facts, harness runs, partitioned TLC runs, verdicts, evidence.

No property logic lives here: TLC is the judge (MISMATCH lines), this file only moves files around,
matches mismatches against the committed known-findings file and writes the evidence.
"""
import concurrent.futures as cf
import hashlib, json, os, re, shutil, subprocess, sys, tempfile, time

VERIF = os.path.dirname(os.path.dirname(os.path.abspath(__file__)))
REPO = os.environ.get("XRL_REPO", "/repo")
SPEC = os.path.join(VERIF, "spec")
NCPU = int(os.environ.get("XRL_JOBS", "16"))


class Broken(Exception):
    """the machinery failed (build error, TLC parse error, timeout): never reported as a violation"""


def sh(cmd, **kw):
    kw.setdefault("check", True)
    kw.setdefault("text", True)
    kw.setdefault("capture_output", True)
    try:
        return subprocess.run(cmd, **kw)
    except subprocess.CalledProcessError as e:
        raise Broken("command failed: %s\n%s\n%s" % (" ".join(map(str, cmd)), (e.stdout or "")[-3000:], (e.stderr or "")[-3000:]))


class Ctx:
    def __init__(self, pid, tier, seed):
        self.pid, self.tier, self.seed = pid, tier, seed
        self.t0 = time.time()
        self.scratch = tempfile.mkdtemp(prefix="xrl-%s-" % pid, dir=os.environ.get("XRL_SCRATCH", "/tmp"))
        self.mismatches = []          # dicts printed by TLC
        self.crashes = []             # harness runs ended by a signal (see run_harness)
        self.states = 0; self.transitions = 0; self.distinct = 0
        self.traces = 0; self.evaluations = 0
        self.samples = []; self.notes = {}; self.coverage_actions = {}
        self.quick = tier == "quick"

    def cleanup(self):
        shutil.rmtree(self.scratch, ignore_errors=True)

    # ------------------------------------------------------------ builds
    def build(self, variant="plain", config="A"):
        r = sh([os.path.join(VERIF, "bin", "build_repo"), variant, config], check=False)
        out = r.stdout.strip().splitlines()[-1] if r.stdout.strip() else ""
        if r.returncode != 0 or not os.path.isdir(out):
            log = ""
            for d in sorted(os.listdir(os.path.join(VERIF, ".cache", "build"))) if os.path.isdir(os.path.join(VERIF, ".cache", "build")) else []:
                p = os.path.join(VERIF, ".cache", "build", d, "build.log")
                if d.endswith("-%s-%s" % (variant, config)) and os.path.exists(p) and not os.path.exists(os.path.join(os.path.dirname(p), ".done")):
                    log = open(p).read()[-4000:]
            raise Broken("build of /repo failed (%s,%s)\n%s\n%s" % (variant, config, r.stderr[-2000:], log))
        return out

    WRAPS = ("malloc", "calloc", "realloc", "free", "strdup", "strndup", "vasprintf", "fopen", "fclose", "setlocale",
             "xrl_set_error", "xrl_set_error_literal", "xrl_propagate_error")

    def harness(self, bdir, variant="plain", extra=(), name="xrl_drive", libs=()):
        """compile harness/*.c (+ the generated API table) against the objects built from /repo; returns the executable"""
        cflags = open(os.path.join(bdir, "cflags")).read().split()[1:]
        hd = os.path.join(VERIF, "harness")
        srcs = sorted(p for p in os.listdir(hd) if p.endswith(".c"))
        h = hashlib.sha256()
        for p in sorted(os.listdir(hd)):
            if p.endswith((".c", ".h", ".py", ".cpp")): h.update(open(os.path.join(hd, p), "rb").read())
        h.update(repr((extra, libs, self.WRAPS)).encode())
        exe = os.path.join(bdir, "%s-%s" % (name, h.hexdigest()[:12]))
        if os.path.exists(exe):
            return exe
        fd = os.path.join(bdir, "apifacts")
        sh(["python3", os.path.join(VERIF, "facts", "lex.py"), REPO, REPO, fd, "protos"])
        gen = os.path.join(bdir, "gen_api.c")
        sh(["python3", os.path.join(hd, "gen_api.py"), os.path.join(fd, "protos.json"), gen])
        cmd = ["gcc"] + cflags + ["-I" + hd, "-Wno-deprecated-declarations"]
        cmd += [os.path.join(hd, s) for s in srcs] + [gen] + list(extra)
        cmd += [os.path.join(bdir, "libxrl.a"), "-lm", "-lpthread"] + list(libs)
        cmd += ["-Wl," + ",".join("--wrap=" + w for w in self.WRAPS)]
        cmd += ["-o", exe + ".tmp"]
        sh(cmd)
        os.replace(exe + ".tmp", exe)
        return exe

    def cxx_harness(self, bdir):
        """C++ conformance harness: harness/cxx/cxx_drive.cpp + table generated from xraylib++.h and the C prototypes (one translation unit)"""
        cflags = open(os.path.join(bdir, "cflags")).read().split()[1:]
        hd = os.path.join(VERIF, "harness", "cxx")
        h = hashlib.sha256()
        for p in sorted(os.listdir(hd)): h.update(open(os.path.join(hd, p), "rb").read())
        h.update(open(os.path.join(VERIF, "harness", "wraps.c"), "rb").read())
        h.update(open(os.path.join(REPO, "cplusplus", "xraylib++.h"), "rb").read())
        exe = os.path.join(bdir, "xrl_cxx-" + h.hexdigest()[:12])
        if os.path.exists(exe): return exe
        fd = os.path.join(bdir, "apifacts")
        sh(["python3", os.path.join(VERIF, "facts", "lex.py"), REPO, REPO, fd, "protos"])
        gd = os.path.join(bdir, "cxxgen"); os.makedirs(gd, exist_ok=True)
        sh(["python3", os.path.join(hd, "gen_cxx.py"), os.path.join(REPO, "cplusplus", "xraylib++.h"), os.path.join(fd, "protos.json"), os.path.join(gd, "gen_cxx.cpp")])
        sh(["g++", "-std=c++14"] + cflags + ["-I" + hd, "-I" + gd, "-I" + os.path.join(REPO, "cplusplus"), "-Wno-deprecated-declarations", "-c", os.path.join(hd, "cxx_drive.cpp"), "-o", os.path.join(gd, "cxx_drive.o")])
        sh(["gcc"] + cflags + ["-w", "-c", os.path.join(VERIF, "harness", "wraps.c"), "-o", os.path.join(gd, "wraps.o")])
        sh(["g++"] + [f for f in cflags if f.startswith("-fsanitize")] + [os.path.join(gd, "cxx_drive.o"), os.path.join(gd, "wraps.o"), os.path.join(bdir, "libxrl.a"), "-lm", "-Wl," + ",".join("--wrap=" + w for w in self.WRAPS), "-o", exe + ".tmp"])
        os.replace(exe + ".tmp", exe)
        return exe

    def dataroot(self, bdir):
        return open(os.path.join(bdir, "dataroot")).read().strip()

    def facts(self, bdir, whats, sub="facts"):
        out = os.path.join(self.scratch, sub)
        sh(["python3", os.path.join(VERIF, "facts", "lex.py"), REPO, self.dataroot(bdir), out] + list(whats))
        return out

    def run_harness(self, exe, args, outfile, env=None, timeout=900, stdin=None):
        e = dict(os.environ); e["VERIF_SEED"] = str(self.seed); e["XRL_SCRATCH_DIR"] = self.scratch      # harness files never land in /tmp itself
        if env: e.update(env)
        with open(outfile, "w") as f:
            try:
                r = subprocess.run([exe] + [str(a) for a in args], stdout=f, stderr=subprocess.PIPE, env=e, timeout=timeout, text=True, stdin=stdin)
            except subprocess.TimeoutExpired:
                raise Broken("harness timed out: %s %s" % (exe, args))
        # exit codes 2 and 3 are the harness's own (usage, unreadable program file, an internal table that is full): machinery, never an observation
        if r.returncode in (2, 3):
            raise Broken("harness failed on its own account (exit %d) during %s: %s" % (r.returncode, " ".join(str(a) for a in args)[:200], (r.stderr or "")[-400:]))
        # a harness killed by a signal was brought down by the code under test (abort on heap corruption, SIGSEGV, a sanitizer's abort):
        # that is an observation about the library, not a failure of the machinery.  The partial last line of its output is dropped.
        if r.returncode < 0 or r.returncode in (134, 139):
            self.crashes.append({"prop": self.pid, "why": "the library brought the harness down (signal %d) during: %s" % (abs(r.returncode) if r.returncode < 0 else r.returncode - 128, " ".join(str(a) for a in args)[:200]),
                                 "stderr": (r.stderr or "")[-600:]})
            try:
                data = open(outfile, "rb").read()
                if data and not data.endswith(b"\n"):
                    open(outfile, "wb").write(data[:data.rfind(b"\n") + 1])
            except OSError:
                pass
        return r

    # ------------------------------------------------------------ TLC
    def tlc(self, module, cfg=None, env=None, workers=1, heap="3g", timeout=1100, extra=()):
        """run one TLC; returns dict(rc, out, mismatches, generated, distinct)"""
        e = dict(os.environ)
        if env: e.update({k: str(v) for k, v in env.items()})
        e["TLC_HEAP"] = heap; e["TLC_TIMEOUT"] = str(timeout)
        cmd = [os.path.join(VERIF, "bin", "tlc_run"), "-workers", str(workers), "-config", os.path.join(SPEC, (cfg or module) + ".cfg")] + list(extra) + [os.path.join(SPEC, module + ".tla")]
        r = subprocess.run(cmd, cwd=SPEC, env=e, text=True, capture_output=True)
        out = r.stdout + r.stderr
        mm = []
        for line in out.splitlines():
            line = line.strip()
            if line.startswith('"MISMATCH '):
                try:
                    mm.append(json.loads(json.loads(line)[len("MISMATCH "):]))
                except Exception:
                    raise Broken("unparsable MISMATCH line: " + line[:300])
        m = re.search(r"(\d+) states generated, (\d+) distinct states found", out)
        gen, dist = (int(m.group(1)), int(m.group(2))) if m else (0, 0)
        ok = "Model checking completed. No error has been found." in out or "Finished in" in out and r.returncode == 0
        res = dict(rc=r.returncode, out=out, mismatches=mm, generated=gen, distinct=dist, ok=(r.returncode == 0 and "No error has been found" in out))
        return res

    def tlc_must_pass(self, module, **kw):
        """TLC run whose only legitimate way of reporting is MISMATCH lines; anything else is a broken check"""
        r = self.tlc(module, **kw)
        if not r["ok"]:
            r2 = self.tlc(module, **kw)          # a failure is reported only if a re-run repeats it
            if not r2["ok"]:
                tail = "\n".join(l for l in r2["out"].splitlines() if not l.startswith(("Parsing", "Semantic", "Linting")))[-3000:]
                raise Broken("TLC failed on %s (rc=%s)\n%s" % (module, r2["rc"], tail[:6000]))
            r = r2
        self.mismatches += r["mismatches"]
        self.states += r["distinct"]; self.transitions += max(r["generated"] - 1, 0)
        return r

    def tlc_traces(self, module, traces, env=None, cfg=None, per_env=None, heap="3g", timeout=1100):
        """validate several trace files, one single-worker JVM each, NCPU at a time"""
        def one(i):
            e = dict(env or {}); e["XRL_TRACE"] = traces[i]
            if per_env: e.update(per_env[i])
            return self.tlc_one_trace(module, cfg, e, heap, timeout)
        with cf.ThreadPoolExecutor(max_workers=NCPU) as ex:
            rs = list(ex.map(one, range(len(traces))))
        for r in rs:
            self.mismatches += r["mismatches"]
            self.states += r["distinct"]; self.transitions += max(r["generated"] - 1, 0)
        self.traces += len(traces)
        return rs

    def tlc_one_trace(self, module, cfg, e, heap, timeout):
        r = self.tlc(module, cfg=cfg, env=e, heap=heap, timeout=timeout)
        if not r["ok"] or '"JUDGED ' not in r["out"]:
            r = self.tlc(module, cfg=cfg, env=e, heap=heap, timeout=timeout)
            if not r["ok"] or '"JUDGED ' not in r["out"]:
                tail = "\n".join(l for l in r["out"].splitlines() if not l.startswith(("Parsing", "Semantic", "Linting", '"MISMATCH')))
                raise Broken("trace validation failed to complete on %s (%s) rc=%s\n%s" % (module, e.get("XRL_TRACE"), r["rc"], tail[-4000:]))
        return r

    def split_lines(self, path, n, prefix):
        """split an ndjson file into <= n files of contiguous lines"""
        lines = open(path).read().splitlines(True)
        self.evaluations += 0
        n = max(1, min(n, len(lines)))
        per = (len(lines) + n - 1) // n
        outs = []
        for i in range(n):
            part = lines[i * per:(i + 1) * per]
            if not part: break
            p = os.path.join(self.scratch, "%s.%02d.ndjson" % (prefix, i))
            open(p, "w").writelines(part); outs.append(p)
        return outs


# ---------------------------------------------------------------- known findings
def load_known():
    p = os.path.join(VERIF, "known_findings.json")
    if not os.path.exists(p):
        return {"findings": [], "fixed": []}
    return json.load(open(p))


def field(rec, path):
    cur = rec
    for k in path.split("."):
        if isinstance(cur, dict) and k in cur: cur = cur[k]
        else: return None
    return cur


def matches(rec, pat):
    for k, want in pat.items():
        got = field(rec, k)
        if isinstance(want, dict):
            if "in" in want and got not in want["in"]: return False
            if "range" in want and not (isinstance(got, int) and want["range"][0] <= got <= want["range"][1]): return False
            if "re" in want and not (isinstance(got, str) and re.search(want["re"], got)): return False
        elif got != want:
            return False
    return True


def verdict(ctx, level, coverage, assumptions, extra_violations=()):
    """prints KNOWN-FINDING / VIOLATION lines, writes evidence, returns the exit code"""
    pid = ctx.pid
    known = [f for f in load_known()["findings"] if f["property"] == pid]
    hits = {}; viol = []
    notes = [m for m in ctx.mismatches if m.get("note")]          # informational records (e.g. coverage remarks of a trace spec): never violations
    for m in [m for m in ctx.mismatches if not m.get("note")]:
        for f in known:
            if matches(m, f["match"]):
                hits.setdefault(f["id"], []).append(m); break
        else:
            viol.append(m)
    viol += list(extra_violations)
    viol += [c for c in ctx.crashes if c not in viol]
    outdir = os.path.join(VERIF, "out", pid)
    shutil.rmtree(outdir, ignore_errors=True); os.makedirs(outdir, exist_ok=True)
    for f in known:
        if f["id"] in hits:
            print("KNOWN-FINDING: property=%s %s [%s; %d mismatching case(s) this run]" % (pid, f["what"], f["id"], len(hits[f["id"]])))
    for i, m in enumerate(viol[:200]):
        p = os.path.join(outdir, "%d.json" % i)
        json.dump({"property": pid, "tier": ctx.tier, "seed": ctx.seed, "mismatch": m}, open(p, "w"), indent=1)
        if i < 25:
            print("VIOLATION property=%s replay=%s  %s" % (pid, p, json.dumps(m)[:400]))
    if len(viol) > 25:
        print("... %d further violations (see %s)" % (len(viol) - 25, outdir))
    cov = dict(coverage)
    cov.setdefault("states", ctx.states); cov.setdefault("transitions", ctx.transitions)
    cov.setdefault("traces_validated_against_impl", ctx.traces)
    cov.setdefault("evaluations", ctx.evaluations)
    cov.setdefault("samples", ctx.samples[:8] or ["(none)"])
    cov["known_findings_hit"] = {k: len(v) for k, v in hits.items()}
    if notes:
        cov["notes"] = notes[:20]
        for m in notes[:10]: print("NOTE: property=%s %s" % (pid, json.dumps({k: v for k, v in m.items() if k not in ("note", "prop")})[:300]))
    ev = {"property_id": pid, "tier": ctx.tier, "seed": ctx.seed, "level": level, "coverage": cov,
          "assumptions": assumptions, "wall_s": round(time.time() - ctx.t0, 1), "violations": len(viol)}
    os.makedirs(os.path.join(VERIF, "evidence"), exist_ok=True)
    json.dump(ev, open(os.path.join(VERIF, "evidence", pid + ".json"), "w"), indent=1)
    print("%s %s: %d violation(s), %d known finding(s) hit, states=%d transitions=%d traces=%d evaluations=%d, %.0fs" % (
        pid, ctx.tier, len(viol), len(hits), cov["states"], cov["transitions"], cov["traces_validated_against_impl"], cov["evaluations"], time.time() - ctx.t0))
    return 1 if viol else 0
