#!/usr/bin/env python3
"""EDGE lines of MC_C03 -> program text for `xrl_drive c03e` (syntactic translation only)."""
import json, sys
M = {"a": 0, "bb": 1}


def line(o):
    k = o["op"]
    if k == "Set": return "S %d %d %d" % (o["s"], o["code"], M[o["msg"]])
    if k == "SetNull": return "Z %d %d" % (o["code"], M[o["msg"]])
    if k == "New": return "N %d %d %d" % (o["l"], o["code"], M[o["msg"]])
    if k == "Propagate": return "P %d %d" % (o["s"], o["l"])
    if k == "PropagateNull": return "Q %d" % o["l"]
    if k == "Clear": return "C %d" % o["s"]
    if k == "Copy": return "Y %d %d" % (o["s"], o["l"])
    if k == "CopyLoc": return "K %d %d" % (o["l"], o["l2"])
    if k == "Free": return "F %d" % o["l"]
    if k == "Matches": return "M %d %d" % (o["s"], o["code"])
    raise SystemExit("unknown op")


n = 0
with open(sys.argv[2], "w") as out:
    for l in open(sys.argv[1]):
        l = l.strip()
        if not l.startswith('"EDGE '): continue
        e = json.loads(json.loads(l)[5:]); n += 1
        out.write("H %d\n" % n)
        for o in e["pre"] + [e["op"]]: out.write(line(o) + "\n")
print(n)
