#!/usr/bin/env python3
"""EDGE lines printed by TLC (MC_C14 with Emit) -> program text for `xrl_drive c14 prog`.
No semantics: a syntactic translation of operation records; one program per transition of the model graph."""
import json, sys
BAD = {"none": 0, "noname": 1, "noucell": 2, "dupucell": 3, "shortucell": 4, "badatom": 5, "eof": 6, "nofile": 7}


def pid(c): return (ord(c["name"]) - ord("A")) * 2 + (c["geom"] - 1)


def line(op, k):
    o = op["op"]
    if o == "ArrayInit": return "I %d %d" % (op["h"], op["n"])
    if o == "Add": return "A %d %d" % (op["h"], pid(op["c"]))
    if o == "ReadFile":
        es = op["entries"]; return "R %d %d %d %d %s" % (op["h"], BAD[op["bad"]], k % len(es), len(es), " ".join(str(pid(c)) for c in es))
    if o == "Get": return "G %d %d %d" % (op["h"], pid({"name": op["name"], "geom": 1}), op["id"])
    if o == "List": return "L %d" % op["h"]
    if o == "Audit": return "D %d" % op["h"]
    if o == "MakeCopy": return "M %d %d" % (op["src"], op["id"])
    if o == "Mutate": return "U %d" % op["id"]
    if o == "FreeCopy": return "F %d" % op["id"]
    if o == "ArrayFree": return "X %d" % op["h"]
    raise SystemExit("unknown op " + o)


def main(src, dst):
    n = 0
    with open(dst, "w") as out:
        for l in open(src):
            l = l.strip()
            if not l.startswith('"EDGE '): continue
            e = json.loads(json.loads(l)[5:]); n += 1
            out.write("H %d\nP %d 1\n" % (n, e["room"]))
            for k, op in enumerate(e["pre"] + [e["op"]]): out.write(line(op, n + k) + "\n")
            ops = e["pre"] + [e["op"]]
            if any(o.get("h") == 0 and o["op"] in ("Add", "ReadFile") for o in ops): out.write("D 0\n")
            out.write("D 1\nD 2\nE\n")
    print(n)


if __name__ == "__main__": main(sys.argv[1], sys.argv[2])
