"""Lexer for the hand-maintained binding interfaces: constants and prototypes as written, plus every file that states the version
and the exported symbols of a shared library built from the tree.  Tokenising only."""
import json, os, re, subprocess
from lex import dump, strip_comments


def fortran_number(tok):
    """a Fortran numeric literal in the decimal syntax every other fact uses: kind suffix dropped (1_C_INT, 2.5_C_DOUBLE, 7_4), D exponent -> E"""
    tok = re.sub(r"_(?:[A-Za-z]\w*|\d+)$", "", tok) if re.match(r"[-+]?[0-9.]", tok) else tok
    m = re.fullmatch(r"([-+]?[0-9][0-9.]*)[dD]([-+]?[0-9]+)", tok)
    return m.group(1) + "E" + m.group(2) if m else tok


def consts_fortran(txt):
    """INTEGER (KIND=C_INT), PARAMETER :: A = 1, B = A   (one or several entities per statement, continuation lines joined)"""
    txt = re.sub(r"![^\n]*", "", txt)
    txt = re.sub(r"&[ \t]*\n[ \t]*&?", " ", txt)
    res = []
    for m in re.finditer(r"^\s*(INTEGER|REAL)\s*\(\s*(?:KIND\s*=\s*)?(\w+)\s*\)\s*,\s*PARAMETER\s*::\s*([^\n]+)", txt, flags=re.M | re.I):
        for ent in re.split(r",(?![^(]*\))", m.group(3)):
            mm = re.match(r"\s*(\w+)\s*=\s*(\S+)\s*$", ent)
            if mm: res.append([mm.group(1), fortran_number(mm.group(2)), m.group(1).upper()])
    return res


def consts_pascal(txt):
    txt = re.sub(r"\{[^}]*\}|//[^\n]*", " ", txt)
    return [[m.group(1), m.group(2), "?"] for m in re.finditer(r"^\s*(\w+)\s*=\s*([-+0-9.eE]+|[A-Za-z_]\w*)\s*;", txt, flags=re.M)]


def idl_number(tok):
    """an IDL numeric literal in the decimal syntax every other fact uses: 1.5D-3 -> 1.5E-3, 0.5D -> 0.5 (lexical normalisation, no arithmetic)"""
    m = re.fullmatch(r"([-+]?[0-9][0-9.]*)[dD]([-+]?[0-9]*)", tok)
    if m: return m.group(1) + ("E" + m.group(2) if m.group(2) else "")
    m = re.fullmatch(r"([-+]?[0-9]+)(?:[uU]?[lL]{1,2}|[uU]?[sS]|[bB])", tok)          # integer type suffixes: 5L, 5LL, 5UL, 5S, 5B
    return m.group(1) if m else tok


def consts_idl(txt):
    txt = re.sub(r";[^\n]*", "", txt)
    return [[m.group(1), idl_number(m.group(2)), "?"] for m in re.finditer(r"^\s*(\w+)\s*=\s*([-+]?[0-9][0-9.eEdDuUlLsSbB+-]*|[A-Za-z_]\w*)\s*$", txt, flags=re.M)]


def consts_java(txt):
    txt = strip_comments(txt)
    res = [[m.group(2), m.group(3), m.group(1)] for m in re.finditer(r"public\s+static\s+final\s+(int|double)\s+(\w+)\s*=\s*([-+0-9.eE]+|[A-Za-z_]\w*)\s*;", txt)]
    decl = [[m.group(2), "", m.group(1)] for m in re.finditer(r"public\s+static\s+(int|double)\s+(\w+)\s*;", txt)]
    return res, decl


def names_pxd(txt):
    return [[m.group(2), "", m.group(1)] for m in re.finditer(r"^\s*(int|double)\s+(\w+)\s+\"(\w+)\"\s*$", txt, flags=re.M)]


def names_pyx(txt):
    return [[m.group(1), "", "?"] for m in re.finditer(r"^(\w+)\s*=\s*xrl\.(\w+)\s*$", txt, flags=re.M) if m.group(1) == m.group(2)]


def protos_pxd(txt):
    """cdef extern declarations:  double CS_Total(int Z, double E, xrl_error **error) nogil"""
    res = []
    for m in re.finditer(r"^\s*((?:const\s+)?(?:struct\s+)?\w+(?:\s*\*+)?)\s+(\w+)\s*\(([^)]*)\)\s*(?:nogil)?\s*$", txt, flags=re.M):
        ret, name, args = m.group(1), m.group(2), m.group(3)
        al = []
        for a in [x.strip() for x in args.split(",") if x.strip()]:
            toks = a.replace("*", " * ").split()
            base = [t for t in toks[:-1] if t not in ("const", "struct", "*")]
            if len(toks) >= 2 and re.fullmatch(r"\w+", toks[-1]) and base: toks = toks[:-1]
            al.append(re.sub(r"\s*\*\s*", "*", " ".join(toks)))
        res.append({"name": name, "ret": re.sub(r"\s*\*\s*", "*", ret), "args": al})
    return res


def protos_fortran(txt):
    """INTERFACE bodies with BIND(C,NAME='X'): argument C types by declaration, VALUE attribute, result type"""
    res = []
    txt = re.sub(r"&[ \t]*\n[ \t]*&?", " ", txt)
    for m in re.finditer(r"\b(FUNCTION|SUBROUTINE)\s+(\w+)\s*\(([^)]*)\)\s*BIND\s*\(\s*C\s*,\s*NAME\s*=\s*'(\w+)'\s*\)(?:\s*RESULT\s*\(\s*(\w+)\s*\))?(.*?)END\s*\1", txt, flags=re.S | re.I):
        kind, fname, args, cname, resname, body = m.group(1).upper(), m.group(2), m.group(3), m.group(4), m.group(5), m.group(6)
        decl = {}
        for d in re.finditer(r"^\s*(INTEGER|REAL|TYPE|CHARACTER)\s*\(\s*(?:KIND\s*=\s*)?(\w+)\s*\)((?:\s*,\s*[\w]+(?:\([^)]*\))?)*)\s*::\s*([^\n!]+)", body, flags=re.M | re.I):
            typ, kindname, attrs, names = d.group(1).upper(), d.group(2).upper(), d.group(3).upper(), d.group(4)
            for n in re.split(r",(?![^(]*\))", names):
                dim = "(" in n or "DIMENSION" in attrs
                n = re.sub(r"\(.*\)", "", n).strip()
                decl[n.upper()] = [typ, kindname, "VALUE" in attrs, dim]
        al = [decl.get(a.strip().upper(), ["?", "?", False, False]) for a in args.split(",") if a.strip()]
        res.append({"name": cname, "fname": fname, "kind": kind, "args": al, "ret": decl.get((resname or fname).upper(), ["?", "?", False, False]) if kind == "FUNCTION" else ["VOID", "", False, False]})
    return res


def protos_pascal(txt):
    """cdecl externals:  function Name(a:longint; var n:longint; e:PPxrl_error):double;cdecl;external External_library name 'CName';
    each argument as [type as written (lower case), passed by reference ("var")?]"""
    txt = re.sub(r"\{[^}]*\}|//[^\n]*", " ", txt)
    res = []
    for m in re.finditer(r"\b(function|procedure)\s+(\w+)\s*(?:\(([^)]*)\))?\s*(?::\s*(\w+))?\s*;\s*cdecl\s*;\s*external\s+\w+\s+name\s+'(\w+)'", txt, flags=re.I):
        kind, pname, args, ret, cname = m.group(1).lower(), m.group(2), m.group(3) or "", m.group(4) or "", m.group(5)
        al = []
        for grp in [g.strip() for g in args.split(";") if g.strip()]:
            byref = bool(re.match(r"(var|out)\s", grp, flags=re.I)); grp = re.sub(r"^(var|out|const)\s+", "", grp, flags=re.I)
            if ":" not in grp: al.append(["?", byref]); continue
            names, typ = grp.rsplit(":", 1)
            for _ in names.split(","): al.append([typ.strip().lower(), byref])
        res.append({"name": cname, "pname": pname, "kind": kind, "args": al, "ret": ret.lower()})
    return res


def enum_c(txt, name):
    """typedef enum { A, B = 3, C } name;  ->  [[A, ""], [B, "3"], [C, ""]]  (values as written; numbering is the spec's business)"""
    txt = strip_comments(txt)
    m = re.search(r"typedef\s+enum\s*(?:\w+\s*)?\{([^}]*)\}\s*%s\s*;" % name, txt)
    if not m: return []
    return [[p.split("=")[0].strip(), (p.split("=")[1].strip() if "=" in p else "")] for p in m.group(1).split(",") if p.strip()]


def enum_fortran(txt, first):
    txt = re.sub(r"![^\n]*", "", txt)
    for m in re.finditer(r"ENUM\s*,\s*BIND\s*\(\s*C\s*\)(.*?)END\s*ENUM", txt, flags=re.S | re.I):
        items = []
        for e in re.finditer(r"ENUMERATOR\s*(?:::)?\s*([^\n]+)", m.group(1), flags=re.I):
            for p in e.group(1).split(","):
                if p.strip(): items.append([p.split("=")[0].strip(), (p.split("=")[1].strip() if "=" in p else "")])
        if items and items[0][0].upper() == first.upper(): return items
    return []


def enum_pascal(txt, name):
    txt = re.sub(r"\{[^}]*\}|//[^\n]*", " ", txt)
    m = re.search(r"\b%s\s*=\s*\(([^)]*)\)\s*;" % name, txt, flags=re.I)
    if not m: return []
    return [[p.split("=")[0].strip(), (p.split("=")[1].strip() if "=" in p else "")] for p in m.group(1).split(",") if p.strip()]


def idl_dlm(txt):
    """IDL dynamically loadable module description:  FUNCTION NAME min max  /  PROCEDURE NAME min max"""
    return [[m.group(1).upper(), m.group(2), m.group(3), m.group(4)] for m in re.finditer(r"^(FUNCTION|PROCEDURE)\s+(\w+)\s+(\d+)\s+(\d+)", txt, flags=re.M)]


def idl_glue(txt):
    """instantiations of the glue macros in idl/xraylib_idl.c:  XRL_3IIF(CS_FluorLine)  ->  ["CS_FluorLine", "3", "IIF"]  (I int, F double, S string)"""
    txt = strip_comments(txt)
    return [[m.group(3), m.group(1), m.group(2)] for m in re.finditer(r"^\s*XRL_(\d+)([IFS]+)\s*\(\s*(\w+)\s*\)", txt, flags=re.M)]


def swig_apply(txt):
    """%apply <type> *OUTPUT { <type> <name>, ... }  ->  [[type, name], ...]: SWIG attaches the typemap to parameters of exactly that type AND name"""
    res = []
    for m in re.finditer(r"%apply[^{]*\{([^}]*)\}", txt):
        for a in m.group(1).split(","):
            toks = a.replace("*", " * ").split()
            if len(toks) >= 2: res.append([re.sub(r"\s*\*\s*", "*", " ".join(toks[:-1])), toks[-1]])
    return res


def libtool(txt, pats):
    return [(re.search(p, txt, flags=re.M).group(1) if re.search(p, txt, flags=re.M) else "") for p in pats]


def run(repo, root, out):
    R = lambda *p: open(os.path.join(repo, *p), errors="replace").read()
    b = {}
    b["fortran"] = {"consts": consts_fortran(R("fortran", "xraylib_wrap.F90")), "protos": protos_fortran(R("fortran", "xraylib_wrap.F90") + "\n" + R("fortran", "xraylib_wrap_generated.F90"))}
    b["pascal"] = {"consts": consts_pascal(R("pascal", "xraylib_const.pas")) + [c for c in consts_pascal(R("pascal", "xraylib.pas")) if c[0].isupper() or c[0].startswith("XRAYLIB")],
                   "protos": protos_pascal(R("pascal", "xraylib.pas") + "\n" + R("pascal", "xraylib_impl.pas"))}
    b["enums"] = {"c": enum_c(R("include", "xraylib-error.h"), "xrl_error_code"), "fortran": enum_fortran(R("fortran", "xraylib_wrap.F90"), "XRL_ERROR_MEMORY"), "pascal": enum_pascal(R("pascal", "xraylib.pas"), "xrl_error_code")}
    b["libtool"] = {"configure.ac": libtool(R("configure.ac"), [r"^LIB_CURRENT=(\d+)", r"^LIB_REVISION=(\d+)", r"^LIB_AGE=(\d+)"]),
                    "meson.build": libtool(R("meson.build"), [r"^lib_current\s*=\s*(\d+)", r"^lib_revision\s*=\s*(\d+)", r"^lib_age\s*=\s*(\d+)"])}
    idl = []
    for f in ["xraylib.pro", "xraylib_lines.pro", "xraylib_shells.pro", "xraylib_auger.pro", "xraylib_nist_compounds.pro", "xraylib_radionuclides.pro"]:
        idl += consts_idl(R("idl", f))
    b["idl"] = {"consts": idl, "dlm": idl_dlm(R("idl", "libxrlidl.dlm")), "glue": idl_glue(R("idl", "xraylib_idl.c"))}
    jc, jd = consts_java(R("java", "Xraylib.java"))
    b["java"] = {"consts": jc, "decl": jd}
    pxd = R("python", "xraylib_np_c.pxd")
    b["cython"] = {"names": names_pxd(pxd), "pyx": names_pyx(R("python", "xraylib_np.pyx")), "protos": protos_pxd(pxd)}
    # constants the Java data file generator writes from the C macros
    b["java_datafile"] = {"written": re.findall(r"\b(AVOGNUM|KEV2ANGST|MEC2|RE2|R_E|ZMAX|SHELLNUM\w*|LINENUM|TRANSNUM|AUGERNUM)\b", strip_comments(R("java", "pr_data_java.c")))}
    # C++ header and SWIG interface take the constants from the C headers by inclusion
    b["cxx"] = {"includes": re.findall(r'#\s*include\s*[<"]([\w\-./+]+)[>"]', R("cplusplus", "xraylib++.h"))}
    b["swig_apply"] = swig_apply(R("src", "xraylib.i"))
    b["swig"] = {"includes": re.findall(r'%include\s*"([\w\-./]+)"', R("src", "xraylib.i")) + re.findall(r'#\s*include\s*"([\w\-./]+)"', R("src", "xraylib.i"))}
    dump(b, os.path.join(out, "bindings.json"))
    vers = []
    pats = [("meson.build", r"version\s*:\s*'([0-9.]+)'"), ("configure.ac", r"AC_INIT\(\[xraylib\],\[([0-9.]+)\]"), ("pyproject.toml", r'^version\s*=\s*"([0-9.]+)"'),
            (".bumpversion.cfg", r"current_version\s*=\s*([0-9.]+)"), ("xraylib.spec", r"^Version:\s*([0-9.]+)"), ("CITATION.cff", r"^version:\s*([0-9.]+)"),
            ("java/build.gradle.in", r"^version\s*=\s*'([0-9.]+)'"), ("idl/libxrlidl.dlm", r"^VERSION\s+([0-9.]+)"), ("Changelog", r"\AVersion\s+([0-9.]+)")]
    for f, pat in pats:
        m = re.search(pat, R(f), flags=re.M)
        vers.append([f, m.group(1) if m else ""])
    dump(vers, os.path.join(out, "versions.json"))
