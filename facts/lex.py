#!/usr/bin/env python3
"""Dumb lexers: files of the current /repo working tree -> JSON facts.

They tokenise and group; they never interpret.  Every number stays the decimal
string found in the file (JSON floats are silently truncated by the TLA+ Json
module and TLC integers are 32 bit).  All rules live in the TLA+ modules.

usage: lex.py <repo> <dataroot> <outdir> <what> [<what> ...]
  what: macros names scalar auger spline compton kissel catalogs protos
"""
import json, os, re, subprocess, sys

INSTALLED = ["xraylib.h", "xraylib-lines.h", "xraylib-shells.h", "xraylib-parser.h", "xraylib-auger.h",
             "xraylib-defs.h", "xraylib-crystal-diffraction.h", "xraylib-nist-compounds.h",
             "xraylib-radionuclides.h", "xraylib-error.h", "xraylib-deprecated.h", "xraylib-aux.h"]


def installed(repo):
    """the public headers as include/meson.build installs them (a header added to or removed from the installation is followed);
    the list of the pinned tree if that file cannot be read as expected"""
    try:
        listed = re.findall(r"'([\w\-.+]+\.h)'", open(os.path.join(repo, "include", "meson.build")).read())
        listed = [h for h in dict.fromkeys(listed) if os.path.exists(os.path.join(repo, "include", h))]
        return listed if len(listed) >= 6 and "xraylib.h" in listed else list(INSTALLED)
    except OSError:
        return list(INSTALLED)


def dump(obj, path):
    os.makedirs(os.path.dirname(path), exist_ok=True)
    with open(path, "w") as f:
        json.dump(obj, f, separators=(",", ":"))


def strip_comments(s):
    s = re.sub(r"/\*.*?\*/", " ", s, flags=re.S)
    return re.sub(r"//[^\n]*", " ", s)


# ---------------------------------------------------------------- macros
def lex_macros(repo, out):
    """#define NAME token(s) of the installed public headers (textual), then cpp-style alias expansion."""
    inc = os.path.join(repo, "include")
    listed = installed(repo)
    raw = {}
    where = {}
    for h in listed:
        txt = strip_comments(open(os.path.join(inc, h)).read())
        for m in re.finditer(r"^[ \t]*#[ \t]*define[ \t]+(\w+)[ \t]+([^\n]+?)[ \t]*$", txt, flags=re.M):
            name, val = m.group(1), m.group(2).strip()
            if name in raw and raw[name] != val and name not in ("XRL_EXTERN",):
                pass
            raw.setdefault(name, val)
            where.setdefault(name, h)
    ints, decs = {}, {}

    def resolve(v, depth=0):
        v = v.strip()
        while v.startswith("(") and v.endswith(")"):
            v = v[1:-1].strip()
        if re.fullmatch(r"-?\d+", v):
            return ("i", int(v))
        if re.fullmatch(r"-?(\d+\.\d*|\.\d+|\d+)([eE][-+]?\d+)?", v):
            return ("d", v)
        if re.fullmatch(r"\w+", v) and v in raw and depth < 8:
            return resolve(raw[v], depth + 1)
        return None
    for n, v in raw.items():
        r = resolve(v)
        if r is None:
            continue
        (ints if r[0] == "i" else decs)[n] = r[1]
    fam = {"shell": {}, "line": {}, "trans": {}, "auger": {}, "nist": {}, "nuclide": {}, "other": {}}
    for n, v in ints.items():
        if n.endswith("_SHELL"): fam["shell"][n] = v
        elif n.endswith("_LINE"): fam["line"][n] = v
        elif n.endswith("_TRANS"): fam["trans"][n] = v
        elif n.endswith("_AUGER"): fam["auger"][n] = v
        elif n.startswith("NIST_COMPOUND_"): fam["nist"][n] = v
        elif n.startswith("RADIO_NUCLIDE_"): fam["nuclide"][n] = v
        else: fam["other"][n] = v
    alias = {n: raw[n] for n in raw if re.fullmatch(r"\w+", raw[n]) and not re.fullmatch(r"-?\d+", raw[n])}
    dump({"fam": fam, "dec": decs, "alias": alias, "where": where}, os.path.join(out, "macros.json"))
    return fam


# ---------------------------------------------------------------- names (xrayvars.c)
def lex_names(repo, out):
    txt = strip_comments(open(os.path.join(repo, "src", "xrayvars.c")).read())
    res = {}
    for arr in ["ShellName", "LineName", "TransName", "AugerName", "AugerNameTotal"]:
        m = re.search(r"char\s+%s\s*\[\s*\]\s*\[\s*\d+\s*\]\s*=\s*\{(.*?)\}\s*;" % arr, txt, flags=re.S)
        assert m, arr
        res[arr] = re.findall(r'"([^"]*)"', m.group(1))
    txt = strip_comments(open(os.path.join(repo, "src", "xrayglob.c")).read())
    m = re.search(r"MendelArray\s*\[\s*MENDEL_MAX\s*\]\s*=\s*\{(.*?)\}\s*;", txt, flags=re.S)
    res["Mendel"] = [[int(a), b] for a, b in re.findall(r'\{\s*(\d+)\s*,\s*"(\w+)"\s*\}', m.group(1))]
    dump(res, os.path.join(out, "names.json"))
    return res


# ---------------------------------------------------------------- scalar data files
TWOCOL = {"atomicweight": "atomicweight.dat", "densities": "densities.dat"}
THREECOL = {"edges": "edges.dat", "fluor_lines": "fluor_lines.dat", "atomiclevelswidth": "atomiclevelswidth.dat",
            "fluor_yield": "fluor_yield.dat", "jump": "jump.dat", "coskron": "coskron.dat", "radrate": "radrate.dat"}


def tokens(path):
    return open(path).read().split()


def lex_scalar(root, out):
    """{file: {"Z": {"name": [token, token...]}}} -- records grouped by key, file order kept inside a key.
    Reading stops where fscanf("%d %s %lf") would stop (first token triple that does not fit)."""
    res = {}
    num = re.compile(r"[-+]?(\d+\.?\d*|\.\d+)([eE][-+]?\d+)?$")
    for key, fn in TWOCOL.items():
        t = tokens(os.path.join(root, "data", fn)); d = {}
        for i in range(0, len(t) - 1, 2):
            if not re.fullmatch(r"-?\d+", t[i]) or not num.match(t[i + 1]): break
            d.setdefault(t[i], {}).setdefault("_", []).append(t[i + 1])
        res[key] = d
    for key, fn in THREECOL.items():
        t = tokens(os.path.join(root, "data", fn)); d = {}
        for i in range(0, len(t) - 2, 3):
            if not re.fullmatch(r"-?\d+", t[i]) or not num.match(t[i + 2]): break
            d.setdefault(t[i], {}).setdefault(t[i + 1], []).append(t[i + 2])
        res[key] = d
    dump(res, os.path.join(out, "scalar.json"))
    return res


def lex_auger(root, out):
    t = tokens(os.path.join(root, "data", "auger_rates.dat")); d = {}
    for i in range(0, len(t) - 2, 3):
        d.setdefault(t[i], {}).setdefault(t[i + 1], []).append(t[i + 2])
    os.makedirs(os.path.join(out, "auger"), exist_ok=True)
    for z, recs in d.items():
        dump(recs, os.path.join(out, "auger", "Z%d.json" % int(z)))
    dump(sorted(int(z) for z in d), os.path.join(out, "auger", "index.json"))


# ---------------------------------------------------------------- spline files  N then N rows of (x y y2)
SPLINE3 = {"CS_Photo": "CS_Photo.dat", "CS_Rayl": "CS_Rayl.dat", "CS_Compt": "CS_Compt.dat", "FF": "FF.dat",
           "SF": "SF.dat", "Fi": "fi.dat", "Fii": "fii.dat"}


def lex_spline(root, out):
    """per quantity, per element (the n-th block is element n): {"N":n,"x":[..],"y":[..],"y2":[..]} (tokens)."""
    idx = {}
    for q, fn in list(SPLINE3.items()) + [("CS_Energy", "CS_Energy.dat")]:
        t = tokens(os.path.join(root, "data", fn)); i = 0; z = 0
        if q == "CS_Energy":
            nz = int(t[0]); i = 1
        idx[q] = []
        while i < len(t):
            n = int(t[i]); i += 1; z += 1
            rows = t[i:i + 3 * n]; i += 3 * n
            dump({"N": n, "x": rows[0::3], "y": rows[1::3], "y2": rows[2::3]},
                 os.path.join(out, "spline", q, "Z%d.json" % z))
            idx[q].append(n)
            if q == "CS_Energy" and z >= nz: break
    dump(idx, os.path.join(out, "spline", "index.json"))


def lex_compton(root, out):
    t = tokens(os.path.join(root, "data", "comptonprofiles.dat")); i = 0; z = 0; occ = {}
    while i + 1 < len(t):
        ns, npz = int(t[i]), int(t[i + 1]); i += 2; z += 1
        u = t[i:i + ns]; i += ns
        pz = t[i:i + npz]; i += npz
        tot = t[i:i + npz]; i += npz
        tot2 = t[i:i + npz]; i += npz
        occd = [k for k in range(ns) if float(u[k]) > 0.0]
        part = {}; part2 = {}
        for k in occd:
            part[str(k)] = t[i:i + npz]; i += npz
        for k in occd:
            part2[str(k)] = t[i:i + npz]; i += npz
        occ[str(z)] = u
        dump({"NS": ns, "N": npz, "occ": u, "x": pz, "y": tot, "y2": tot2, "py": part, "py2": part2},
             os.path.join(out, "spline", "Compton", "Z%d.json" % z))
    dump(occ, os.path.join(out, "compton_occ.json"))


def lex_kissel(root, out):
    """kissel_pe.dat: per element total block, 31 occupancies, per shell (n, edge, rows)."""
    p = os.path.join(root, "data", "kissel_pe.dat")
    t = tokens(p); i = 0; z = 0; occ = {}; idx = []
    while i < len(t):
        n = int(t[i]); i += 1; z += 1
        rows = t[i:i + 3 * n]; i += 3 * n
        o = t[i:i + 31]; i += 31
        shells = {}
        for s in range(31):
            ns = int(t[i]); i += 1
            if ns == 0: continue
            edge = t[i]; i += 1
            r = t[i:i + 3 * ns]; i += 3 * ns
            shells[str(s)] = {"N": ns, "edge": edge, "x": r[0::3], "y": r[1::3], "y2": r[2::3]}
        occ[str(z)] = o
        dump({"N": n, "x": rows[0::3], "y": rows[1::3], "y2": rows[2::3], "occ": o, "shells": shells},
             os.path.join(out, "spline", "Kissel", "Z%d.json" % z))
        idx.append(n)
    dump(occ, os.path.join(out, "kissel_occ.json"))
    dump(idx, os.path.join(out, "spline", "kissel_index.json"))


def main():
    repo, root, out = sys.argv[1:4]
    for w in sys.argv[4:]:
        if w == "macros": lex_macros(repo, out)
        elif w == "names": lex_names(repo, out)
        elif w == "scalar": lex_scalar(root, out)
        elif w == "auger": lex_auger(root, out)
        elif w == "spline": lex_spline(root, out)
        elif w == "compton": lex_compton(root, out)
        elif w == "kissel": lex_kissel(root, out)
        else:
            import importlib
            mod = importlib.import_module("lex_" + w)
            mod.run(repo, root, out)


if __name__ == "__main__":
    sys.path.insert(0, os.path.dirname(os.path.abspath(__file__)))
    main()
