"""Lexer for the catalogue sources: NIST compounds, radionuclides (internal headers), Crystals.dat."""
import json, os, re
from lex import dump, strip_comments


def arrays(txt, prefix):
    res = {}
    for m in re.finditer(r"static\s+(?:int|double)\s+__%s_(\w+?)_(\d+)\s*\[\s*\]\s*=\s*\{([^}]*)\}" % prefix, txt):
        res[(m.group(1), int(m.group(2)))] = [t.strip() for t in m.group(3).split(",") if t.strip()]
    return res


def run(repo, root, out):
    txt = strip_comments(open(os.path.join(repo, "src", "xraylib-nist-compounds-internal.h")).read())
    arr = arrays(txt, "CompoundDataNISTList")
    n = int(re.search(r"nCompoundDataNISTList\s*=\s*(\d+)", txt).group(1))
    body = txt[txt.index("compoundDataNISTList[]"):]
    ents = []
    for m in re.finditer(r'\{\s*"([^"]*)"\s*,\s*(\d+)\s*,\s*__CompoundDataNISTList_Elements_(\d+)\s*,\s*__CompoundDataNISTList_massFractions_(\d+)\s*,\s*([-+0-9.eE]+)\s*\}', body):
        ents.append({"name": m.group(1), "n": int(m.group(2)), "el": [int(x) for x in arr[("Elements", int(m.group(3)))]],
                     "mf": arr[("massFractions", int(m.group(4)))], "rho": m.group(5)})
    nist = {"n": n, "entries": ents}
    txt = strip_comments(open(os.path.join(repo, "src", "xraylib-radionuclides-internal.h")).read())
    arr = arrays(txt, "NuclideDataList")
    n = int(re.search(r"nNuclideDataList\s*=\s*(\d+)", txt).group(1))
    body = txt[txt.index("nuclideDataList[]"):]
    ents = []
    for m in re.finditer(r'\{\s*"([^"]*)"\s*,\s*(\d+)\s*,\s*(\d+)\s*,\s*(\d+)\s*,\s*(\d+)\s*,\s*(\d+)\s*,\s*__NuclideDataList_XrayLines_(\d+)\s*,\s*__NuclideDataList_XrayIntensities_(\d+)\s*,\s*(\d+)\s*,\s*__NuclideDataList_GammaEnergies_(\d+)\s*,\s*__NuclideDataList_GammaIntensities_(\d+)\s*\}', body):
        g = m.groups()
        ents.append({"name": g[0], "Z": int(g[1]), "A": int(g[2]), "N": int(g[3]), "Zx": int(g[4]), "nx": int(g[5]),
                     "lines": arr[("XrayLines", int(g[6]))], "xi": arr[("XrayIntensities", int(g[7]))], "ng": int(g[8]),
                     "ge": arr[("GammaEnergies", int(g[9]))], "gi": arr[("GammaIntensities", int(g[10]))]})
    nuc = {"n": n, "entries": ents}
    # Crystals.dat: "#S <num> <name>", "#UCELL a b c alpha beta gamma", "#L ...", atom rows "Z frac x y z"
    cr = []; cur = None; inatoms = False
    for line in open(os.path.join(root, "data", "Crystals.dat")):
        if line.startswith("#S"):
            t = line.split(); cur = {"name": t[2], "cell": None, "atoms": []}; cr.append(cur); inatoms = False
        elif line.startswith("#UCELL") and cur is not None:
            cur["cell"] = line.split()[1:7]
        elif line.startswith("#L") and cur is not None:
            inatoms = True
        elif line.startswith("#"):
            inatoms = False
        elif inatoms and line.strip():
            t = line.split()
            if len(t) >= 5: cur["atoms"].append(t[:5])
    dump({"nist": nist, "nuclide": nuc, "crystal": cr}, os.path.join(out, "catalogs.json"))
