"""C prototypes of the installed public headers (plus the private error API header): name, return type, argument types."""
import os, re
from lex import dump, strip_comments, installed


def protos_of(txt):
    txt = strip_comments(txt)
    txt = re.sub(r"^[ \t]*#.*$", "", txt, flags=re.M)
    txt = re.sub(r"\bGNUC_PRINTF\s*\([^)]*\)", "", txt)
    # attribute decorations carry no type information: __attribute__((...)), and project macros of the XRL_DEPRECATED kind (all but XRL_EXTERN)
    txt = re.sub(r"__attribute__\s*\(\((?:[^()]|\([^()]*\))*\)\)", " ", txt)
    txt = re.sub(r"\bXRL_(?!EXTERN\b|ERROR_)[A-Z][A-Z_0-9]*\b(?:\s*\([^()]*\))?", " ", txt)
    res = []
    for m in re.finditer(r"(?:XRL_EXTERN\s+)?((?:const\s+)?(?:struct\s+)?\w+(?:\s*\*+|\s+\*+|\s+))\s*(\w+)\s*\(([^;{}()]*)\)\s*;", txt):
        ret, name, args = m.group(1).strip(), m.group(2), m.group(3).strip()
        if ret in ("typedef", "return", "else") or name in ("defined",): continue
        al = []; names = []
        if args and args != "void":
            for a in args.split(","):
                a = a.strip()
                if a == "...": al.append("..."); names.append(""); continue
                a = re.sub(r"(\w+)\s*\[\s*\]", r"* \1", a)
                toks = a.replace("*", " * ").split()
                base = [t for t in toks[:-1] if t not in ("const", "struct", "unsigned", "*")]
                pname = ""
                if len(toks) >= 2 and re.fullmatch(r"\w+", toks[-1]) and base:
                    pname = toks[-1]; toks = toks[:-1]                 # the parameter name is kept aside (SWIG typemaps match on it)
                names.append(pname)
                t = " ".join(toks)
                al.append(re.sub(r"\s*\*\s*", "*", t).strip())
        res.append({"name": name, "upper": name.upper(), "ret": re.sub(r"\s*\*\s*", "*", re.sub(r"\s+", " ", ret)), "args": al, "argnames": names})      # "upper": for the case-insensitive languages (IDL)
    return res


def run(repo, root, out):
    allp = []
    for h in installed(repo):
        for p in protos_of(open(os.path.join(repo, "include", h)).read()):
            p["header"] = h; allp.append(p)
    for p in protos_of(open(os.path.join(repo, "src", "xraylib-error-private.h")).read()):
        p["header"] = "xraylib-error-private.h"; allp.append(p)
    dump(allp, os.path.join(out, "protos.json"))
