#!/usr/bin/env python3
"""Port of data/kissel/kissel.pro: regenerate kissel_pe.dat from data/kissel/0* (prototype)."""
import sys, os, glob, math
SHELLS = ["K","L1","L2","L3","M1","M2","M3","M4","M5","N1","N2","N3","N4","N5","N6","N7",
          "O1","O2","O3","O4","O5","O6","O7","P1","P2","P3","P4","P5","Q1","Q2","Q3"]
KAPPA = {-1:1, 1:2, -2:3, 2:4, -3:5, 3:6, -4:7}   # position within principal shell
LETTER = "KLMNOPQ"
def deriv(x, y):
    n = len(x); d = [0.0]*n
    if n < 3: raise ValueError("need 3 points")
    for i in range(1, n-1):
        x0,x1,x2 = x[i-1],x[i],x[i+1]; y0,y1,y2 = y[i-1],y[i],y[i+1]
        x01,x02,x12 = x0-x1, x0-x2, x1-x2
        d[i] = y0*x12/(x01*x02) + y1*(1.0/x12 - 1.0/x01) - y2*x01/(x02*x12)
    x01,x02,x12 = x[0]-x[1], x[0]-x[2], x[1]-x[2]
    d[0] = y[0]*(x01+x02)/(x01*x02) - y[1]*x02/(x01*x12) + y[2]*x01/(x02*x12)
    x01,x02,x12 = x[n-3]-x[n-2], x[n-3]-x[n-1], x[n-2]-x[n-1]
    d[n-1] = -y[n-3]*x12/(x01*x02) + y[n-2]*x02/(x01*x12) - y[n-1]*(x02+x12)/(x02*x12)
    return d
def second(x, y):
    d2 = deriv(x, deriv(x, y))
    return [0.0 if (v < -1.0 or v > 1.0) else v for v in d2]
END = " *** END OF DATA ***"
def read_data(lines, i):
    xs=[]; ys=[]
    while True:
        line = lines[i]; i += 1
        if line.startswith(END): break
        v = line.split()
        xs.append(math.log(float(v[0]))); ys.append(math.log(float(v[1])))
    return xs, ys, i
def convert(path):
    lines = open(path).read().split("\n")
    i = 7                                   # FOR i=0,6 DO READF (as the IDL script does)
    ex, ey, i = read_data(lines, i)
    total = (ex, ey, second(ex, ey))
    while not lines[i].startswith("*BLOCK:CONFIGURATION"): i += 1
    i += 1 + 12
    occ = {s:0.0 for s in SHELLS}; be = {s:0.0 for s in SHELLS}
    while True:
        line = lines[i]; i += 1
        if not line.strip(): continue
        if line.startswith(END): break
        v = line.split()
        n = int(v[0]); k = int(v[1])
        name = "K" if n == 1 else LETTER[n-1] + str(KAPPA[k])
        occ[name] = float(v[4]); be[name] = float(v[5])
    part = {}
    for s in SHELLS:
        if occ[s] == 0.0: continue
        tag = "*BLOCK:" + s
        while not lines[i].startswith(tag): i += 1
        i += 1 + 15
        xs, ys, i = read_data(lines, i)
        part[s] = (xs, ys, second(xs, ys))
    return total, occ, be, part
def g8(v): return "%16.8g" % v
def g6(v): return "%13.6g" % v
def main(src, dst):
    files = sorted(glob.glob(os.path.join(src, "0*")))
    with open(dst, "w") as out:
        for f in files:
            total, occ, be, part = convert(f)
            out.write("%12d\n" % len(total[0]))
            for x,y,z in zip(*total): out.write(g8(x)+g8(y)+g8(z)+"\n")
            for s in SHELLS: out.write(g6(occ[s])+"\n")
            for s in SHELLS:
                if occ[s] != 0.0:
                    xs,ys,zs = part[s]
                    out.write("%12d\n" % len(xs)); out.write(g6(be[s])+"\n")
                    for x,y,z in zip(xs,ys,zs): out.write(g8(x)+g8(y)+g8(z)+"\n")
                else: out.write("%12d\n" % 0)
if __name__ == "__main__": main(sys.argv[1], sys.argv[2])
