"""C14: crystal collections stay consistent under any sequence of operations."""
import concurrent.futures as cf, json, os, subprocess
from xrlcheck import verdict, Broken, VERIF, NCPU


def split_histories(path, n, outprefix):
    """contiguous groups of whole histories, each slice starting with the preamble (lines before the first reset: pool of the built-in crystals)"""
    lines = open(path).read().splitlines(True)
    first = next((i for i, l in enumerate(lines) if l.startswith('{"k":"reset"')), None)
    if first is None: return [], 0
    # defs that precede a history travel with it
    while first > 0 and lines[first - 1].startswith('{"k":"def"') and '"builtin":0' in lines[first - 1] and '"name":"' in lines[first - 1] and not is_fixed(lines, first - 1): first -= 1
    pre, body = lines[:first], lines[first:]
    groups = []; cur = []
    for l in body:
        cur.append(l)
        if l.startswith('{"k":"end"') or l.startswith('{"k":"abort"'):
            groups.append(cur); cur = []
    if cur: groups.append(cur)
    n = max(1, min(n, len(groups))); per = (len(groups) + n - 1) // n; outs = []
    for i in range(n):
        g = groups[i * per:(i + 1) * per]
        if not g: break
        p = "%s.%02d.ndjson" % (outprefix, i)
        with open(p, "w") as f:
            f.writelines(pre)
            for grp in g: f.writelines(grp)
        outs.append(p)
    return outs, len(groups)


def is_fixed(lines, i):
    return False


def run_parts(ctx, exe, mode_args_list, prefix):
    def one(i):
        out = os.path.join(ctx.scratch, "%s.%02d.raw" % (prefix, i))
        r = ctx.run_harness(exe, mode_args_list[i], out, env={"XRL_SCRATCH_DIR": ctx.scratch, "VERIF_SEED": str(ctx.seed * 1000 + i),
                                                             "ASAN_OPTIONS": "detect_leaks=1", "UBSAN_OPTIONS": "print_stacktrace=1"})
        return out, r
    with cf.ThreadPoolExecutor(max_workers=NCPU) as ex:
        return list(ex.map(one, range(len(mode_args_list))))


def run(ctx):
    b = ctx.build("asan", "A")
    exe = ctx.harness(b, "asan")
    facts = ctx.facts(b, ["macros", "names"])
    # 1. the model: invariants and action properties, exhaustive within the bounds of MC_C14.cfg
    r = ctx.tlc_must_pass("MC_C14", cfg="MC_C14" if ctx.quick else "MC_C14_thorough", workers=16, heap="8g")
    mc_states, mc_trans = r["distinct"], r["generated"]
    # 2. every transition of the (smaller) model graph becomes a program
    r = ctx.tlc("MC_C14", cfg="MC_C14_emit", workers=1, heap="4g")
    if not r["ok"]: raise Broken("MC_C14_emit failed:\n" + r["out"][-3000:])
    emitted = os.path.join(ctx.scratch, "edges.out"); open(emitted, "w").write(r["out"])
    prog = os.path.join(ctx.scratch, "prog.txt")
    nprog = int(subprocess.run(["python3", os.path.join(VERIF, "bin", "paths.py"), emitted, prog], capture_output=True, text=True, check=True).stdout.strip())
    # split the program file into NCPU files of whole programs
    progs = open(prog).read().split("H ")[1:]
    per = (len(progs) + NCPU - 1) // NCPU; pfiles = []
    for i in range(NCPU):
        part = progs[i * per:(i + 1) * per]
        if not part: break
        p = os.path.join(ctx.scratch, "prog.%02d.txt" % i); open(p, "w").write("".join("H " + x for x in part)); pfiles.append(p)
    outs = run_parts(ctx, exe, [["c14", "prog", p] for p in pfiles], "replay")
    # 3. seeded random histories
    nh, maxlen = (200, 200) if ctx.quick else (10000, 200)
    outs += run_parts(ctx, exe, [["c14", "rand", (nh + NCPU - 1) // NCPU, maxlen] for _ in range(NCPU)], "rand")
    # 3b. one long history that grows a user array far beyond the built-in collection's own limit, then reads files into it
    outs += run_parts(ctx, exe, [["c14", "grow", 640]], "grow")
    traces = []; nhist = 0; nev = 0; extra = []
    for i, (out, r) in enumerate(outs):
        if r.returncode != 0:
            extra.append({"prop": "C14", "why": "harness ended abnormally", "rc": r.returncode, "stderr": r.stderr[-1500:]})
        parts, ng = split_histories(out, 2 if not ctx.quick else 1, os.path.join(ctx.scratch, "tr%02d" % i))
        traces += parts; nhist += ng
        nev += sum(1 for _ in open(out))
    for l in open(outs[-1][0]):
        if '"op":"ReadFile"' in l and len(ctx.samples) < 3: ctx.samples.append(json.loads(l))
    ctx.tlc_traces("Trace_C14", traces, env={"XRL_FACTS": facts}, heap="2g")
    # 4. damaged files: the reader's verdict is free, what may happen to the collection is not (Trace_C14f)
    nfz = 100 if ctx.quick else 2000
    fz = run_parts(ctx, exe, [["c14", "fuzz", nfz] for _ in range(NCPU)], "fuzz")
    nfuzz = 0; fzfiles = []
    for out, r in fz:
        if r.returncode != 0: extra.append({"prop": "C14", "why": "harness ended abnormally on damaged files", "rc": r.returncode, "stderr": r.stderr[-1500:]})
        keep = out + ".fz"
        with open(keep, "w") as f:
            for l in open(out):
                if l.startswith('{"k":"fuzz'): f.write(l); nfuzz += 1
        fzfiles.append(keep)
    ctx.tlc_traces("Trace_C14f", fzfiles)
    # 5. a fault at a particular point: in the 11 crystal scenarios of the fault stage (copies, lists, array creation, additions with room / at capacity /
    #    without storage / to the built-in collection, file loads) every allocation request is refused in turn: rejected => collection as it was and usable
    ctx.tlc_must_pass("MC_C04f", workers=2)
    fout = os.path.join(ctx.scratch, "fault.ndjson")
    rr = ctx.run_harness(exe, ["c04f", "crystal"], fout, env={"XRL_SCRATCH_DIR": ctx.scratch, "ASAN_OPTIONS": "detect_leaks=0:allocator_may_return_null=1", "UBSAN_OPTIONS": "print_stacktrace=1"}, timeout=600)
    if rr.returncode != 0: extra.append({"prop": "C14", "why": "fault driver ended abnormally", "rc": rr.returncode, "stderr": (rr.stderr or "")[-800:]})
    nfault = sum(1 for _ in open(fout))
    ctx.tlc_traces("Trace_C04f", [fout], env={"XRL_PROP": "C14"})
    ctx.traces = nhist; ctx.evaluations = nev + nfuzz + nfault
    ctx.states += 0
    return verdict(ctx, "model_checking", {
        "distinct_nontrivial": nhist,
        "rule": "model: XrlCrystalArrays explored exhaustively (MC_C14.cfg: 2 user arrays + built-in, 3 names x 2 geometries, files of <= 2 entries with 6 kinds, 2 copy slots, <= 5 operations (6 in the thorough tier)): invariants Consistent, CopiesIndependent and the action properties; conformance: one program per transition of the MC_C14_emit graph (%d programs) replayed into the real library under ASan/UBSan, plus %d seeded random histories of length <= %d; every recorded step validated by TLC against Outcomes(st, op); plus damaged crystal files (one to three bytes deleted, duplicated or replaced) read into user arrays and the built-in collection under ASan, judged against Trace_C14f: refused => unchanged, accepted => old members kept, names strictly sorted, count and retrievability intact (result, listed names sorted, n_crystal, capacity, returned crystals, audits). fault stage: every allocation request of 11 crystal scenarios refused in turn (XrlHeap!FaultWhy: the call returns, reports XRL_ERROR_MEMORY, the collection is as it was and the same addition then succeeds; design: MC_C04f). non-trivial = histories validated." % (nprog, nh, maxlen),
        "fault_events": nfault, "damaged_files": nfuzz, "model_states": mc_states, "model_transitions": mc_trans, "programs_from_model_edges": nprog, "random_histories": nh,
    }, ["built-in capacity in replayed programs is set through the public field Crystal_arr.n_alloc (5% of the random histories fill the real 512 slots instead)",
        "generated crystal files use lines < 100 bytes (the reader's line buffer)", "ASan/UBSan/LSan reports end a history with an abort event"], extra_violations=extra)
