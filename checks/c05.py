"""C05: totals, per-atom and differential cross sections obey their defining identities."""
import concurrent.futures as cf, json, os
from xrlcheck import verdict, NCPU


def run(ctx):
    tier = "quick" if ctx.quick else "thorough"
    nev = 0; nagg = 0; nok = 0
    for cfgname in ("A", "B"):
        b = ctx.build("plain", cfgname); exe = ctx.harness(b)
        facts = ctx.facts(b, ["macros", "names", "scalar", "compton", "kissel"], sub="facts" + cfgname)
        def one(i):
            out = os.path.join(ctx.scratch, "agg%s.%02d.ndjson" % (cfgname, i))
            open(out, "w").close()
            for Z in range(i, 122, NCPU):
                tmp = out + ".z"; ctx.run_harness(exe, ["c05", Z, Z, tier], tmp)
                with open(out, "a") as f: f.write(open(tmp).read())
            return out
        with cf.ThreadPoolExecutor(max_workers=NCPU) as ex: outs = list(ex.map(one, range(NCPU)))
        for o in outs:
            for l in open(o):
                ev = json.loads(l); nev += 1
                aggs = [k for k in ev["r"] if k not in ("AtomicWeight", "MomentTransf", "FF_Rayl", "SF_Compt", "DCS_Thoms", "DCS_KN", "DCSP_Thoms", "DCSP_KN", "CS_Photo", "CS_Rayl", "CS_Compt", "CS_Energy")]
                nagg += len(aggs) + (31 if ev["k"] == "aggE" else 0); nok += sum(ev["r"][k][0] for k in aggs)
                if cfgname == "B" and ev["k"] == "aggE" and ev["Z"] == 82 and ev["r"]["CS_Total_Kissel"][0] and not ctx.samples:
                    ctx.samples.append({"k": "aggE", "Z": 82, "E": ev["E"], "r": ev["r"]})
        ctx.tlc_traces("Trace_C05", outs, env={"XRL_FACTS": facts})
    ctx.evaluations = nagg
    return verdict(ctx, "model_checking", {
        "distinct_nontrivial": nok,
        "rule": "Z = 0..121 x energies (knots of the element's photo table%s, both ends of the photo/Rayleigh/Compton tables +/-1e-6, K..%s edges +/-1e-9, 0, -1) x theta/phi grids (incl. 0, pi/2, pi, negative, > 2 pi), data configurations A (Kissel aggregates must fail) and B: %d composite events; each carries the aggregate and its parts as the library returns them; TLC recomputes the 17 identities + 31 sub-shell conversions per event (XrlComposite, rel 1e-12) and the failure rule. evaluations = aggregate results judged; non-trivial = aggregates that returned a value." % (" subsampled" if ctx.quick else "", "M5" if ctx.quick else "P5", nev),
        "events": nev,
    }, ["the parts themselves are decided by C01/C02", "N_A is the header constant AVOGNUM"])
