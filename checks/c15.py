"""C15: built-in databases are self-consistent and addressable in every documented way (exhaustive in both tiers)."""
import json, os
from xrlcheck import verdict


def run(ctx):
    variant = "plain" if ctx.quick else "asan"
    b = ctx.build(variant, "A")
    exe = ctx.harness(b, variant)
    facts = ctx.facts(b, ["macros", "names", "scalar", "compton", "kissel", "catalogs"])
    tr = os.path.join(ctx.scratch, "c15.ndjson")
    r = ctx.run_harness(exe, ["c15"], tr, env={"ASAN_OPTIONS": "detect_leaks=1:abort_on_error=0", "UBSAN_OPTIONS": "print_stacktrace=1"})
    extra = []
    if r.returncode != 0:
        extra.append({"prop": "C15", "why": "harness run ended abnormally (sanitizer report or crash)", "rc": r.returncode, "stderr": r.stderr[-1500:]})
    n = 0; nontrivial = 0
    for line in open(tr):
        ev = json.loads(line)
        if ev["k"] == "cat":
            n += len(ev.get("byidx", [])) + len(ev.get("byname", [])) + len(ev.get("byZ", [])) + len(ev.get("bad", []))
            nontrivial += sum(1 for e in ev.get("byidx", []) + ev.get("byname", []) if e["r"]["ok"]) + sum(1 for e in ev.get("byZ", []) if not e["isnull"])
        else:
            n += 1; nontrivial += 1
            if ev["cat"] == "nuclide" and ev["i"] == 0 and ev["order"] == 0: ctx.samples.append(ev)
    ctx.evaluations = n
    parts = ctx.split_lines(tr, 16, "c15")
    ctx.tlc_traces("Trace_C15", parts, env={"XRL_FACTS": facts})
    return verdict(ctx, "model_checking", {
        "exhaustive": True, "distinct_nontrivial": nontrivial,
        "rule": "all 4 catalogues: name list, every index in -2..n+1, every listed name and 4 near-miss spellings of each, every header index macro (canonical-name rule), entry well-formedness, agreement with the catalogue sources lexed from the tree; copy histories: two copies of every entry, first mutated, second + fresh lookup compared, frees in both orders (thorough tier under ASan/UBSan + LeakSanitizer). non-trivial = successful lookups and copy histories.",
    }, ["string order (sortedness of the crystal list) is observed only through successful bsearch lookups of every listed name"], extra_violations=extra)
