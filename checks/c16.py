"""C16: queries are pure: results do not depend on call history and leave no trace."""
import concurrent.futures as cf, json, os
from xrlcheck import verdict, NCPU


def run(ctx):
    ctx.tlc_must_pass("MC_C16", workers=4)
    nh, ln = (48, 500) if ctx.quick else (1200, 1000)
    n = 0; nq = 0; outs = []
    for cfgname in (("A", "B") if not ctx.quick else ("A", "B")):
        b = ctx.build("plain", cfgname); exe = ctx.harness(b)
        share = nh // 2
        def one(i):
            out = os.path.join(ctx.scratch, "pure%s.%02d.ndjson" % (cfgname, i))
            ctx.run_harness(exe, ["c16", max(1, share // (NCPU // 2)), ln], out, env={"VERIF_SEED": str(ctx.seed * 1000 + i + (500 if cfgname == "B" else 0)), "XRL_SCRATCH_DIR": ctx.scratch}, timeout=3000)
            return out
        with cf.ThreadPoolExecutor(max_workers=NCPU // 2) as ex: outs += list(ex.map(one, range(NCPU // 2)))
    hist = 0
    for o in outs:
        for l in open(o):
            n += 1
            if l.startswith('{"k":"q"'): nq += 1
            if l.startswith('{"k":"reset"'): hist += 1
            if nq == 5 and len(ctx.samples) < 1 and l.startswith('{"k":"q"'): ctx.samples.append(json.loads(l))
    ctx.tlc_traces("Trace_C16", outs)
    # order independence over the whole discrete grid: three passes in different orders plus immediate repetition, per entry point
    sw = []; cells = 0
    for cfgname in ("A", "B"):
        b = ctx.build("plain", cfgname); exe = ctx.harness(b)
        def sweep(i):
            out = os.path.join(ctx.scratch, "sweep%s.%02d.ndjson" % (cfgname, i)); ctx.run_harness(exe, ["c16s", i, NCPU], out, timeout=3000); return out
        with cf.ThreadPoolExecutor(max_workers=NCPU) as ex: sw += list(ex.map(sweep, range(NCPU)))
    allsw = os.path.join(ctx.scratch, "sweep.all.ndjson")
    with open(allsw, "w") as f:
        for o in sw:
            for l in open(o): f.write(l); cells += json.loads(l)["cells"]
    ctx.tlc_traces("Trace_C16s", [allsw])
    ctx.traces = hist; ctx.evaluations = n + 5 * cells
    return verdict(ctx, "model_checking", {
        "distinct_nontrivial": nq,
        "order_sweep_cells": cells,
        "rule": "Order sweep: every cell of the discrete grid of every numeric entry point (Z -1..100 x every macro x 3 energies x 4 strings: %d cells, both data configurations) evaluated in ascending order, descending order, a seeded shuffle and twice in a row; all five outcomes (value bits, error, code, message) must coincide. " % cells + "MC_C16: every implementation respecting the frame table satisfies the stated property (3 action properties, exhaustive over abstract values). Conformance: %d seeded histories of %d operations each over the whole API (62%% numeric entry points of the generated API table with valid and failing arguments, parser, NIST / radionuclide / symbol lookups, crystal lookups and diffraction, refractive index, error objects kept across calls, user crystal arrays, explicit insertions into the built-in collection, deprecated no-ops, XRayInit), both data configurations; every query is repeated in a pristine process (zygote forked before the first library call) and compared bit for bit (status, code, value and message digest); after every operation the digests of all data tables and of the built-in collection, LC_ALL, cwd, stderr byte count and the held error objects are compared by TLC against the frame conditions. non-trivial = queries compared with a fresh process." % (hist, ln),
    }, ["table digest = 64-bit word hash over every array declared in xrayglob.h (objects are linked statically)", "process starts in LC_ALL=C.utf8 (no other non-C locale exists in this image)"])
