"""C13: crystal diffraction results obey Bragg's law and structure-factor algebra."""
import concurrent.futures as cf, json, os
from xrlcheck import verdict, NCPU


def run(ctx):
    tier = "quick" if ctx.quick else "thorough"
    b = ctx.build("plain", "A"); exe = ctx.harness(b)
    facts = ctx.facts(b, ["macros", "names", "scalar", "compton", "kissel"])
    nparts = NCPU * (1 if ctx.quick else 3)
    def one(i):
        out = os.path.join(ctx.scratch, "xtal.%02d.ndjson" % i)
        ctx.run_harness(exe, ["c13", i, nparts, tier], out)
        return out
    with cf.ThreadPoolExecutor(max_workers=NCPU) as ex: outs = list(ex.map(one, range(nparts)))
    n = 0; nontriv = 0; crystals = set()
    for o in outs:
        for l in open(o):
            n += 1
            if '"bragg":[1,' in l: nontriv += 1
            if n % 997 == 1 and len(ctx.samples) < 2:
                ev = json.loads(l); ev["c"]["atoms"] = ev["c"]["atoms"][:2]; ev["F"] = ev["F"][:3]; ctx.samples.append(ev)
    ctx.tlc_traces("Trace_C13", outs, env={"XRL_FACTS": facts}, heap="4g")
    ctx.evaluations = n
    return verdict(ctx, "model_checking", {
        "distinct_nontrivial": nontriv,
        "rule": "38 built-in crystals + %d generated triclinic cells x Miller triples in [-%d,%d]^3 (%s) x one seeded (energy 0.1..200 keV incl. 0 and -1, Debye factor incl. negative, relative angle) tuple per triple: %d events; each carries the crystal, d(h), d(-h), d(3h), volume, Bragg angle, Q, atomic factors per distinct Z, structure factors for all 12 valid and 7 invalid flag triples at h and -h, the full and the (000) structure factor. TLC evaluates XrlDiffraction!Relations: metric-tensor volume and d-spacing, inversion and scaling, Bragg's law or error, Q, explicit sum over atoms, additivity, Friedel, (000), invalid-flag errors. non-trivial = events with a defined Bragg angle." % (8 if ctx.quick else 40, 3 if ctx.quick else 6, 3 if ctx.quick else 6, "all" if ctx.quick else "all with |h|,|k|,|l| <= 3, a seeded 20% of the rest", n),
    }, ["built-in crystals carry single-precision cells and volume (generator output): geometry compared at 1e-6 for them, 1e-9 for generated cells",
        "atomic factors f0, f', f'' are the library's own (Atomic_Factors)"])
