"""C10: grouped line energies and rates are the stated averages of their member lines (exhaustive in both tiers)."""
import json, os
from xrlcheck import verdict


def run(ctx):
    b = ctx.build("plain", "A")
    exe = ctx.harness(b)
    facts = ctx.facts(b, ["macros", "names", "scalar", "compton", "kissel"])
    tr = os.path.join(ctx.scratch, "c10.ndjson")
    ctx.run_harness(exe, ["c10", "-1", "122"], tr)
    groups = [0, 1, 2, 3]
    n = 0; nontrivial = 0
    for line in open(tr):
        ev = json.loads(line); n += 13 + 3
        lo = ev["E"]["lo"]
        nontrivial += sum(ev["E"]["ok"][m - lo] for m in groups) + sum(ev["RR"]["ok"][m - lo] for m in groups)
        if ev["Z"] == 82:
            ctx.samples.append({"Z": 82, "LineEnergy(KA,KB,LA,LB)": [ev["E"]["v"][m - lo] for m in groups], "RadRate(KA,KB,LA)": [ev["RR"]["v"][m - lo] for m in groups[:3]]})
    ctx.evaluations = n
    parts = ctx.split_lines(tr, 16, "c10")
    ctx.tlc_traces("Trace_C10", parts, env={"XRL_FACTS": facts})
    return verdict(ctx, "model_checking", {
        "exhaustive": True, "distinct_nontrivial": nontrivial,
        "rule": "Z in -1..122 x {KA,KB,LA,LB, 7 IUPAC doublets, KO, KP} energies and {KA,KB,LA} rates, judged by TLC against XrlLines (membership derived from the macro names and the Siegbahn aliases; member energies/rates/cross sections as the library returns them); Siegbahn aliases checked statically (GroupStructureOK). evaluations = group cells judged; non-trivial = Siegbahn group cells (KA,KB,LA,LB energy; KA,KB,LA rate) where the library returned a value.",
    }, ["member values are the library's own answers for the member macros (C01 decides those)",
        "K-beta: both readings of the KO/KP group entries accepted; L-beta: 11 Siegbahn beta lines or those plus L3N6/L3N7"])
