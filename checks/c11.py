"""C11: Auger yields and rates are the documented derivation of the raw tables (exhaustive in both tiers)."""
import json, os
from xrlcheck import verdict


def run(ctx):
    b = ctx.build("plain", "A")
    exe = ctx.harness(b)
    facts = ctx.facts(b, ["macros", "names", "scalar", "auger", "compton", "kissel"])
    tr = os.path.join(ctx.scratch, "c11.ndjson")
    ctx.run_harness(exe, ["c11", "-1", "122"], tr)
    cells = 0; nontrivial = 0
    for line in open(tr):
        ev = json.loads(line)
        for k in ("yield", "rate"):
            cells += len(ev[k]["ok"]); nontrivial += sum(ev[k]["ok"])
        if ev["Z"] == 82:
            s = dict(ev); s["rate"] = {"lo": ev["rate"]["lo"], "hi": ev["rate"]["hi"], "ok": "(%d flags)" % len(ev["rate"]["ok"]), "v": ev["rate"]["v"][3:6]}
            ctx.samples.append(s)
    ctx.evaluations = cells
    parts = ctx.split_lines(tr, 16, "c11")
    ctx.tlc_traces("Trace_C11", parts, env={"XRL_FACTS": facts})
    return verdict(ctx, "model_checking", {
        "exhaustive": True, "distinct_nontrivial": nontrivial,
        "rule": "Z in -1..122 x AugerYield(shell -3..12) and AugerRate(macro -3..998): every cell judged by TLC against XrlAuger (yield = 1 - omega - sum CK with omega, CK as the library returns them; rate = raw/(total - CK-type raws) from data/auger_rates.dat; CK-type from the macro NAME); plus the partition-of-unity invariant. non-trivial = cells where the library returned a value.",
    }, ["omega and CK probabilities are taken as the library returns them (C01 decides those)", "macro names of xraylib-auger.h follow INIT_H1H2_AUGER with two-character shell names (checked: AugerStructureOK)"])
