"""C19: the Java implementation returns what C returns (to round-off) and throws exactly when C reports an error."""
import concurrent.futures as cf, json, os, subprocess
from xrlcheck import verdict, Broken, NCPU, VERIF


def run(ctx):
    tier = "quick" if ctx.quick else "thorough"
    extra = []; calls = 0; ident = 0; fns = set(); missing = set(); jmethods = set(); traces = []
    for cfgname in ("A", "B"):
        b = ctx.build("plain", cfgname); exe = ctx.harness(b)
        r = subprocess.run([os.path.join(VERIF, "bin", "build_java"), b], capture_output=True, text=True, timeout=1200)
        if r.returncode != 0:
            logs = [os.path.join(b, d, "build.log") for d in os.listdir(b) if d.startswith("java-")]
            tail = "".join(open(l).read()[-1500:] for l in logs[-1:])
            raise Broken("the Java sources do not compile against the stub of commons-math Complex / the data file generator failed\n" + r.stderr[-500:] + tail)
        jdir = r.stdout.strip().splitlines()[-1]
        def one(p):
            q = os.path.join(ctx.scratch, "q%s.%02d.txt" % (cfgname, p)); out = os.path.join(ctx.scratch, "j%s.%02d.ndjson" % (cfgname, p))
            with open(q, "w") as f:
                r1 = subprocess.run([exe, "c19", str(p), str(NCPU), tier], stdout=f, stderr=subprocess.PIPE, text=True, timeout=3000)
            if r1.returncode != 0: return out, r1, None
            r2 = subprocess.run(["java", "-Xmx1g", "-XX:ParallelGCThreads=2", "-cp", os.path.join(jdir, "classes"), "JDrive", q, out], cwd=os.path.join(jdir, "classes"), capture_output=True, text=True, timeout=3000)
            os.unlink(q)
            return out, r1, r2
        with cf.ThreadPoolExecutor(max_workers=NCPU) as ex: outs = list(ex.map(one, range(NCPU)))
        for out, r1, r2 in outs:
            if r1.returncode != 0: raise Broken("C harness ended abnormally (%s): rc=%s %s" % (cfgname, r1.returncode, (r1.stderr or "")[-600:]))
            if r2.returncode != 0:
                extra.append({"prop": "C19", "why": "the Java driver ended abnormally (configuration %s): an error escaped that is not an exception of the called method" % cfgname, "rc": r2.returncode, "stderr": (r2.stderr or "")[-1200:]}); continue
            for l in open(out):
                ev = json.loads(l)
                if ev["k"] == "jrow":
                    calls += ev["n"]; ident += ev["identical"]; fns.add(ev["fn"])
                    if ev["diff"] and len(ctx.samples) < 2 and ev["fn"] in ("CS_FluorLine_Kissel_Cascade", "Crystal_F_H_StructureFactor"): ctx.samples.append({"fn": ev["fn"], "Z": ev["Z"], "n": ev["n"], "identical": ev["identical"], "first_difference_within_round_off": ev["diff"][0]})
                elif ev["k"] == "jmissing": missing.add(ev["fn"])
                elif ev["k"] == "jmethods": jmethods.update(ev["names"])
            traces.append(out)
    ctx.tlc_traces("Trace_C19", traces)
    # second binding: the jump-ratio XRF specification (XrlXRFJump, the module that judges the C library under C09) judges the Java
    # implementation directly, on the elements and energies of the C trace plus Java's own edge energies, bit-exact and one ulp to either
    # side.  Where C conforms to the module and Java does not, the two differ - also exactly at an edge, where the pairwise rule above
    # must allow for round-off.
    # ... and likewise the cascade module (XrlXRFKissel, C08) in data configuration B (b, exe and jdir still belong to B here)
    factsB = ctx.facts(b, ["macros", "names", "scalar", "compton", "kissel"], sub="factsB")
    kzs = [26, 47, 82, 92] if ctx.quick else list(range(11, 99, 3))
    def kxrf(i):
        zz = kzs[i::NCPU]
        if not zz: return None
        ctrace = os.path.join(ctx.scratch, "kxc.%02d.ndjson" % i); jtrace = os.path.join(ctx.scratch, "kxj.%02d.ndjson" % i)
        with open(ctrace, "w") as f: pass
        for Z in zz:
            tmp = ctrace + ".z"; ctx.run_harness(exe, ["c08", Z, Z, "quick"], tmp)
            with open(ctrace, "a") as f: f.write(open(tmp).read())
        r2 = subprocess.run(["java", "-Xmx1g", "-XX:ParallelGCThreads=2", "-cp", os.path.join(jdir, "classes"), "JKxrf", ctrace, jtrace], cwd=os.path.join(jdir, "classes"), capture_output=True, text=True, timeout=3000)
        if r2.returncode != 0: raise Broken("JKxrf ended abnormally: " + (r2.stderr or "")[-600:])
        return jtrace
    with cf.ThreadPoolExecutor(max_workers=NCPU) as ex: kt = [t for t in ex.map(kxrf, range(NCPU)) if t]
    ctx.tlc_traces("Trace_C08", kt, env={"XRL_FACTS": factsB, "XRL_PROP": "C19", "XRL_IMPL": "java"}, heap="4g")
    ctx.samples.append({"second_binding": "XrlXRFKissel judged the Java implementation on %d elements (configuration B)" % len(kzs)})
    b = ctx.build("plain", "A"); exe = ctx.harness(b)
    facts = ctx.facts(b, ["macros", "names", "scalar", "compton", "kissel"])
    zs = [6, 20, 26, 29, 40, 47, 64, 79, 82, 92] if ctx.quick else list(range(1, 99))
    def xrf(i):
        zz = zs[i::NCPU]
        if not zz: return None
        ctrace = os.path.join(ctx.scratch, "xrfc.%02d.ndjson" % i); jtrace = os.path.join(ctx.scratch, "xrfj.%02d.ndjson" % i)
        with open(ctrace, "w") as f: pass
        for Z in zz:
            tmp = ctrace + ".z"; ctx.run_harness(exe, ["c09", Z, Z, "quick"], tmp)
            with open(ctrace, "a") as f: f.write(open(tmp).read())
        r2 = subprocess.run(["java", "-Xmx1g", "-XX:ParallelGCThreads=2", "-cp", os.path.join(jdir, "classes"), "JXrf", ctrace, jtrace], cwd=os.path.join(jdir, "classes"), capture_output=True, text=True, timeout=3000)
        if r2.returncode != 0: raise Broken("JXrf ended abnormally: " + (r2.stderr or "")[-600:])
        return jtrace
    r = subprocess.run([os.path.join(VERIF, "bin", "build_java"), b], capture_output=True, text=True, timeout=1200); jdir = r.stdout.strip().splitlines()[-1]
    with cf.ThreadPoolExecutor(max_workers=NCPU) as ex: jt = [t for t in ex.map(xrf, range(NCPU)) if t]
    ctx.tlc_traces("Trace_C09", jt, env={"XRL_FACTS": facts, "XRL_PROP": "C19", "XRL_IMPL": "java"}, heap="3g")
    ctx.samples.append({"second_binding": "XrlXRFJump judged the Java implementation on %d elements" % len(zs)})
    ctx.evaluations = calls
    undriven = sorted(jmethods - fns)
    return verdict(ctx, "model_checking", {
        "distinct_nontrivial": calls - ident,
        "rule": "one argument stream (written by the C harness together with the C outcome of every call) is replayed on the Java classes compiled from java/*.java, "
                "loaded with the data file written by java/pr_data_java.c from the same tables: %d paired calls over %d functions, data configurations A (shipped) and B (Kissel table regenerated). "
                "Grid: every API function of the C prototype table x Z -2..122 x every line / shell / transition macro x structured energies and angles x 20 strings; generated and damaged formulas; "
                "every NIST / radionuclide name and index; every built-in crystal x Miller indices x energies x Debye factors x flag triples (on crystals with identical field values on both sides; "
                "the built-in tables themselves are compared at single precision); Atomic_Factors; the 32 vacancy-production helpers of the cascade with chain, unit and zero inputs; ElectronConfig_Biggs. "
                "%d pairs are bit-identical; the other %d (distinct_nontrivial) are judged by TLC against XrlEquiv (relative 2e-9, absolute floors where values cancel)." % (calls, len(fns), ident, calls - ident),
        "java_methods_driven": len(fns), "java_public_static_methods": len(jmethods),
        "java_methods_without_reachable_C_counterpart": undriven,
        "c_functions_without_java_method": sorted(missing),
    }, ["the only external class used by the Java sources (commons-math Complex) is replaced by a 20-line stub", "C and Java run on the same machine: libm vs StrictMath differences are part of the round-off allowance",
        "Jump_from_K is static in C: compared only through CS_FluorLine / CS_FluorShell"], extra_violations=extra)
