"""C06: compound quantities follow the mass-fraction mixture rule."""
import concurrent.futures as cf, json, os
from xrlcheck import verdict, NCPU


def run(ctx):
    tier = "quick" if ctx.quick else "thorough"
    n = 0; ok = 0; nfn = 0
    for cfgname in ("A", "B"):
        b = ctx.build("plain", cfgname); exe = ctx.harness(b)
        facts = ctx.facts(b, ["macros", "names", "scalar", "compton", "kissel"], sub="facts" + cfgname)
        def one(i):
            out = os.path.join(ctx.scratch, "cp%s.%02d.ndjson" % (cfgname, i))
            ctx.run_harness(exe, ["c06", i, NCPU, tier], out)
            return out
        with cf.ThreadPoolExecutor(max_workers=NCPU) as ex: outs = list(ex.map(one, range(NCPU)))
        for o in outs:
            for l in open(o):
                ev = json.loads(l); n += 1; nfn = len(ev["fn"])
                ok += sum(f["r"][0] for f in ev["fn"].values()) + ev["re"][0] + ev["im"][0] + ev["cx"][0]
                if cfgname == "A" and ev["s"] == "Water, Liquid" and ev["re"][0] and not ctx.samples:
                    ctx.samples.append({"s": ev["s"], "E": ev["E"], "rho": ev["rho"], "el": ev["el"], "mf": ev["mf"], "CS_Total_CP": ev["fn"]["CS_Total_CP"], "re": ev["re"], "im": ev["im"]})
        ctx.tlc_traces("Trace_C06", outs, env={"XRL_FACTS": facts})
    ctx.evaluations = n * (nfn + 3)
    return verdict(ctx, "model_checking", {
        "distinct_nontrivial": ok,
        "rule": "all 180 NIST names, 9 non-compounds and %d seeded formulas (1-4 elements of all 107 symbols, integer and fractional subscripts, groups) x seeded (E in {-1,0,0.5..1500}, theta, phi, density in {-1,0,1e-3,1,20}) tuples, data configurations A and B: %d events; each carries the composition the library derives, every *_CP function of the API table (%d) with its elemental counterpart per element, and the three refractive-index entry points with f', A and mu per element. TLC recomputes the mixture sums (rel 1e-12), the failure rules and the refractive index with K and hc/4pi derived from the header constants (XrlCompound). non-trivial = results that are values." % (300 if ctx.quick else 4000, n, nfn),
    }, ["composition = the library's own parser / NIST lookup (C07, C15 decide those); elemental values = the library's own",
        "the code's literal constants 4.15179082788e-4 and 9.8663479e-9 agree with the derived ones to 1e-6 (checked); comparison of the refractive index at 3e-6"])
