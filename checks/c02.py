"""C02: interpolated quantities follow the shipped spline and never extrapolate."""
import concurrent.futures as cf, json, os
from xrlcheck import verdict, Broken, NCPU


def run(ctx):
    tier = "quick" if ctx.quick else "thorough"
    ctx.tlc_must_pass("MC_C02", cfg="MC_C02" if ctx.quick else "MC_C02_thorough", workers=16, heap="6g")
    npts = 0; nok = 0; ntab = 0
    # N: configuration A built the way meson's release build type builds it (NDEBUG defined, for the table generator too), at the quick sampling density
    for cfgname in ("A", "B", "N"):
        b = ctx.build("ndebug" if cfgname == "N" else "plain", "A" if cfgname == "N" else cfgname); exe = ctx.harness(b)
        facts = ctx.facts(b, ["macros", "names", "scalar", "spline", "compton", "kissel"], sub="facts" + cfgname)
        # elements are dealt round-robin to NCPU harness processes and as many single-worker TLC JVMs
        def one(i):
            out = os.path.join(ctx.scratch, "spl%s.%02d.ndjson" % (cfgname, i))
            with open(out, "w") as f: pass
            for Z in range(-1 + i, 123, NCPU):
                tmp = out + ".z"
                ctx.run_harness(exe, ["c02", Z, Z, "quick" if cfgname == "N" else tier], tmp)
                with open(out, "a") as f:
                    for l in open(tmp):
                        # configuration B only adds the Kissel sub-shell tables: the other quantities were judged in configuration A
                        if cfgname == "B" and '"q":"CSb_Photo_Partial"' not in l: continue
                        if cfgname in ("A", "N") and '"q":"CSb_Photo_Partial"' in l and '"shell":0,' not in l and '"shell":-1,' not in l: continue
                        f.write(l)
            return out
        with cf.ThreadPoolExecutor(max_workers=NCPU) as ex: outs = list(ex.map(one, range(NCPU)))
        for o in outs:
            for l in open(o):
                ev = json.loads(l); ntab += 1; npts += len(ev["pts"]); nok += sum(p[2] for p in ev["pts"])
                if ev["q"] == "CS_Photo" and ev["Z"] == 26 and not ctx.samples:
                    ctx.samples.append({"q": ev["q"], "Z": 26, "points": len(ev["pts"]), "first_points[arg,x,ok,value]": ev["pts"][:6]})
        ctx.tlc_traces("Trace_C02", outs, env={"XRL_FACTS": facts}, heap="4g")
    ctx.evaluations = npts
    return verdict(ctx, "model_checking", {
        "distinct_nontrivial": nok,
        "rule": "MC_C02: interpolation operator checked on all dyadic tables with <= %d knots (knot reproduction, bisection = named interval, continuity, no acceptance outside the table). Conformance: %d tables (11 quantities x Z -1..122 x shells, data configurations A and B for the Kissel sub-shell tables), %s; per interval the knot, midpoint and two seeded interior points; both table ends at +/-1e-12..1e-3 and the 1e-7 slack; 0, negative, denormal and 1e300 arguments; Kissel: both sides of the shell edge and the extension region. Every point judged by TLC against XrlSpline!SplineAccept on the shipped knots. evaluations = points; non-trivial = points where the library returned a value." % (3 if ctx.quick else 4, ntab, "all knot intervals" if not ctx.quick else "all intervals of Fe, Pb and the seeded elements, a 5% seeded sample of the others"),
        "tables": ntab,
    }, ["the transformed abscissa is computed by the harness with the library's libm expression and checked against java.lang.StrictMath within 4 ulp",
        "arguments are chosen from the library's knot arrays; values are obtained only through the public functions"])
