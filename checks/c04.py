"""C04: no call sequence corrupts, over-reads or leaks memory."""
import concurrent.futures as cf, glob, json, os, re
from xrlcheck import verdict, Broken, NCPU


def run(ctx):
    tier = "quick" if ctx.quick else "thorough"
    extra = []
    san_env = lambda tag: {"ASAN_OPTIONS": "detect_leaks=1:allocator_may_return_null=1:log_path=%s/asan-%s" % (ctx.scratch, tag), "UBSAN_OPTIONS": "print_stacktrace=1:log_path=%s/ubsan-%s" % (ctx.scratch, tag),
                           "XRL_SCRATCH_DIR": ctx.scratch}
    # 1. the ledger model
    r = ctx.tlc_must_pass("MC_C04", workers=8)
    mc = (r["distinct"], r["generated"])
    # 2. seeded allocation histories on the ASan/UBSan objects, validated against the ledger
    bA = ctx.build("asan", "A"); exeA = ctx.harness(bA)
    nh, maxlen = (320, 200) if ctx.quick else (20000, 200)
    def hist(i):
        out = os.path.join(ctx.scratch, "heap.%02d.ndjson" % i)
        e = san_env("h%d" % i); e["VERIF_SEED"] = str(ctx.seed * 100 + i)
        rr = ctx.run_harness(exeA, ["c04", nh // NCPU, maxlen], out, env=e, timeout=3000)
        open(os.path.join(ctx.scratch, "asan-stderr-h%d" % i), "w").write(rr.stderr or "")
        return out, rr
    with cf.ThreadPoolExecutor(max_workers=NCPU) as ex: outs = list(ex.map(hist, range(NCPU)))
    traces = []; nev = 0
    for out, rr in outs:
        if rr.returncode != 0: extra.append({"prop": "C04", "why": "history driver ended abnormally", "rc": rr.returncode, "stderr": rr.stderr[-800:]})
        traces.append(out); nev += sum(1 for _ in open(out))
    for l in open(outs[0][0]):
        if '"CompoundParser"' in l and '"ok":0' in l and len(ctx.samples) < 2: ctx.samples.append(json.loads(l))
    ctx.tlc_traces("Trace_C04", traces)
    ctx.traces = nh
    # 2b. a fault at a particular point: every allocation request of 23 scenarios refused in turn (plain and sanitized objects), judged by XrlHeap!FaultWhy;
    #     the design the stage holds the crystal code to is model-checked first (reserve-then-hand-over is atomic, copy-one-by-one is not)
    ctx.tlc_must_pass("MC_C04f", workers=2)
    rbad = ctx.tlc("MC_C04f", cfg="MC_C04f_copyeach", workers=2)
    if "Invariant Atomic is violated" not in rbad["out"]: raise Broken("MC_C04f_copyeach: the non-atomic discipline was expected to violate Atomic (vacuity guard)")
    ftraces = []; nfault = 0
    for tag, exe in (("plain", ctx.harness(ctx.build("plain", "A"))), ("asan", exeA)):
        out = os.path.join(ctx.scratch, "fault.%s.ndjson" % tag)
        e = san_env("f" + tag); e["ASAN_OPTIONS"] += ":detect_leaks=0"
        rr = ctx.run_harness(exe, ["c04f"], out, env=e, timeout=1200)
        if rr.returncode != 0: extra.append({"prop": "C04", "why": "fault driver ended abnormally", "rc": rr.returncode, "stderr": (rr.stderr or "")[-800:]})
        ftraces.append(out); nfault += sum(1 for _ in open(out))
    ctx.tlc_traces("Trace_C04f", ftraces)
    for f in glob.glob(os.path.join(ctx.scratch, "asan-fasan*")) + glob.glob(os.path.join(ctx.scratch, "asan-fplain*")) + glob.glob(os.path.join(ctx.scratch, "ubsan-fasan*")) + glob.glob(os.path.join(ctx.scratch, "ubsan-fplain*")): os.remove(f)      # reports of children that died are judged as "died" events, not twice
    # 3. the exhaustive discrete enumeration of C03 on the sanitized objects, both data configurations
    bB = ctx.build("asan", "B"); exeB = ctx.harness(bB)
    def enum(job):
        tag, exe, p, extra_arg = job
        out = os.path.join(ctx.scratch, "enum%s.%02d.ndjson" % (tag, p))
        rr = ctx.run_harness(exe, ["c03", p, NCPU, tier] + ([extra_arg] if extra_arg else []), out, env=san_env("e%s%d" % (tag, p)), timeout=3000)
        open(os.path.join(ctx.scratch, "asan-stderr-%s%d" % (tag, p)), "w").write(rr.stderr or "")
        calls = 0
        for l in open(out):
            if l.startswith('{"k":"sum"'): calls = json.loads(l)["calls"]
        return tag, p, rr.returncode, calls
    jobs = [("A", exeA, p, None) for p in range(NCPU)] + [("B", exeB, p, "kissel") for p in range(NCPU)]
    with cf.ThreadPoolExecutor(max_workers=NCPU) as ex: res = list(ex.map(enum, jobs))
    calls = sum(r[3] for r in res)
    # sanitizer reports (histories and enumeration): one violation per (kind, top frame in /repo/src)
    seen = set()
    for path in glob.glob(os.path.join(ctx.scratch, "asan-*")) + glob.glob(os.path.join(ctx.scratch, "ubsan-*")):
        txt = open(path, errors="replace").read()
        for m in re.finditer(r"(ERROR: (?:Address|Leak)Sanitizer:? ?[^\n]*|[^\n]*runtime error: [^\n]*)((?:\n\s+#\d+ [^\n]*)*)", txt):
            frames = re.findall(r"in (\w+) (/\S+?/src/[\w\-.]+:\d+)", m.group(2))
            lib = next((f for f in frames if "/harness/" not in f[1]), ("?", "?"))
            key = (re.sub(r"0x[0-9a-f]+|\d+ byte\(s\)|pid \d+|==\d+==", "", m.group(1))[:120], lib)
            if key in seen: continue
            seen.add(key)
            extra.append({"prop": "C04", "why": "sanitizer report", "report": m.group(1)[:200], "fn": lib[0], "where": lib[1], "frames": [f[0] + " " + f[1] for f in frames[:6]]})
    for tag, p, rc, c in res:
        if rc != 0 and not any(x.get("why") == "sanitizer report" for x in extra): extra.append({"prop": "C04", "why": "enumeration part ended abnormally without a parsable report", "config": tag, "part": p, "rc": rc})
    ctx.evaluations = calls + nev
    return verdict(ctx, "exploration", {
        "distinct_nontrivial": nh,
        "rule": "ledger: %d seeded histories (length <= %d) over parser, add_compound_data, NIST/radionuclide lookups, name lists, symbols, crystal copies, user crystal arrays incl. well-formed and corrupted files, compound functions and refractive indices (with and without error slot), all released at the end; every step validated by TLC against XrlHeap (delta of live blocks = footprint, running total = ledger, no open FILE, 0 at the end). memory errors: the same histories and the complete C03 argument enumeration (%d calls, data configurations A and B) executed on gcc ASan+UBSan+LSan objects; every report is a violation keyed by its top library frame. The crystal-collection histories of C14 also run on the sanitized objects. fault stage: 23 scenarios (constructors, lists, parser, crystal copies, additions to user arrays with room / at capacity / without storage and to the built-in collection, file loads, compound functions, the error path itself), each repeated with the k-th allocation request refused for every k (%d events on plain and sanitized objects), judged by XrlHeap!FaultWhy: the call returns, reports XRL_ERROR_MEMORY with a message, holds nothing, leaves the collection as it was and usable. distinct_nontrivial = histories." % (nh, maxlen, calls, nfault),
        "fault_events": nfault, "ledger_model_states": mc[0], "ledger_model_transitions": mc[1], "enumeration_calls": calls, "history_events": nev,
    }, ["heap blocks are counted by link-time interposition of malloc/calloc/realloc/free/strdup/strndup/vasprintf/fopen/fclose in library objects",
        "out-of-bounds / use-after-free / UB inside a call is decided by ASan+UBSan as an observation instrument, not by the specification",
        "allocation failure is driven one request at a time in 23 fixed scenarios, not inside random histories; functions whose unchecked allocations make the process die are listed as known findings per function"], extra_violations=extra)
