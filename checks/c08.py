"""C08: Kissel XRF cross sections equal the cascade model built from the primitives."""
import concurrent.futures as cf, json, os, random
from xrlcheck import verdict, NCPU


def run(ctx):
    tier = "quick" if ctx.quick else "thorough"
    if ctx.quick:
        rnd = random.Random(ctx.seed); zs = sorted(set([26, 82, 35, 92, 47, 64, 96] + rnd.sample(range(11, 99), 10)))
    else:
        zs = list(range(0, 122))
    res = {}
    for cfgname in ("B", "A"):
        b = ctx.build("plain", cfgname); exe = ctx.harness(b)
        if cfgname == "B" and ctx.quick:
            # the quick tier always holds the elements at which the set of available primitives changes (first / last element with each CK probability, yield,
            # Auger yield, jump factor, edge and partial cross section, and their outer neighbours), then seeded elements up to a multiple of the core count
            bo = os.path.join(ctx.scratch, "bounds.ndjson"); ctx.run_harness(exe, ["c08", "bounds"], bo)
            edge_z = set()
            for l in open(bo):
                ev = json.loads(l); edge_z |= {z for z in (ev["lo"] - 1, ev["lo"], ev["hi"], ev["hi"] + 1) if 1 <= z <= 120}
            zs = sorted(set(zs) | edge_z)
            rest = [z for z in range(1, 110) if z not in zs]; rnd.shuffle(rest)
            zs = sorted(zs + rest[:(-len(zs)) % NCPU])
        facts = ctx.facts(b, ["macros", "names", "scalar", "compton", "kissel"], sub="facts" + cfgname)
        zz = zs if cfgname == "B" else [0, 1, 26, 82, 100, 121]
        def one(i):
            out = os.path.join(ctx.scratch, "kx%s.%02d.ndjson" % (cfgname, i)); open(out, "w").close()
            for Z in zz[i::NCPU]:
                tmp = out + ".z"; ctx.run_harness(exe, ["c08", Z, Z, tier], tmp)
                with open(out, "a") as f: f.write(open(tmp).read())
            return out
        with cf.ThreadPoolExecutor(max_workers=NCPU) as ex: outs = [o for o in ex.map(one, range(NCPU)) if os.path.getsize(o) > 0]
        n = 0; ok = 0; pts = 0
        for o in outs:
            for l in open(o):
                ev = json.loads(l)
                for at in ev["at"]:
                    pts += 1
                    for fn, vals in at["sh"].items(): n += len(vals); ok += sum(v[0] for v in vals)
                    for v in at["P"].values(): n += 9
                    if at["haslines"]:
                        for k in at:
                            if k.startswith("ln_"): n += len(at[k]["ok"]); ok += sum(at[k]["ok"])
                if cfgname == "B" and ev["Z"] == 82 and not ctx.samples:
                    at = ev["at"][-3]; ctx.samples.append({"Z": 82, "E": at["E"], "sigma_partial": at["sig"], "P_full": at["P"]["full"], "CS_FluorShell_Kissel(-1..10)": at["sh"]["plain"]})
        res[cfgname] = (n, ok, pts)
        ctx.tlc_traces("Trace_C08", outs, env={"XRL_FACTS": facts}, heap="4g")
    ctx.evaluations = res["A"][0] + res["B"][0]
    extra = []
    if res["A"][1] != 0: extra.append({"prop": "C08", "why": "with the Kissel table emptied (configuration A) %d Kissel XRF calls returned a value" % res["A"][1]})
    return verdict(ctx, "model_checking", {
        "distinct_nontrivial": res["B"][1],
        "rule": "configuration B (Kissel table regenerated from data/kissel): Z in %s x energies on both sides (1e-6%s) of every K..M5 edge, log-spaced 0.1..200 keV, 1500, 0, -1 (%d (Z,E) points): per point the 9 partial photo cross sections, 4 variants x 9 vacancy productions computed step by step through the 32 exported P*_kissel helpers, 10 public shell functions x shells -1..10, and at every %s energy the 10 line functions x 393 line macros. TLC recomputes every step from the primitives (yields, Auger yields/rates with hole multiplicities derived from the macro names, CK probabilities, rates) - XrlXRFKissel - plus orderings, K-shell equality, un-suffixed = full, barn twins, L-beta = sum of members. Configuration A: every call must fail (%d results, %d values). non-trivial = values returned in configuration B." % ("a seeded set of %d elements incl. Fe, Br, Ag, Gd, Pb, U" % len(zs) if ctx.quick else "0..121", "" if ctx.quick else " and 1e-2", res["B"][2], "9th" if ctx.quick else "5th", res["A"][0], res["A"][1]),
    }, ["data configuration B is produced by facts/kissel_regen.py, a port of data/kissel/kissel.pro (the upstream tests kissel_pe and cs_cp pass on it)",
        "transfer constants are compiled in rounded to 11 digits: comparison at rel 2e-10 + abs 1e-10 x value"], extra_violations=extra)
