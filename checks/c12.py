"""C12: closed-form scattering formulas are mutually consistent and physically bounded."""
import json, os
from xrlcheck import verdict, VERIF


def run(ctx):
    b = ctx.build("plain", "A"); exe = ctx.harness(b)
    facts = ctx.facts(b, ["macros", "names", "scalar", "compton", "kissel"])
    gl = os.path.join(VERIF, "facts", "gl48.json")
    nodes = os.path.join(ctx.scratch, "gl48.txt"); open(nodes, "w").write("\n".join(json.load(open(gl))["x"]) + "\n")
    ne = 61 if ctx.quick else 3001
    tr = os.path.join(ctx.scratch, "c12.ndjson")
    ctx.run_harness(exe, ["c12", nodes, ne], tr)
    n = sum(1 for _ in open(tr))
    for l in open(tr):
        ev = json.loads(l)
        if ev["k"] == "cf" and not ctx.samples: ctx.samples.append({"E": ev["E"], "CS_KN": ev["CS_KN"], "theta_grid": len(ev["th"]), "DCS_KN_first3": ev["KN"][:3], "quadrature_angles": len(ev["gth"])})
    parts = ctx.split_lines(tr, 16, "c12")
    ctx.tlc_traces("Trace_C12", parts, env={"XRL_FACTS": facts, "XRL_GL48": gl})
    ctx.evaluations = (n - 3) * (25 * 10 + 600 + 48 + 1) + 18
    return verdict(ctx, "model_checking", {
        "distinct_nontrivial": n - 3,
        "rule": "%d energies log-spaced over 1e-6..1e6 keV (+ 0, -1, -1e-300 which must fail); per energy: theta grid of 25 points on [0, pi] with their mirrored and 2pi-shifted twins, 8 azimuths, 48 quadrature angles. TLC evaluates XrlClosedForm!Relations on the returned values: finiteness/positivity, CS_KN = 2 pi int DCS_KN sin(theta) d theta by a 48-point Gauss-Legendre rule in w = ln(1 + a(1 - cos theta)) (rule verified exact on monomials up to degree 95), azimuthal mean, KN <= Thomson and KN/Thomson >= 1 - 4E/mc2, Thomson-like form in ComptonEnergy/E, monotone scattered energy with its end values, evenness/periodicity, and the pointwise closed forms. non-trivial = positive energies." % ne,
    }, ["quadrature error of the rule <= 1e-8 (measured 2e-15 against an adaptive reference in round 0)", "StrictMath vs glibc libm differences absorbed by rel 1e-9"])
