"""C01: scalar lookups return the shipped value or an error."""
import json, os
from xrlcheck import verdict


def run(ctx):
    # B: the Kissel table regenerated (every accessor again: the generator may let one table leak into another);
    # N: configuration A built as meson's release build type does (NDEBUG defined, for the table generator too);
    # D: configuration A without optimisation, meson's default build type
    configs = ["A", "B", "N", "D"]
    cells = 0; nontrivial = 0
    for cfgname in configs:
        b = ctx.build({"N": "ndebug", "D": "debug"}.get(cfgname, "plain"), "B" if cfgname == "B" else "A")
        exe = ctx.harness(b)
        facts = ctx.facts(b, ["macros", "names", "scalar", "compton", "kissel"], sub="facts" + cfgname)
        if cfgname == "A":
            # specification side: mechanism (name tables, generator, accessors) => property, on the real facts
            ctx.tlc_must_pass("MC_C01", env={"XRL_FACTS": facts}, workers=1)
        tr = os.path.join(ctx.scratch, "c01%s.ndjson" % cfgname)
        args = ["c01"]
        ctx.run_harness(exe, args, tr)
        for line in open(tr):
            ev = json.loads(line); cells += len(ev["ok"]); nontrivial += sum(ev["ok"])
        ctx.samples.append(json.loads(open(tr).readline()))
        parts = ctx.split_lines(tr, 16, "c01" + cfgname)
        ctx.tlc_traces("Trace_C01", parts, env={"XRL_FACTS": facts})
    ctx.evaluations = cells
    return verdict(ctx, "model_checking", {
        "exhaustive": True, "distinct_nontrivial": nontrivial,
        "rule": "every (accessor, Z in -3..125, macro value in and around the legal range) cell of the 11 scalar accessors is called on the library built from the current tree and judged by TLC against XrlScalar!PropAccept; non-trivial = cells where the library returned a value (not an error). MC_C01 additionally checks mechanism => property over the same domain on the lexed facts. Data configurations: " + ",".join(configs),
        "configs": configs,
    }, ["java.lang.Double.parseDouble == strtod (correct rounding)", "facts/lex.py tokenises the data files as fscanf does",
        "the library objects compiled by bin/build_repo behave like the meson-built library"])
