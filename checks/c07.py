"""C07: the formula parser computes the true composition of every well-formed formula."""
import concurrent.futures as cf, json, os
from xrlcheck import verdict, NCPU


def run(ctx):
    b = ctx.build("plain", "A"); exe = ctx.harness(b)
    facts = ctx.facts(b, ["macros", "names", "scalar", "compton", "kissel"])
    ctx.tlc_must_pass("MC_C07", cfg="MC_C07" if ctx.quick else "MC_C07_thorough", workers=16, heap="6g")
    q = ctx.quick
    jobs = [["c07", "gen", 900 if q else 12000] for _ in range(4)] + [["c07", "mut", 4 if q else 40] for _ in range(6)] \
        + [["c07", "pairs", i, 2] for i in range(2)] + [["c07", "small", 5 if q else 6, i, 3] for i in range(3)] + [["c07", "addc", 400 if q else 5000]] + [["c07", "extreme"]]
    wfile = os.path.join(ctx.scratch, "weights.json")
    def one(i):
        raw = os.path.join(ctx.scratch, "p%02d.raw" % i); out = os.path.join(ctx.scratch, "p%02d.ndjson" % i)
        ctx.run_harness(exe, jobs[i], raw, env={"VERIF_SEED": str(ctx.seed * 100 + i)})
        with open(out, "w") as f:
            for l in open(raw):
                if l.startswith('{"k":"weights"'):
                    if i == 0: open(wfile, "w").write(l)
                    continue
                f.write(l)
        return out
    with cf.ThreadPoolExecutor(max_workers=NCPU) as ex: outs = list(ex.map(one, range(len(jobs))))
    n = 0; acc = 0; groups = {}
    for o in outs:
        for l in open(o):
            ev = json.loads(l)
            recs = ev["p"] if ev["k"] == "group" else [ev] if ev["k"] == "parse" else []
            for r in recs:
                n += 1; acc += r["ok"]; groups[r["g"]] = groups.get(r["g"], 0) + 1
            if ev["k"] == "group" and len(ctx.samples) < 2 and len(ev["p"][0]["b"]) > 12:
                ctx.samples.append({"as_generated": bytes(ev["p"][0]["b"]).decode(), "permuted": bytes(ev["p"][1]["b"]).decode(), "expanded": bytes(ev["p"][-1]["b"]).decode(), "elements": ev["p"][0].get("el")})
    # big slices are split further for the TLC JVMs
    parts = []
    for o in outs: parts += ctx.split_lines(o, 2 if os.path.getsize(o) > 20e6 else 1, os.path.basename(o))
    ctx.tlc_traces("Trace_C07", parts, env={"XRL_FACTS": facts, "XRL_WEIGHTS": wfile}, heap="4g")
    ctx.evaluations = n
    return verdict(ctx, "model_checking", {
        "distinct_nontrivial": acc,
        "rule": "MC_C07: the TLA+ reference parser checked on all strings of length <= %d over {H,O,e,(,),2,0,.} (additivity under concatenation, group scaling, well-formed results). Conformance: %d strings through the real parser, each judged by the reference parser (accept with the exact composition / reject for a named reason / undecided): %s; add_compound_data on parsed pairs. The process runs in the C.utf8 numeric locale and the locale is compared before/after every parse. non-trivial = accepted formulas." % (4 if q else 5, n, json.dumps(groups)),
        "by_group": groups,
    }, ["atomic weights are the library's own (AtomicWeight); a number with a trailing dot (\"H1.\") is not decided by the statement and not judged",
        "only the locales C, C.utf8 and POSIX exist in this image: the locale clause is observed by name (C.utf8 vs C), not with a comma-decimal locale"])
