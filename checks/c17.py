"""C17: concurrent queries from many threads are race-free and agree with serial results."""
import concurrent.futures as cf, glob, json, os, re
from xrlcheck import verdict, Broken, NCPU


def run(ctx):
    extra = []
    # 1. the model: the thread-safe menu is conflict-free and serial; the two counter-configurations MUST find their conflicts
    for cfg in (["MC_C17", "MC_C17_wide"] if ctx.quick else ["MC_C17", "MC_C17_wide", "MC_C17_thorough"]):
        ctx.tlc_must_pass("MC_C17", cfg=cfg, workers=16, heap="6g" if ctx.quick else "12g")
    for cfg, inv in (("MC_C17_exception", "NoConflict"), ("MC_C17_locale", "SerialResults")):
        r = ctx.tlc("MC_C17", cfg=cfg, workers=4)
        if ("Invariant %s is violated" % inv) not in r["out"]: r = ctx.tlc("MC_C17", cfg=cfg, workers=2)      # e.g. a JVM killed on an overloaded machine: once more
        if ("Invariant %s is violated" % inv) not in r["out"]:
            raise Broken("vacuity guard: configuration %s did not exhibit the %s conflict\n%s" % (cfg, inv, r["out"][-1500:]))
    # 2. real schedules under ThreadSanitizer
    b = ctx.build("tsan", "A"); exe = ctx.harness(b)
    nseeds, T, calls = (20, 12, 2000) if ctx.quick else (500, 12, 3000)
    def one(i):
        out = os.path.join(ctx.scratch, "thr.%03d.ndjson" % i)
        log = os.path.join(ctx.scratch, "tsan.%03d" % i)
        # every fifth schedule hammers failing calls only (error objects and their messages are results too, and are built in shared library code)
        # ... and every fifth + 2 schedule walks through the API function by function (all threads on the same function, special macro values over-represented)
        nfam = max(1, nseeds // 5)
        args = (["c17", 8, 1500, 16, "groups"] if i % 10 == 7 else
                ["c17", 8 + (i % 9), calls * 2, 40 + i % 7, "errors"] if i % 5 == 4 else
                ["c17", 12 + (i % 5), calls, 8, "files"] if i % 5 == 1 else
                ["c17", 8 + (i % 5), 250 if ctx.quick else 600, 48, "family", i // 5, nfam] if i % 5 == 2 else ["c17", 8 + (i % 9), calls, 300 + 37 * (i % 11)])
        r = ctx.run_harness(exe, args, out, env={"VERIF_SEED": str(ctx.seed * 10000 + i), "TSAN_OPTIONS": "halt_on_error=0 log_path=%s report_signal_unsafe=0" % log}, timeout=3000)
        return out, r.returncode
    with cf.ThreadPoolExecutor(max_workers=NCPU // 2) as ex: res = list(ex.map(one, range(nseeds)))
    ncalls = 0; nev = 0; merged = os.path.join(ctx.scratch, "thr.all.ndjson")
    with open(merged, "w") as f:
        for out, rc in res:
            for l in open(out):
                if l.startswith('{"k":"sum"'): ncalls += json.loads(l)["calls"]; continue
                f.write(l); nev += 1
                if nev == 7: ctx.samples.append(json.loads(l))
    reports = []
    for p in glob.glob(os.path.join(ctx.scratch, "tsan.*")):
        txt = open(p, errors="replace").read()
        for m in re.finditer(r"WARNING: ThreadSanitizer: ([^\n]*)\n((?:.*\n){0,14})", txt):
            frames = re.findall(r"#\d+ (\w+) (/\S+?:\d+)", m.group(2)); lib = [f for f in frames if "/harness/" not in f[1]]
            reports.append({"prop": "C17", "why": "ThreadSanitizer report", "report": m.group(1), "frames": [" ".join(f) for f in lib[:4]]})
    seen = set()
    for r in reports:
        key = (r["report"][:40], tuple(r["frames"][:2]))
        if key not in seen: seen.add(key); extra.append(r)
    for out, rc in res:
        if rc != 0 and not reports: extra.append({"prop": "C17", "why": "threaded run ended abnormally", "rc": rc})
    # 2b. the same kinds of schedules on the uninstrumented build under valgrind's DRD, which also watches the C library's internal static
    #     buffers (localeconv, strtok, getenv-style state) that ThreadSanitizer cannot see because glibc is not instrumented.  Only reports
    #     with a frame inside the library's own sources AND on memory of a system library count; the control below shows the instrument fires.
    import shutil, subprocess
    drd_reports = 0; drd_runs = 0
    if shutil.which("valgrind"):
        bp = ctx.build("plain", "A"); exep = ctx.harness(bp)
        srcs = set(os.path.basename(q) for q in glob.glob(os.path.join(os.environ.get("XRL_REPO", "/repo"), "src", "*.c")))
        sched = [["c17", 8, 400, 60], ["c17", 8, 800, 300], ["c17", 8, 400, 40, "errors"], ["c17", 12, 200, 8, "files"]] + [["c17", 8, 100, 48, "family", k, 7] for k in range(7 if not ctx.quick else 3)]
        def drd(a):
            r = subprocess.run(["valgrind", "--tool=drd", "-q", "--num-callers=12"] + [exep] + [str(x) for x in a], stdout=subprocess.DEVNULL, stderr=subprocess.PIPE, text=True, timeout=1800,
                               env=dict(os.environ, VERIF_SEED=str(ctx.seed * 77 + len(a)), XRL_SCRATCH_DIR=ctx.scratch))
            return a, r
        with cf.ThreadPoolExecutor(max_workers=NCPU // 2) as ex: dres = list(ex.map(drd, sched))
        seen_d = set()
        for a, r in dres:
            drd_runs += 1
            for blk in re.split(r"\n(?==+\d+== (?:Thread \d+:|Conflicting))", r.stderr or ""):
                m = re.search(r"Conflicting (load|store) by thread \d+ at \S+ size \d+", blk)
                if not m: continue
                own = re.split(r"Allocation context|Other segment", blk)[0]      # the accessing thread's own stack, not the context DRD prints after it
                frames = re.findall(r"(?:at|by) 0x[0-9A-F]+: (\w+) \((\S+?\.c):(\d+)\)", own)
                lib = [f for f in frames if f[1] in srcs]
                if not lib: continue
                # ... and only conflicts on memory that belongs to a system library (the C library's static buffers): the library's own memory is
                # ThreadSanitizer's business, which - unlike DRD - understands C11 atomics and would not take a correct lock-free pattern for a race
                if not re.search(r"Allocation context: [^\n]* of /(?:usr/)?lib", blk): continue
                drd_reports += 1; key = (m.group(1), lib[0])
                if key not in seen_d:
                    seen_d.add(key); extra.append({"prop": "C17", "why": "DRD (valgrind) data-race report: conflicting %s" % m.group(1), "frames": ["%s %s:%s" % f for f in lib[:4]], "schedule": " ".join(str(x) for x in a)})
        a, r = drd(["c17", 4, 300, 50, "control"])
        if not re.search(r"Conflicting (?:load|store)[^\n]*\n[^\n]*worker \(c17\.c:\d+\)", r.stderr or ""):
            raise Broken("positive control failed: DRD did not report the harness's own unsynchronised counter\n" + (r.stderr or "")[-600:])
    parts = ctx.split_lines(merged, NCPU, "thr")
    ctx.tlc_traces("Trace_C17", parts)
    ctx.traces = nseeds
    # 3. positive control: the documented exception must be SEEN by the instrument
    clog = os.path.join(ctx.scratch, "tsanctl")
    ctx.run_harness(exe, ["c17", 4, 300, 50, "control"], os.path.join(ctx.scratch, "ctl.ndjson"), env={"TSAN_OPTIONS": "halt_on_error=0 log_path=%s" % clog})
    ctl = "".join(open(p, errors="replace").read() for p in glob.glob(clog + "*"))
    if "ThreadSanitizer: data race" not in ctl or "ctl_probe" not in ctl:
        raise Broken("positive control failed: an unsynchronised counter in the harness itself was not reported by ThreadSanitizer")
    ctx.samples.append({"positive_control": "race on the harness's own counter reported", "documented_exception_also_reported": "Crystal_" in ctl})
    ctx.evaluations = ncalls
    return verdict(ctx, "model_checking", {
        "distinct_nontrivial": nev,
        "rule": "model: XrlConc explored exhaustively (2 threads x 2 calls and 3 threads x 1 call%s over the 6 thread-safe call kinds, every interleaving of their shared-state steps): NoConflict, SerialResults, LocaleRestored; the configuration with AddBuiltin must violate NoConflict and the non-C-locale configuration must violate SerialResults (both checked: vacuity guards). Schedules: %d seeded runs of 8-16 threads x %d calls over seeded query pools (numeric entry points incl. failing calls, compound functions, parser, catalogue and crystal lookups), each thread with its own error slots; every fifth run consists of failing calls only (error code and message text are part of the compared result), every fifth run reads one crystal file into per-thread arrays, every fifth run walks through the API one function at a time (all threads on the same function); the serial reference of every run is computed in a forked child so that the threads meet a library that has not been called yet (lazy initialisation races), on ThreadSanitizer objects; every (thread, query) compared bit for bit with the serial answer by TLC; any ThreadSanitizer report is a violation; positive control (one thread inserting into the built-in collection) must be reported. distinct_nontrivial = (run, thread, query) triples compared; evaluations = concurrent calls." % (", 3 threads x 2 calls" if not ctx.quick else "", nseeds, calls),
        "tsan_reports": len(reports), "drd_runs": drd_runs, "drd_reports_in_library_frames": drd_reports, "concurrent_calls": ncalls,
    }, ["data races are observed by ThreadSanitizer and, for the C library's internal static buffers, by valgrind's DRD on the schedules that happened",
        "the numeric locale of the process is C or C.utf8: the lost-restore interleaving of the parser in a comma-decimal locale is shown at model level (MC_C17_locale) and cannot be run here"], extra_violations=extra)
