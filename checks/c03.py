"""C03: errors are reported iff the call failed; results are finite."""
import concurrent.futures as cf, json, os, subprocess
from xrlcheck import verdict, Broken, VERIF, NCPU


def classes(ctx, exe, tier, tag, extra_arg=None):
    def one(p):
        out = os.path.join(ctx.scratch, "cls%s.%02d.ndjson" % (tag, p))
        args = ["c03", p, NCPU, tier] + ([extra_arg] if extra_arg else [])
        r = ctx.run_harness(exe, args, out, timeout=3000)
        return out, r
    with cf.ThreadPoolExecutor(max_workers=NCPU) as ex:
        return list(ex.map(one, range(NCPU)))


def run(ctx):
    tier = "quick" if ctx.quick else "thorough"
    extra = []
    bA = ctx.build("plain", "A"); exeA = ctx.harness(bA)
    bB = ctx.build("plain", "B"); exeB = ctx.harness(bB)
    # part 1: the slot algebra -- model checked, then every transition replayed into the real error API
    r = ctx.tlc_must_pass("MC_C03", workers=4)
    r = ctx.tlc("MC_C03", cfg="MC_C03_emit", workers=1)
    if not r["ok"]: raise Broken("MC_C03_emit failed\n" + r["out"][-2000:])
    edges = os.path.join(ctx.scratch, "err.edges"); open(edges, "w").write(r["out"])
    prog = os.path.join(ctx.scratch, "err.prog")
    nprog = int(subprocess.run(["python3", os.path.join(VERIF, "bin", "paths_err.py"), edges, prog], capture_output=True, text=True, check=True).stdout.strip())
    etr = os.path.join(ctx.scratch, "err.ndjson")
    rr = ctx.run_harness(exeA, ["c03e", prog], etr)
    if rr.returncode != 0: extra.append({"prop": "C03", "why": "error-API replay ended abnormally", "rc": rr.returncode})
    ctx.tlc_traces("Trace_C03e", [etr])
    ctx.traces = nprog
    # part 2: every exported function over the argument grid, folded into observation classes
    outs = classes(ctx, exeA, tier, "A") + classes(ctx, exeB, tier, "B", "kissel")
    calls = 0; ncls = 0; allcls = os.path.join(ctx.scratch, "classes.ndjson"); fns = set(); okfns = set()
    with open(allcls, "w") as f:
        for out, r in outs:
            if r.returncode != 0: extra.append({"prop": "C03", "why": "enumeration ended abnormally", "rc": r.returncode, "stderr": r.stderr[-800:]})
            for line in open(out):
                ev = json.loads(line)
                if ev["k"] == "sum": calls += ev["calls"]; continue
                f.write(line)
                if ev["k"] == "cls":
                    ncls += 1; fns.add(ev["fn"])
                    if ev["slot"] in ("empty", "none"): okfns.add(ev["fn"])
                    if ev["fn"] == "CS_FluorLine_Kissel" and ev["slot"] == "empty" and len(ctx.samples) < 2: ctx.samples.append(ev)
                    if ev["fn"] == "Bragg_angle" and ev["slot"] == "err" and len(ctx.samples) < 4: ctx.samples.append(ev)
    parts = ctx.split_lines(allcls, NCPU, "cls")
    n0 = ctx.traces
    ctx.tlc_traces("Trace_C03", parts)
    ctx.traces = n0 + 1
    ctx.evaluations = calls
    return verdict(ctx, "model_checking", {
        "distinct_nontrivial": ncls,
        "rule": "part 1: error-slot algebra (2 slots, 2 locals, 2 codes, 2 messages) explored exhaustively by TLC with the action properties FirstErrorWins, OnlyClearEmpties, OverCounted, PropagateMoves; every transition within 3 operations (%d programs) replayed into xrl_set_error(_literal)/xrl_propagate_error/xrl_clear_error/xrl_error_copy/free/matches and validated step by step (slots, locals, overwrite count, live heap blocks). part 2: %d calls (each made with and without an error slot) over every function of the public headers x Z in -3..125 x every macro value x structured energies/angles/strings, folded into observation classes (function, argument classes, return class, slot, code, message, overwrite attempts via --wrap, slot/no-slot agreement); TLC judges every class against XrlErr!ClassWhy with the kinds of XrlAPI. distinct_nontrivial = distinct classes; %d functions observed, %d of them with at least one successful class. Data configurations A (all functions) and B (Kissel-fed functions)." % (nprog, calls, len(fns), len(okfns)),
        "functions_observed": len(fns), "functions_with_success": len(okfns), "calls": calls,
    }, ["continuous arguments are sampled (table ends, edges +/- 1e-9, 0, negative, denormal, 1e300), not exhausted",
        "overwrite attempts are observed by link-time interposition of xrl_set_error, xrl_set_error_literal and xrl_propagate_error",
        "XrlAPI classifies which quantities are strictly positive"], extra_violations=extra)
