"""C09: jump-ratio XRF cross sections = photo cross section x jump share x yield x rate."""
import concurrent.futures as cf, json, os
from xrlcheck import verdict, NCPU


def run(ctx):
    tier = "quick" if ctx.quick else "thorough"
    b = ctx.build("plain", "A"); exe = ctx.harness(b)
    facts = ctx.facts(b, ["macros", "names", "scalar", "compton", "kissel"])
    r = ctx.tlc_must_pass("MC_C09", env={"XRL_FACTS": facts}, workers=16, heap="6g")
    def one(i):
        out = os.path.join(ctx.scratch, "xrf.%02d.ndjson" % i); open(out, "w").close()
        for Z in range(i, 122, NCPU):
            tmp = out + ".z"; ctx.run_harness(exe, ["c09", Z, Z, tier], tmp)
            with open(out, "a") as f: f.write(open(tmp).read())
        return out
    with cf.ThreadPoolExecutor(max_workers=NCPU) as ex: outs = list(ex.map(one, range(NCPU)))
    n = 0; nok = 0; npts = 0
    for o in outs:
        for l in open(o):
            ev = json.loads(l)
            for at in ev["at"]:
                npts += 1; n += 2 * (len(at["shell"]["ok"]) + len(at["line"]["ok"])); nok += sum(at["shell"]["ok"]) + sum(at["line"]["ok"])
            if ev["Z"] == 82 and not ctx.samples:
                at = ev["at"][10]; ctx.samples.append({"Z": 82, "E": at["E"], "photo": at["photo"], "CS_FluorShell(-1..5)": at["shell"], "edges": ev["edge"], "jumps": ev["jump"]})
    ctx.tlc_traces("Trace_C09", outs, env={"XRL_FACTS": facts}, heap="4g")
    ctx.evaluations = n
    return verdict(ctx, "model_checking", {
        "distinct_nontrivial": nok,
        "rule": "MC_C09: share formula over the complete abstract case space (4 jump ratios in {missing,1,2,8}, yields, 4 CK probabilities, presence of each edge, 5 energy regions: 196608 cases): totality, failure below the edge / without a yield, share in (0,1], partition bound. Conformance: Z = 0..121 x energies on both sides (1e-9 and 1e-3) of every K/L edge, ends of the photo table, %d log-spaced interior energies, 0 and -1 (%d (Z,E) points) x 7 shell arguments x 393 line arguments x {cm2/g, barn}; TLC recomputes every result from the primitives the library returns (XrlXRFJump, rel 1e-11); L-beta as the sum of its member lines (11 Siegbahn beta lines, or those + L3N6/L3N7). non-trivial = results that are values." % (6 if ctx.quick else 24, npts),
        "points": npts,
    }, ["primitives (edges, jump ratios, yields, CK probabilities, rates, CS_Photo) are the library's own answers (C01/C02 decide those)"])
