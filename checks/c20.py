"""C20: every language binding declares the C API with the same constants and types (static conformance, TLC as evaluator)."""
import json, os, re
from xrlcheck import verdict, Broken


def run(ctx):
    b = ctx.build("pic", "A")
    facts = ctx.facts(b, ["macros", "names", "scalar", "compton", "kissel", "protos", "bindings"])
    json.dump(open(os.path.join(b, "exports.txt")).read().split(), open(os.path.join(facts, "exports.json"), "w"))
    # the one binding that can be executed here also reports what it publishes at run time (its physical constants are not literals in the
    # source: they are read from the data file that java/pr_data_java.c generates)
    import subprocess
    from xrlcheck import VERIF
    bp = ctx.build("plain", "A")
    rj = subprocess.run([os.path.join(VERIF, "bin", "build_java"), bp], capture_output=True, text=True, timeout=1200)
    if rj.returncode != 0: raise Broken("the Java sources do not compile / the Java data file generator failed\n" + rj.stderr[-800:])
    jdir = rj.stdout.strip().splitlines()[-1]
    rc = subprocess.run(["java", "-cp", os.path.join(jdir, "classes"), "JConsts"], cwd=os.path.join(jdir, "classes"), capture_output=True, text=True, timeout=600)
    if rc.returncode != 0: raise Broken("JConsts failed: " + rc.stderr[-600:])
    bj = json.load(open(os.path.join(facts, "bindings.json"))); bj["java_runtime"] = {"consts": json.loads(rc.stdout.strip().splitlines()[-1])}
    if len(bj["java_runtime"]["consts"]) < 1000: raise Broken("JConsts reported only %d constants" % len(bj["java_runtime"]["consts"]))
    json.dump(bj, open(os.path.join(facts, "bindings.json"), "w"))
    r = ctx.tlc_must_pass("MC_C20", env={"XRL_FACTS": facts}, workers=1)
    m = re.search(r'"COUNTS (.*)"\s*$', r["out"], flags=re.M)
    if not m: raise Broken("MC_C20 printed no COUNTS line")
    counts = json.loads(json.loads('"' + m.group(1) + '"'))
    # lexer self-checks: a family that comes out empty means the lexer drifted from the file syntax (broken check, not a verdict)
    for k, v in counts["consts"].items():
        if v < 1000: raise Broken("lexer for %s found only %d constants" % (k, v))
    if counts["cython_protos"] < 50 or counts["fortran_protos"] < 100 or counts["pascal_protos"] < 120 or counts["header_functions"] < 100: raise Broken("prototype lexer drifted: %s" % counts)
    ncmp = sum(counts["consts"].values()) + counts["cython_names"] + 5 * counts["family_constants"] + counts["cython_protos"] + counts["fortran_protos"] + counts["pascal_protos"] + counts["idl_routines"] + counts["header_functions"] + counts["version_files"]
    ctx.evaluations = ncmp
    ctx.samples.append(counts)
    return verdict(ctx, "other", {
        "explanation": "Static conformance decided by TLC as an evaluator of XrlBindings over facts lexed from the current tree: %s. Constants published under a C name must equal the header value (integers exactly, reals at the precision written; aliases resolved inside the binding): Fortran module, Pascal constants, IDL files, Java finals; the C++ header and the SWIG interface must include xraylib.h; the Java physical constants must be written to the data file from the C macros. The six user-facing macro families must be complete in Fortran, Pascal, IDL, Java and Cython. Prototypes: Cython pxd declarations and Fortran BIND(C) interfaces against the C prototypes under a type map. Every function declared in a public header must be exported by a shared library built from the tree with hidden default visibility. All version strings must equal xraylib.h. Not covered: Pascal iface/impl prototypes, SWIG typemaps, Lua/Perl/PHP/Ruby generated wrappers (no hand-written declaration sets lexed for them)." % json.dumps(counts),
        "distinct_nontrivial": ncmp, "exhaustive": True,
        "rule": "one comparison per constant, per family member and binding, per prototype, per exported header function, per version file",
    }, ["bindings other than Java are not executed (no Fortran, Pascal, Cython, IDL toolchains in this image): textual conformance only; the Java constants are also read at run time"])
