/* C09: jump-ratio XRF cross sections.  One event per Z: the primitives (edges, jump ratios, yields, Coster-Kronig
 * probabilities, radiative rates of every line macro, atomic weight) and, per energy, the photo cross section and the
 * shell / line cross sections in both units. */
#include "common.h"
#include "xrayglob.h"
static void pv(double v, xrl_error **e) { fprintf(OUT, "[%d,", *e == NULL); jd(v); fputc(']', OUT); xrl_clear_error(e); }
static void row3(const char *key, double (*f)(int, int, double, xrl_error **), int Z, double E, int lo, int hi) {
  fprintf(OUT, ",\"%s\":{\"lo\":%d,\"hi\":%d,\"ok\":[", key, lo, hi);
  int n = hi - lo + 1; double *v = malloc(n * sizeof(double));
  for (int m = lo; m <= hi; m++) { xrl_error *e = NULL; v[m - lo] = f(Z, m, E, &e); fprintf(OUT, "%s%d", m > lo ? "," : "", e == NULL); xrl_clear_error(&e); }
  /* the same cells without an error slot: the value must be the same bits (below the edge: the 0 sentinel) */
  int nd = 0, ndm = 0; for (int m = lo; m <= hi; m++) { double w = f(Z, m, E, NULL); if (memcmp(&w, &v[m - lo], 8)) { if (!nd) ndm = m; nd++; } }
  fputs("],\"v\":[", OUT); for (int i = 0; i < n; i++) { if (i) fputc(',', OUT); jd(v[i]); } fprintf(OUT, "],\"nd\":%d,\"ndm\":%d}", nd, ndm); free(v);
}
int cmd_c09(int argc, char **argv) {
  int zlo = argc > 0 ? atoi(argv[0]) : 0, zhi = argc > 1 ? atoi(argv[1]) : 121; int thorough = argc > 2 && !strcmp(argv[2], "thorough");
  for (int Z = zlo; Z <= zhi; Z++) {
    xrl_error *e = NULL;
    fprintf(OUT, "{\"k\":\"xrf\",\"Z\":%d,\"aw\":", Z); pv(AtomicWeight(Z, &e), &e);
    fputs(",\"edge\":[", OUT); for (int s = 0; s < 4; s++) { if (s) fputc(',', OUT); pv(EdgeEnergy(Z, s, &e), &e); }
    fputs("],\"jump\":[", OUT); for (int s = 0; s < 4; s++) { if (s) fputc(',', OUT); pv(JumpFactor(Z, s, &e), &e); }
    fputs("],\"yield\":[", OUT); for (int s = 0; s < 4; s++) { if (s) fputc(',', OUT); pv(FluorYield(Z, s, &e), &e); }
    fputs("],\"ck\":[", OUT); { int t[4] = {FL12_TRANS, FL13_TRANS, FLP13_TRANS, FL23_TRANS}; for (int i = 0; i < 4; i++) { if (i) fputc(',', OUT); pv(CosKronTransProb(Z, t[i], &e), &e); } }
    fputs("],", OUT); emit_row("RR", RadRate, Z, -386, 6);
    fputs(",\"at\":[", OUT);
    double el[64]; int ne = 0; el[ne++] = 0.0; el[ne++] = -1.0;
    for (int s = 0; s < 4; s++) { double ed = EdgeEnergy(Z, s, NULL); if (ed > 0) { el[ne++] = ed; el[ne++] = ed * (1 - 1e-9); el[ne++] = ed * (1 + 1e-9); el[ne++] = ed * (1 - 1e-3); el[ne++] = ed * (1 + 1e-3); } }
    int in = Z >= 1 && Z <= ZMAX && NE_Photo[Z] > 0;
    if (in) { double lo = exp(E_Photo_arr[Z][0]) / 1000.0, hi = exp(E_Photo_arr[Z][NE_Photo[Z] - 1]) / 1000.0; el[ne++] = lo * (1 - 1e-6); el[ne++] = lo * (1 + 1e-6); el[ne++] = hi * (1 - 1e-6); el[ne++] = hi * (1 + 1e-3);
      int nlog = thorough ? 24 : 6; for (int i = 1; i <= nlog; i++) el[ne++] = lo * pow(hi / lo, (double)i / (nlog + 1)); }
    else { el[ne++] = 1.0; el[ne++] = 30.0; }
    for (int i = 0; i < ne; i++) {
      double E = el[i];
      fprintf(OUT, "%s{\"E\":", i ? "," : ""); jd(E); fputs(",\"photo\":", OUT); pv(CS_Photo(Z, E, &e), &e);
      row3("shell", CS_FluorShell, Z, E, -1, 5); row3("shellb", CSb_FluorShell, Z, E, -1, 5);
      row3("line", CS_FluorLine, Z, E, -386, 6); row3("lineb", CSb_FluorLine, Z, E, -386, 6);
      fputc('}', OUT);
    }
    fputs("]}\n", OUT);
  }
  return 0;
}
