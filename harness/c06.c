/* C06: compound functions.  One event per (compound name, E, theta, phi, density): the composition the library itself derives
 * (parser first, NIST catalogue second), every *_CP function found in the API table with the values of its elemental
 * counterpart for each element, and the three refractive-index entry points with f', atomic weight and CS_Total per element. */
#include "common.h"
#include "api.h"
static const ApiFn *find(const char *name) { for (ApiFn *f = API_TABLE; f->name; f++) if (!strcmp(f->name, name)) return f; return NULL; }
static void pv(double v, xrl_error **e) { fprintf(OUT, "[%d,", *e == NULL); jd(v); fputc(']', OUT); xrl_clear_error(e); }
extern void Refractive_Index2(const char[], double, double, xrlComplex *, xrl_error **) __attribute__((weak));   /* exported twin used by bindings, not in the headers */
static void event(const char *s, double E, double th, double ph, double rho) {
  xrl_error *e = NULL; int n = 0; int *el = NULL; double *mf = NULL; double nistrho = 0; int src = 0;
  struct compoundData *cd = CompoundParser(s, NULL); struct compoundDataNIST *cdn = NULL;
  if (cd) { src = 1; n = cd->nElements; el = cd->Elements; mf = cd->massFractions; }
  else if ((cdn = GetCompoundDataNISTByName(s, NULL))) { src = 2; n = cdn->nElements; el = cdn->Elements; mf = cdn->massFractions; nistrho = cdn->density; }
  fputs("{\"k\":\"cp\",\"s\":", OUT); jstr(s); fputs(",\"E\":", OUT); jd(E); fputs(",\"th\":", OUT); jd(th); fputs(",\"ph\":", OUT); jd(ph); fputs(",\"rho\":", OUT); jd(rho);
  fprintf(OUT, ",\"src\":%d,\"nistrho\":", src); jd(nistrho); fputs(",\"el\":[", OUT); for (int i = 0; i < n; i++) fprintf(OUT, "%s%d", i ? "," : "", el[i]);
  fputs("],\"mf\":[", OUT); for (int i = 0; i < n; i++) { if (i) fputc(',', OUT); jd(mf[i]); }
  fputs("],\"fn\":{", OUT); int first = 1;
  for (ApiFn *f = API_TABLE; f->name; f++) {
    size_t L = strlen(f->name); if (L < 4 || strcmp(f->name + L - 3, "_CP")) continue;
    char base[64]; snprintf(base, sizeof base, "%.*s", (int)(L - 3), f->name); const ApiFn *g = find(base); if (!g) continue;
    double da[3] = {E, th, ph}; int ia[2] = {0, 0};
    fprintf(OUT, "%s\"%s\":{\"r\":", first ? "" : ",", f->name); first = 0; pv(api_call(f, ia, da, s, &e), &e);
    fputs(",\"parts\":[", OUT); for (int i = 0; i < n; i++) { ia[0] = el[i]; if (i) fputc(',', OUT); pv(api_call(g, ia, da, NULL, &e), &e); } fputs("]}", OUT);
  }
  fputs("},\"re\":", OUT); pv(Refractive_Index_Re(s, E, rho, &e), &e); fputs(",\"im\":", OUT); pv(Refractive_Index_Im(s, E, rho, &e), &e);
  { xrlComplex z = Refractive_Index(s, E, rho, &e); fprintf(OUT, ",\"cx\":[%d,", e == NULL); jd(z.re); fputc(',', OUT); jd(z.im); fputc(']', OUT); int ok = e == NULL; xrl_clear_error(&e);
    xrlComplex z2 = {0, 0}; if (Refractive_Index2) Refractive_Index2(s, E, rho, &z2, &e); else z2 = z; fprintf(OUT, ",\"cx2\":[%d,", Refractive_Index2 ? e == NULL : ok); jd(z2.re); fputc(',', OUT); jd(z2.im); fputc(']', OUT); xrl_clear_error(&e); }
  fputs(",\"fi\":[", OUT); for (int i = 0; i < n; i++) { if (i) fputc(',', OUT); pv(Fi(el[i], E, &e), &e); }
  fputs("],\"aw\":[", OUT); for (int i = 0; i < n; i++) { if (i) fputc(',', OUT); pv(AtomicWeight(el[i], &e), &e); }
  fputs("],\"cs\":[", OUT); for (int i = 0; i < n; i++) { if (i) fputc(',', OUT); pv(CS_Total(el[i], E, &e), &e); }
  fputs("]}\n", OUT);
  if (cd) FreeCompoundData(cd); if (cdn) FreeCompoundDataNIST(cdn);
}
static void random_formula(char *o) {
  int n = rndint(1, 4), len = 0; int group_at = rndint(0, 5) == 0 ? rndint(0, n - 1) : -1;
  for (int i = 0; i < n; i++) {
    char *sym = AtomicNumberToSymbol(rndint(1, rndint(0, 12) ? 98 : 107), NULL);
    if (i == group_at) { char *s2 = AtomicNumberToSymbol(rndint(1, 92), NULL); len += sprintf(o + len, "(%s%s%d)%d", sym, s2, rndint(1, 4), rndint(2, 3)); xrlFree(s2); }
    else { int r = rndint(0, 4); if (r == 0) len += sprintf(o + len, "%s", sym); else if (r < 3) len += sprintf(o + len, "%s%d", sym, rndint(1, 12)); else len += sprintf(o + len, "%s%d.%d", sym, rndint(0, 3), rndint(1, 9)); }
    xrlFree(sym);
  }
}
/* c06 <part> <nparts> <quick|thorough> */
int cmd_c06(int argc, char **argv) {
  int part = argc > 0 ? atoi(argv[0]) : 0, np = argc > 1 ? atoi(argv[1]) : 1, thorough = argc > 2 && !strcmp(argv[2], "thorough");
  static const double ES[] = {-1.0, 0.0, 0.5, 1.0, 5.0, 8.979, 17.44, 59.5, 100.0, 500.0, 1500.0};
  static const double TH[] = {0.0, 0.7853981633974483, 1.5707963267948966, 2.5}, PH[] = {0.0, 1.0, 1.5707963267948966}, RHO[] = {-1.0, 0.0, 1e-3, 1.0, 20.0};
  int nn; char **nist = GetCompoundDataNISTList(&nn, NULL); long idx = 0; char buf[256];
  int nform = thorough ? 4000 : 300;
  const char *junk[] = {"", "Unobtainium", "H2O)", "water, liquid", "Water, Liquid ", "Rf", "55Fe", "()", "H0"};
  for (int c = 0; c < nn + nform + 9; c++) {
    const char *s; if (c < nn) s = nist[c]; else if (c < nn + 9) s = junk[c - nn]; else { RNG = 9000 + c; random_formula(buf); s = buf; }
    RNG = 31337 + c;
    int reps = thorough ? 6 : 2;
    for (int r = 0; r < reps; r++) {
      if (idx++ % np != part) continue;
      double E = ES[rndint(0, 10)], th = TH[rndint(0, 3)], ph = PH[rndint(0, 2)], rho = RHO[rndint(0, 4)];
      if (r == 0) { E = ES[rndint(3, 8)]; rho = 1.0; }       /* at least one fully regular tuple per compound */
      event(s, E, th, ph, rho);
    }
  }
  for (int i = 0; i < nn; i++) xrlFree(nist[i]); xrlFree(nist);
  return 0;
}
