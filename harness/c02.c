/* C02: interpolated quantities.  For every table: every knot, the interval midpoint and two seeded interior points,
 * both table ends at relative offsets 1e-12 .. 1e-3 on either side, and non-positive / huge arguments.
 * The knots are read from the library's tables only to CHOOSE the arguments; every point is then evaluated through
 * the public function.  Logged per point: the argument, the transformed abscissa computed here with the same libm
 * expression as the library (it decides on which side of a duplicated knot -- an absorption edge -- the query falls),
 * the error flag and the value.  One event per (quantity, Z[, shell]). */
#include "common.h"
#include "xrayglob.h"
typedef struct { const char *q; int tr; /* 0 identity, 1 ln(1000 a), 2 ln(a), 3 ln(a+1) */ } QDef;
static double inv(int tr, double x) { return tr == 0 ? x : tr == 1 ? exp(x) / 1000.0 : tr == 2 ? exp(x) : exp(x) - 1.0; }
static double fwd(int tr, double a) { return tr == 0 ? a : tr == 1 ? log(a * 1000.0) : tr == 2 ? log(a) : log(a + 1.0); }
static int curshell;
static double call(const char *q, int Z, double a, xrl_error **e) {
  if (!strcmp(q, "CS_Photo")) return CS_Photo(Z, a, e);
  if (!strcmp(q, "CS_Rayl")) return CS_Rayl(Z, a, e);
  if (!strcmp(q, "CS_Compt")) return CS_Compt(Z, a, e);
  if (!strcmp(q, "CS_Energy")) return CS_Energy(Z, a, e);
  if (!strcmp(q, "FF_Rayl")) return FF_Rayl(Z, a, e);
  if (!strcmp(q, "SF_Compt")) return SF_Compt(Z, a, e);
  if (!strcmp(q, "Fi")) return Fi(Z, a, e);
  if (!strcmp(q, "Fii")) return Fii(Z, a, e);
  if (!strcmp(q, "ComptonProfile")) return ComptonProfile(Z, a, e);
  if (!strcmp(q, "ComptonProfile_Partial")) return ComptonProfile_Partial(Z, curshell, a, e);
  if (!strcmp(q, "CSb_Photo_Partial")) return CSb_Photo_Partial(Z, curshell, a, e);
  return 0.0;
}
static int first = 1;
static void pt(const char *q, int tr, int Z, double a) {
  xrl_error *e = NULL; double v = call(q, Z, a, &e); double x = (tr == 0 || a > (tr == 3 ? -1.0 : 0.0)) ? fwd(tr, a) : 0.0;
  fputs(first ? "[" : ",[", OUT); first = 0;
  jd(a); fputc(',', OUT); jd(x); fprintf(OUT, ",%d,", e == NULL); jd(v); fputc(']', OUT);
  xrl_clear_error(&e);
}
static void table(const char *q, int tr, int Z, int shell, int n, const double *xa, int full, double frac) {
  curshell = shell;
  fprintf(OUT, "{\"k\":\"spl\",\"q\":\"%s\",\"Z\":%d,\"shell\":%d,\"edge\":", q, Z, shell);
  { xrl_error *e = NULL; double ed = shell >= 0 && !strcmp(q, "CSb_Photo_Partial") ? EdgeEnergy(Z, shell, &e) : 0.0; jd(ed); xrl_clear_error(&e); }
  fputs(",\"pts\":[", OUT); first = 1;
  static const double off[] = {1e-12, 1e-9, 1e-6, 1e-3};
  static const double bad[] = {0.0, -1.0, 1e-300, 1e300, -1e-300};
  for (unsigned i = 0; i < sizeof bad / sizeof *bad; i++) pt(q, tr, Z, bad[i]);
  if (n < 1) { pt(q, tr, Z, 0.5); pt(q, tr, Z, 10.0); pt(q, tr, Z, 100.0); }        /* no table: every argument must fail */
  if (n >= 1) {
    double lo = inv(tr, xa[0]), hi = inv(tr, xa[n - 1]);
    for (unsigned i = 0; i < 4; i++) { pt(q, tr, Z, lo * (1 - off[i])); pt(q, tr, Z, lo * (1 + off[i])); pt(q, tr, Z, hi * (1 - off[i])); pt(q, tr, Z, hi * (1 + off[i])); }
    pt(q, tr, Z, lo); pt(q, tr, Z, hi);
    if (tr == 0 || tr == 3) { pt(q, tr, Z, lo - 1e-9); pt(q, tr, Z, hi + 5e-8); pt(q, tr, Z, hi + 2e-7); }    /* the 1e-7 slack at the top of a table */
    else { pt(q, tr, Z, inv(tr, xa[n - 1] + 5e-8)); pt(q, tr, Z, inv(tr, xa[n - 1] + 2e-7)); pt(q, tr, Z, inv(tr, xa[0] - 1e-9)); }
    if (shell >= 0 && !strcmp(q, "CSb_Photo_Partial")) {      /* between the shell's edge and the first knot: the bounded-slope extension */
      double ed = EdgeEnergy(Z, shell, NULL);
      if (ed > 0) { pt(q, tr, Z, ed * (1 - 1e-9)); pt(q, tr, Z, ed * (1 + 1e-9)); pt(q, tr, Z, ed); if (ed < lo) { pt(q, tr, Z, 0.5 * (ed + lo)); pt(q, tr, Z, ed + 0.9 * (lo - ed)); pt(q, tr, Z, ed + 0.01 * (lo - ed)); } }
    }
    for (int k = 0; k + 1 < n; k++) {
      /* always: the intervals around an irregularity of the abscissae (a duplicated edge knot, an unsorted pair), where readers and bisections go wrong */
      int near = 0; for (int j = k - 2; j <= k + 2 && !near; j++) if (j >= 0 && j + 1 < n && xa[j + 1] <= xa[j]) near = 1;
      if (!full && !near && rnd01() > frac) continue;
      double a = xa[k], b = xa[k + 1];
      pt(q, tr, Z, inv(tr, a)); pt(q, tr, Z, inv(tr, 0.5 * (a + b))); pt(q, tr, Z, inv(tr, a + rnd01() * (b - a))); pt(q, tr, Z, inv(tr, a + rnd01() * (b - a)));
    }
  }
  fputs("]}\n", OUT);
}
/* c02 <zlo> <zhi> <quick|thorough> : elements zlo..zhi */
int cmd_c02(int argc, char **argv) {
  int zlo = argc > 0 ? atoi(argv[0]) : 0, zhi = argc > 1 ? atoi(argv[1]) : 121; int thorough = argc > 2 && !strcmp(argv[2], "thorough");
  uint64_t seed0 = RNG;
  for (int Z = zlo; Z <= zhi; Z++) {
    RNG = seed0 * 1000003ULL + (uint64_t)Z;
    /* four seeded elements are covered completely in the quick tier, the others by a 5% sample of their intervals */
    int full = thorough || ((Z * 2654435761u + (unsigned)seed0 * 40503u) % 30u) == 0 || Z == 26 || Z == 82;
    double frac = 0.05;
    int in = Z >= 1 && Z <= ZMAX;
    table("CS_Photo", 1, Z, -1, in && NE_Photo[Z] > 0 ? NE_Photo[Z] : 0, in ? E_Photo_arr[Z] : NULL, full, frac);
    table("CS_Rayl", 1, Z, -1, in && NE_Rayl[Z] > 0 ? NE_Rayl[Z] : 0, in ? E_Rayl_arr[Z] : NULL, full, frac);
    table("CS_Compt", 1, Z, -1, in && NE_Compt[Z] > 0 ? NE_Compt[Z] : 0, in ? E_Compt_arr[Z] : NULL, full, frac);
    table("CS_Energy", 2, Z, -1, in && NE_Energy[Z] > 0 ? NE_Energy[Z] : 0, in ? E_Energy_arr[Z] : NULL, full, frac);
    table("FF_Rayl", 0, Z, -1, in && Nq_Rayl[Z] > 0 ? Nq_Rayl[Z] : 0, in ? q_Rayl_arr[Z] : NULL, full, frac);
    table("SF_Compt", 0, Z, -1, in && Nq_Compt[Z] > 0 ? Nq_Compt[Z] : 0, in ? q_Compt_arr[Z] : NULL, full, frac);
    table("Fi", 0, Z, -1, in && NE_Fi[Z] > 0 ? NE_Fi[Z] : 0, in ? E_Fi_arr[Z] : NULL, full, frac);
    table("Fii", 0, Z, -1, in && NE_Fii[Z] > 0 ? NE_Fii[Z] : 0, in ? E_Fii_arr[Z] : NULL, full, frac);
    int ncp = in && Npz_ComptonProfiles[Z] > 0 ? Npz_ComptonProfiles[Z] : 0;
    table("ComptonProfile", 3, Z, -1, ncp, in ? pz_ComptonProfiles[Z] : NULL, full, frac);
    for (int s = -1; s <= (in && NShells_ComptonProfiles[Z] > 0 ? NShells_ComptonProfiles[Z] : 1); s++) {
      int occ = in && s >= 0 && s < NShells_ComptonProfiles[Z] && UOCCUP_ComptonProfiles[Z][s] > 0.0;
      table("ComptonProfile_Partial", 3, Z, s, ncp, in ? pz_ComptonProfiles[Z] : NULL, full && occ, occ ? frac : 0.01);
    }
    for (int s = -1; s <= 31; s++) {
      int has = in && s >= 0 && s < SHELLNUM_K && NE_Photo_Total_Kissel[Z] > 0 && NE_Photo_Partial_Kissel[Z][s] > 0;
      table("CSb_Photo_Partial", 2, Z, s, has ? NE_Photo_Partial_Kissel[Z][s] : 0, has ? E_Photo_Partial_Kissel[Z][s] : NULL, full, frac);
    }
  }
  return 0;
}
