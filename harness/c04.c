/* C04: ownership ledger.  Seeded random histories over the allocating API; after every call the number of live heap
 * blocks allocated by the library (link-time --wrap counters) and of open FILEs is logged.  The model (XrlHeap) keeps the
 * ledger of what the caller owns; TLC checks  live = sum of footprints  after every step and 0 at the end.
 * Run on the ASan/UBSan objects: a sanitizer report aborts the history (abort event).  Histories run in forked children. */
#include "common.h"
#include <signal.h>
#include <fcntl.h>
#include <sys/stat.h>
#include <locale.h>
#include <unistd.h>
#include <sys/wait.h>
extern long W_live, W_files, W_fail_at, W_fail_spare_errors;
/* one crystal / list / symbol step in five runs with one of its first six allocation requests refused (the functions whose unchecked allocations are known findings are not armed) */
#define ARMH() do { W_fail_at = rndint(0, 4) ? 0 : rndint(1, 6); } while (0)
#define DISARMH() do { W_fail_at = 0; } while (0)
#define NSLOT 12
enum { K_NONE, K_COMPOUND, K_NIST, K_NUCLIDE, K_CRYSTAL, K_LIST, K_STRING, K_ARRAY };
static const char *KN[] = {"none", "compound", "nist", "nuclide", "crystal", "list", "string", "array"};
typedef struct { int kind; void *p; int n; } Obj;
static int grew;      /* 1 when the step gave a user array its storage block (an array created for 0 crystals has none): logged as "g" with the next event */
static Obj objs[NSLOT]; static long hid; static int stepno; static long live0; static const char *scratchdir = "/tmp";
static const char *STR[] = {"H2O", "Ca5(PO4)3OH", "Fe", "SiO2", "C6H12O6", "Na2(SO4)(H2O)10", "(((H)))", "U0.5Pu0.5O2", "Water, Liquid", "Bone, Cortical (ICRP)", "Air, Dry (near sea level)", "Polyethylene",
  "", "H2O)", "(H2O", "()", "H0", "2O", "Rf", "Xx", "H(2)", "CuI2ww", "Fe 2", "Au(11(H3PO4))2", "Fe2.5.5", "H1..2", "garbage!", "((H)2(O)0)", "Ca(Xx)2", "O(H2", "Fe3O4(", "He)(", "H2O2H", "Ab2", "Fe(OH)3.5.5", "Unobtainium", "55Fe", "241Am", "55fe"};
#define NSTR ((int)(sizeof STR / sizeof *STR))

static void ev(const char *op, const char *arg, int iarg, int slot, int ok, int id, int kind, int n, long l0, int err) {
  fprintf(OUT, "{\"k\":\"hop\",\"hist\":%ld,\"i\":%d,\"op\":\"%s\",\"arg\":", hid, stepno++, op); jstr(arg ? arg : "");
  fprintf(OUT, ",\"iarg\":%d,\"slot\":%d,\"ok\":%d,\"id\":%d,\"kind\":\"%s\",\"n\":%d,\"d\":%ld,\"live\":%ld,\"files\":%ld,\"err\":%d,\"g\":%d}\n", iarg, slot, ok, id, KN[kind], n, W_live - l0, W_live - live0, W_files, err, grew); grew = 0;
}
static int free_slot(void) { int c = 0, pick = -1; for (int i = 0; i < NSLOT; i++) if (!objs[i].p && rndint(0, c++) == 0) pick = i; return pick; }
static int live_of(int kind) { int c = 0, pick = -1; for (int i = 0; i < NSLOT; i++) if (objs[i].p && (kind < 0 || objs[i].kind == kind) && rndint(0, c++) == 0) pick = i; return pick; }
static void release(int i) {
  Obj *o = &objs[i]; long l0 = W_live;
  switch (o->kind) {
  case K_COMPOUND: FreeCompoundData(o->p); break;
  case K_NIST: FreeCompoundDataNIST(o->p); break;
  case K_NUCLIDE: FreeRadioNuclideData(o->p); break;
  case K_CRYSTAL: Crystal_Free(o->p); break;
  case K_LIST: { char **l = o->p; for (int k = 0; l[k]; k++) xrlFree(l[k]); xrlFree(l); break; }
  case K_STRING: xrlFree(o->p); break;
  case K_ARRAY: Crystal_ArrayFree(o->p); break;
  }
  ev("Free", "", 0, 0, 1, i, o->kind, o->n, l0, 0); o->p = NULL; o->kind = K_NONE;
}
static void write_crystal_file(const char *path, int k, int bad, int tag) {
  FILE *f = fopen(path, "w"); fputs("#F x\n", f);
  for (int i = 0; i < k; i++) {
    if (bad == 1 && i == k - 1) fprintf(f, "#S %d\n", i); else fprintf(f, "#S %d c%d_%d\n", i, tag, i);
    if (!(bad == 2 && i == k - 1)) fputs("#UCELL 4.5 4.5 6.25 90 90 120\n", f);
    fputs("#L Z f x y z\n", f);
    if (bad == 3 && i == k - 1) { fputs("14 1.0 zero 0 0\n", f); continue; }
    if (bad == 4 && i == k - 1) break;
    fputs("14 1.0 0 0 0\n8 0.5 0.25 0.25 0.5\n", f);
  }
  fclose(f);
}
static void step(void) {
  int r = rndint(0, 99); xrl_error *e = NULL; long l0 = W_live; int useslot = rndint(0, 2) != 0;
  if (r < 14) { int i = free_slot(); if (i < 0) { release(live_of(-1)); return; } const char *s = STR[rndint(0, NSTR - 1)];
    struct compoundData *c = CompoundParser(s, useslot ? &e : NULL); int err = e != NULL; ev("CompoundParser", s, 0, useslot, c != NULL, c ? i : -1, K_COMPOUND, 0, l0, err);
    if (c) { objs[i].p = c; objs[i].kind = K_COMPOUND; } }
  else if (r < 18) { int a = live_of(K_COMPOUND), b = live_of(K_COMPOUND), i = free_slot(); if (a < 0 || i < 0) return;
    struct compoundData *c = add_compound_data(*(struct compoundData *)objs[a].p, 0.25, *(struct compoundData *)objs[b].p, 0.75); ev("add_compound_data", "", 0, 0, c != NULL, i, K_COMPOUND, 0, l0, 0); objs[i].p = c; objs[i].kind = K_COMPOUND; }
  else if (r < 26) { int i = free_slot(); if (i < 0) return; const char *s = STR[rndint(0, NSTR - 1)]; if (rndint(0, 9) == 0) s = NULL;
    struct compoundDataNIST *c = GetCompoundDataNISTByName(s, useslot ? &e : NULL); ev("GetCompoundDataNISTByName", s ? s : "<NULL>", 0, useslot, c != NULL, c ? i : -1, K_NIST, 0, l0, e != NULL); if (c) { objs[i].p = c; objs[i].kind = K_NIST; } }
  else if (r < 31) { int i = free_slot(); if (i < 0) return; int k = rndint(-3, 184);
    struct compoundDataNIST *c = GetCompoundDataNISTByIndex(k, useslot ? &e : NULL); ev("GetCompoundDataNISTByIndex", "", k, useslot, c != NULL, c ? i : -1, K_NIST, 0, l0, e != NULL); if (c) { objs[i].p = c; objs[i].kind = K_NIST; } }
  else if (r < 36) { int i = free_slot(); if (i < 0) return; const char *s = STR[rndint(0, NSTR - 1)]; if (rndint(0, 9) == 0) s = NULL;
    struct radioNuclideData *c = GetRadioNuclideDataByName(s, useslot ? &e : NULL); ev("GetRadioNuclideDataByName", s ? s : "<NULL>", 0, useslot, c != NULL, c ? i : -1, K_NUCLIDE, 0, l0, e != NULL); if (c) { objs[i].p = c; objs[i].kind = K_NUCLIDE; } }
  else if (r < 40) { int i = free_slot(); if (i < 0) return; int k = rndint(-2, 12);
    struct radioNuclideData *c = GetRadioNuclideDataByIndex(k, useslot ? &e : NULL); ev("GetRadioNuclideDataByIndex", "", k, useslot, c != NULL, c ? i : -1, K_NUCLIDE, 0, l0, e != NULL); if (c) { objs[i].p = c; objs[i].kind = K_NUCLIDE; } }
  else if (r < 45) { int i = free_slot(); if (i < 0) return; int which = rndint(0, 2), n = -1; ARMH(); char **l = which == 0 ? GetCompoundDataNISTList(&n, &e) : which == 1 ? GetRadioNuclideDataList(&n, &e) : Crystal_GetCrystalsList(NULL, &n, &e); DISARMH();
    ev(which == 0 ? "GetCompoundDataNISTList" : which == 1 ? "GetRadioNuclideDataList" : "Crystal_GetCrystalsList", "", 0, 1, l != NULL, i, K_LIST, n, l0, e != NULL); if (l) { objs[i].p = l; objs[i].kind = K_LIST; objs[i].n = n; } }
  else if (r < 49) { int i = free_slot(); if (i < 0) return; int Z = rndint(-2, 110); ARMH(); char *s = AtomicNumberToSymbol(Z, useslot ? &e : NULL); DISARMH(); ev("AtomicNumberToSymbol", "", Z, useslot, s != NULL, s ? i : -1, K_STRING, 0, l0, e != NULL); if (s) { objs[i].p = s; objs[i].kind = K_STRING; } }
  else if (r < 55) { int i = free_slot(); if (i < 0) return; const char *names[] = {"Si", "Diamond", "AlphaQuartz", "nope", "", NULL}; const char *s = names[rndint(0, 5)]; int ua = live_of(K_ARRAY);
    Crystal_Array *from = (ua >= 0 && rndint(0, 1)) ? objs[ua].p : NULL; ARMH(); Crystal_Struct *c = Crystal_GetCrystal(s, from, useslot ? &e : NULL); DISARMH(); ev("Crystal_GetCrystal", s ? s : "<NULL>", 0, useslot, c != NULL, c ? i : -1, K_CRYSTAL, 0, l0, e != NULL); if (c) { objs[i].p = c; objs[i].kind = K_CRYSTAL; } }
  else if (r < 58) { int a = live_of(K_CRYSTAL), i = free_slot(); if (i < 0) return; ARMH(); Crystal_Struct *c = Crystal_MakeCopy(a >= 0 ? objs[a].p : NULL, useslot ? &e : NULL); DISARMH(); ev("Crystal_MakeCopy", "", a, useslot, c != NULL, c ? i : -1, K_CRYSTAL, 0, l0, e != NULL); if (c) { objs[i].p = c; objs[i].kind = K_CRYSTAL; } }
  else if (r < 62) { int i = free_slot(); if (i < 0) return; int n = rndint(-1, 3); if (rndint(0, 11) == 0) n = rndint(0, 1) ? 2147483647 : (1 << 30);      /* a capacity no allocator can satisfy */
    ARMH(); Crystal_Array *a = Crystal_ArrayInit(n, useslot ? &e : NULL); DISARMH(); ev("Crystal_ArrayInit", "", n, useslot, a != NULL, a ? i : -1, K_ARRAY, n, l0, e != NULL); if (a) { objs[i].p = a; objs[i].kind = K_ARRAY; objs[i].n = n; } }
  else if (r < 68) { int a = live_of(K_ARRAY), c = live_of(K_CRYSTAL); if (a < 0) return; Crystal_Array *arr = objs[a].p; int had = arr->crystal != NULL;
    ARMH(); int rv = Crystal_AddCrystal(c >= 0 ? objs[c].p : NULL, arr, useslot ? &e : NULL); DISARMH(); grew = (arr->crystal != NULL) - had; ev("Crystal_AddCrystal", c >= 0 ? ((Crystal_Struct *)objs[c].p)->name : "<NULL>", a, useslot, rv, a, K_ARRAY, had, l0, e != NULL); }
  else if (r < 74) { int a = live_of(K_ARRAY); if (a < 0) return; Crystal_Array *arr = objs[a].p; int had = arr->crystal != NULL; char path[300]; snprintf(path, sizeof path, "%s/xrl-c04-%d.dat", scratchdir, (int)getpid());
    int k = rndint(1, 3), bad = rndint(0, 1) ? 0 : rndint(1, 5); if (bad < 5) write_crystal_file(path, k, bad, stepno); else unlink(path);
    /* one time in six the name does not refer to a regular file: a FIFO fed by another process (not seekable), a directory, the null device */
    int kind = rndint(0, 5) ? 0 : rndint(1, 3); pid_t feeder = 0; char fifo[320]; const char *use = path;
    if (kind == 1 && bad < 5) { snprintf(fifo, sizeof fifo, "%s.fifo", path); unlink(fifo);
      if (mkfifo(fifo, 0600) == 0) { fflush(OUT); feeder = fork();
        if (feeder == 0) { int in = open(path, O_RDONLY), out = open(fifo, O_WRONLY); char buf[4096]; ssize_t n; while (in >= 0 && out >= 0 && (n = read(in, buf, sizeof buf)) > 0) { if (write(out, buf, n) < 0) break; } _exit(0); }
        use = fifo; } else kind = 0; }
    else if (kind == 2) { use = scratchdir; k = 0; bad = 9; }
    else if (kind == 3) { use = "/dev/null"; k = 0; bad = 9; }
    else kind = 0;
    l0 = W_live; ARMH(); int rv = Crystal_ReadFile(use, arr, useslot ? &e : NULL); DISARMH(); grew = (arr->crystal != NULL) - had; ev("Crystal_ReadFile", bad == 0 ? "good" : "bad", a, useslot, rv, a, K_ARRAY, rv ? k * 10 + had : had, l0, e != NULL); unlink(path);
    if (kind == 1) { int fd = open(fifo, O_RDONLY | O_NONBLOCK); if (fd >= 0) close(fd); if (feeder > 0) { kill(feeder, SIGKILL); waitpid(feeder, NULL, 0); } unlink(fifo); } }
  else if (r < 90) {   /* functions that allocate internally and hand nothing out */
    const char *s = STR[rndint(0, NSTR - 1)]; double E = (double[]){-1, 0, 0.5, 8.0, 17.44, 100.0, 5000.0}[rndint(0, 6)], rho = (double[]){-1, 0, 1.0, 2.5}[rndint(0, 3)]; int which = rndint(0, 7); xrl_error **pe = useslot ? &e : NULL; const char *nm;
    switch (which) {
    case 0: CS_Total_CP(s, E, pe); nm = "CS_Total_CP"; break;
    case 1: DCSP_Compt_CP(s, E, 1.0, 0.5, pe); nm = "DCSP_Compt_CP"; break;
    case 2: Refractive_Index_Re(s, E, rho, pe); nm = "Refractive_Index_Re"; break;
    case 3: Refractive_Index_Im(s, E, rho, pe); nm = "Refractive_Index_Im"; break;
    case 4: Refractive_Index(s, E, rho, pe); nm = "Refractive_Index"; break;
    case 5: CS_Energy_CP(s, E, pe); nm = "CS_Energy_CP"; break;
    case 6: CSb_Photo_Total_CP(s, E, pe); nm = "CSb_Photo_Total_CP"; break;
    default: DCS_Rayl_CP(s, E, 0.3, pe); nm = "DCS_Rayl_CP"; break;
    }
    fprintf(OUT, "{\"k\":\"hop\",\"hist\":%ld,\"i\":%d,\"op\":\"Call\",\"arg\":", hid, stepno++); jstr(s); fprintf(OUT, ",\"fn\":\"%s\",\"E\":\"%g\",\"rho\":\"%g\",\"iarg\":0,\"slot\":%d,\"ok\":%d,\"id\":-1,\"kind\":\"none\",\"n\":0,\"d\":%ld,\"live\":%ld,\"files\":%ld,\"err\":%d,\"g\":0}\n", nm, E, rho, useslot, e == NULL, W_live - l0, W_live - live0, W_files, e != NULL);
  }
  else { int i = live_of(-1); if (i >= 0) release(i); return; }
  if (e) { l0 = W_live; xrl_clear_error(&e); ev("ClearError", "", 0, 1, 1, -1, K_NONE, 0, l0, 0); }
}
int cmd_c04(int argc, char **argv) {
  int nh = argc > 0 ? atoi(argv[0]) : 10, maxlen = argc > 1 ? atoi(argv[1]) : 100;
  W_fail_spare_errors = 1;
  if (getenv("XRL_SCRATCH_DIR")) scratchdir = getenv("XRL_SCRATCH_DIR");
  static char iobuf[1 << 16]; setvbuf(OUT, iobuf, _IOFBF, sizeof iobuf);       /* no allocation by stdio inside the measured windows */
  for (int h = 0; h < nh; h++) {
    hid = h; uint64_t seed = rnd64(); fflush(OUT);
    pid_t pid = fork();
    if (pid == 0) {
      /* every other history runs in a numeric locale that is not "C": code that saves and restores the locale allocates only then */
      if (h % 2) setlocale(LC_ALL, "C.utf8");
      RNG = seed; stepno = 0; live0 = W_live; memset(objs, 0, sizeof objs);
      fprintf(OUT, "{\"k\":\"reset\",\"hist\":%ld}\n", hid);
      int len = rndint(maxlen / 4 + 1, maxlen);
      for (int s = 0; s < len; s++) step();
      for (int i = 0; i < NSLOT; i++) if (objs[i].p) release(i);
      fprintf(OUT, "{\"k\":\"end\",\"hist\":%ld,\"live\":%ld,\"files\":%ld}\n", hid, W_live - live0, W_files); fflush(OUT);
      _exit(0);
    }
    int status = 0; waitpid(pid, &status, 0);
    if (!(WIFEXITED(status) && WEXITSTATUS(status) == 0)) { fprintf(OUT, "{\"k\":\"abort\",\"hist\":%ld,\"status\":%d,\"signal\":%d}\n", hid, WIFEXITED(status) ? WEXITSTATUS(status) : -1, WIFSIGNALED(status) ? WTERMSIG(status) : 0); fflush(OUT); }
  }
  return 0;
}
