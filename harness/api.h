#ifndef XRL_VERIF_API_H
#define XRL_VERIF_API_H
enum { SIG_I, SIG_II, SIG_ID, SIG_IID, SIG_IDD, SIG_IDDD, SIG_D, SIG_DD, SIG_DDD, SIG_SD, SIG_SDD, SIG_SDDD };
typedef struct { const char *name; int sig; void (*fn)(void); int mlo, mhi; } ApiFn;
extern ApiFn API_TABLE[];
extern const char *API_OTHER[];
/* generic call: ints in ia[], doubles in da[], string in s */
static inline double api_call(const ApiFn *f, const int *ia, const double *da, const char *s, xrl_error **e) {
  switch (f->sig) {
  case SIG_I: return ((double (*)(int, xrl_error **))f->fn)(ia[0], e);
  case SIG_II: return ((double (*)(int, int, xrl_error **))f->fn)(ia[0], ia[1], e);
  case SIG_ID: return ((double (*)(int, double, xrl_error **))f->fn)(ia[0], da[0], e);
  case SIG_IID: return ((double (*)(int, int, double, xrl_error **))f->fn)(ia[0], ia[1], da[0], e);
  case SIG_IDD: return ((double (*)(int, double, double, xrl_error **))f->fn)(ia[0], da[0], da[1], e);
  case SIG_IDDD: return ((double (*)(int, double, double, double, xrl_error **))f->fn)(ia[0], da[0], da[1], da[2], e);
  case SIG_D: return ((double (*)(double, xrl_error **))f->fn)(da[0], e);
  case SIG_DD: return ((double (*)(double, double, xrl_error **))f->fn)(da[0], da[1], e);
  case SIG_DDD: return ((double (*)(double, double, double, xrl_error **))f->fn)(da[0], da[1], da[2], e);
  case SIG_SD: return ((double (*)(const char *, double, xrl_error **))f->fn)(s, da[0], e);
  case SIG_SDD: return ((double (*)(const char *, double, double, xrl_error **))f->fn)(s, da[0], da[1], e);
  case SIG_SDDD: return ((double (*)(const char *, double, double, double, xrl_error **))f->fn)(s, da[0], da[1], da[2], e);
  }
  return 0.0;
}
static const int SIG_NI[] = {1, 2, 1, 2, 1, 1, 0, 0, 0, 0, 0, 0};
static const int SIG_ND[] = {0, 0, 1, 1, 2, 3, 1, 2, 3, 1, 2, 3};
static const int SIG_NS[] = {0, 0, 0, 0, 0, 0, 0, 0, 0, 1, 1, 1};
#endif
