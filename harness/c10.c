/* C10: grouped line energies and rates.  One composite event per Z: LineEnergy and RadRate over every line macro,
 * and (for the L-beta weights) CS_FluorLine of every L line just above each of the three L edges. */
#include "common.h"
static int curshell; static int curZ;
static double wfun(int Z, int line, xrl_error **e) {
  double edge = EdgeEnergy(Z, curshell, NULL);
  return CS_FluorLine(Z, line, edge + 0.1, e);
}
/* every (Z, macro) is asked once before the judged rows are computed (first pass, kept) and twice back to back after them: number of macros for which the three
 * answers (value bits, error or not) are not the same.  The judged row itself sits between them, so an answer that depends on what was asked before shows either
 * in the row (against the specification) or here. */
static double first_v[2][400]; static int first_ok[2][400];
static void first_pass(int which, xrl_f2 f, int Z, int lo, int hi) { for (int m = lo; m <= hi; m++) { xrl_error *e = NULL; first_v[which][m - lo] = f(Z, m, &e); first_ok[which][m - lo] = e == NULL; xrl_clear_error(&e); } }
static int repeats(int which, xrl_f2 f, int Z, int lo, int hi) {
  int bad = 0;
  for (int m = lo; m <= hi; m++) { xrl_error *e1 = NULL, *e2 = NULL; double v1 = f(Z, m, &e1), v2 = f(Z, m, &e2);
    if (memcmp(&v1, &v2, 8) || (e1 == NULL) != (e2 == NULL) || memcmp(&v1, &first_v[which][m - lo], 8) || (e1 == NULL) != first_ok[which][m - lo]) bad++;
    xrl_clear_error(&e1); xrl_clear_error(&e2); }
  return bad;
}
int cmd_c10(int argc, char **argv) {
  int zlo = -1, zhi = 122;
  if (argc >= 2) { zlo = atoi(argv[0]); zhi = atoi(argv[1]); }
  /* the history every element is asked in: each macro has been answered successfully for another element before */
  for (int m = -386; m <= 6; m++) { LineEnergy(82, m, NULL); RadRate(82, m, NULL); CS_FluorLine(82, m, 20.0, NULL); LineEnergy(26, m, NULL); RadRate(26, m, NULL); }
  for (int Z = zlo; Z <= zhi; Z++) {
    curZ = Z;
    first_pass(0, LineEnergy, Z, -386, 6); first_pass(1, RadRate, Z, -386, 6);
    fprintf(OUT, "{\"k\":\"lines\",\"Z\":%d,", Z);
    emit_row("E", LineEnergy, Z, -386, 6); fputc(',', OUT);
    emit_row("RR", RadRate, Z, -386, 6); fputc(',', OUT);
    curshell = L1_SHELL; emit_row("w1", wfun, Z, -113, -30); fputc(',', OUT);
    curshell = L2_SHELL; emit_row("w2", wfun, Z, -113, -30); fputc(',', OUT);
    curshell = L3_SHELL; emit_row("w3", wfun, Z, -113, -30);
    fprintf(OUT, ",\"repE\":%d,\"repRR\":%d", repeats(0, LineEnergy, Z, -386, 6), repeats(1, RadRate, Z, -386, 6));
    fputs("}\n", OUT);
  }
  return 0;
}
