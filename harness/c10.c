/* C10: grouped line energies and rates.  One composite event per Z: LineEnergy and RadRate over every line macro,
 * and (for the L-beta weights) CS_FluorLine of every L line just above each of the three L edges. */
#include "common.h"
static int curshell; static int curZ;
static double wfun(int Z, int line, xrl_error **e) {
  double edge = EdgeEnergy(Z, curshell, NULL);
  return CS_FluorLine(Z, line, edge + 0.1, e);
}
int cmd_c10(int argc, char **argv) {
  int zlo = -1, zhi = 122;
  if (argc >= 2) { zlo = atoi(argv[0]); zhi = atoi(argv[1]); }
  for (int Z = zlo; Z <= zhi; Z++) {
    curZ = Z;
    fprintf(OUT, "{\"k\":\"lines\",\"Z\":%d,", Z);
    emit_row("E", LineEnergy, Z, -386, 6); fputc(',', OUT);
    emit_row("RR", RadRate, Z, -386, 6); fputc(',', OUT);
    curshell = L1_SHELL; emit_row("w1", wfun, Z, -113, -30); fputc(',', OUT);
    curshell = L2_SHELL; emit_row("w2", wfun, Z, -113, -30); fputc(',', OUT);
    curshell = L3_SHELL; emit_row("w3", wfun, Z, -113, -30);
    fputs("}\n", OUT);
  }
  return 0;
}
