/* C08: Kissel XRF cross sections and the cascade.  One event per Z: primitives (yields, Auger yields, CK probabilities,
 * radiative rates, Auger rates, atomic weight); per energy: the 9 partial photo cross sections, the vacancy productions
 * P_X for the four variants computed step by step through the 32 exported helpers (each fed with the library's own inner
 * values), the shell cross sections of the 5 public variants in both units; at a few energies also all line cross sections. */
#include "common.h"
#include "xrayglob.h"
#include "xrf_cross_sections_aux.h"
static void pv(double v, xrl_error **e) { fprintf(OUT, "[%d,", *e == NULL); jd(v); fputc(']', OUT); xrl_clear_error(e); }
typedef double (*f3)(int, int, double, xrl_error **);
static void row3(const char *key, f3 f, int Z, double E, int lo, int hi) {
  fprintf(OUT, ",\"%s\":{\"lo\":%d,\"hi\":%d,\"ok\":[", key, lo, hi);
  int n = hi - lo + 1; double *v = malloc(n * sizeof(double));
  for (int m = lo; m <= hi; m++) { xrl_error *e = NULL; v[m - lo] = f(Z, m, E, &e); fprintf(OUT, "%s%d", m > lo ? "," : "", e == NULL); xrl_clear_error(&e); }
  fputs("],\"v\":[", OUT); for (int i = 0; i < n; i++) { if (i) fputc(',', OUT); jd(v[i]); } fputs("]}", OUT); free(v);
}
static const char *VN[] = {"pure", "rad", "auger", "full"};
/* vacancy productions through the exported helpers; P[0]=K .. P[8]=M5; ok flags */
static void chain(int Z, double E, int v, double *P, int *ok) {
  xrl_error *e = NULL;
#define STEP(i, call) do { P[i] = call; ok[i] = (e == NULL); xrl_clear_error(&e); } while (0)
  STEP(0, CS_Photo_Partial(Z, K_SHELL, E, &e));
  switch (v) {
  case 0: STEP(1, PL1_pure_kissel(Z, E, &e)); STEP(2, PL2_pure_kissel(Z, E, P[1], &e)); STEP(3, PL3_pure_kissel(Z, E, P[1], P[2], &e));
          STEP(4, PM1_pure_kissel(Z, E, &e)); STEP(5, PM2_pure_kissel(Z, E, P[4], &e)); STEP(6, PM3_pure_kissel(Z, E, P[4], P[5], &e)); STEP(7, PM4_pure_kissel(Z, E, P[4], P[5], P[6], &e)); STEP(8, PM5_pure_kissel(Z, E, P[4], P[5], P[6], P[7], &e)); break;
#define CASC(kind) \
          STEP(1, PL1_##kind##_cascade_kissel(Z, E, P[0], &e)); STEP(2, PL2_##kind##_cascade_kissel(Z, E, P[0], P[1], &e)); STEP(3, PL3_##kind##_cascade_kissel(Z, E, P[0], P[1], P[2], &e)); \
          STEP(4, PM1_##kind##_cascade_kissel(Z, E, P[0], P[1], P[2], P[3], &e)); STEP(5, PM2_##kind##_cascade_kissel(Z, E, P[0], P[1], P[2], P[3], P[4], &e)); \
          STEP(6, PM3_##kind##_cascade_kissel(Z, E, P[0], P[1], P[2], P[3], P[4], P[5], &e)); STEP(7, PM4_##kind##_cascade_kissel(Z, E, P[0], P[1], P[2], P[3], P[4], P[5], P[6], &e)); \
          STEP(8, PM5_##kind##_cascade_kissel(Z, E, P[0], P[1], P[2], P[3], P[4], P[5], P[6], P[7], &e));
  case 1: CASC(rad) break;
  case 2: CASC(auger) break;
  default: CASC(full) break;
  }
}
/* "c08 bounds": the elements at which the set of available primitives changes -- first and last element (and their outer neighbours) for which each
 * Coster-Kronig probability, fluorescence yield, Auger yield, jump factor and K..M5 edge has a value.  The quick tier always includes them. */
static void bound_of(const char *what, int idx, double (*f)(int, int, xrl_error **)) {
  int lo = 0, hi = 0; for (int Z = 1; Z <= 120; Z++) { double v = f(Z, idx, NULL); if (v > 0) { if (!lo) lo = Z; hi = Z; } }
  if (lo) fprintf(OUT, "{\"k\":\"bound\",\"what\":\"%s\",\"idx\":%d,\"lo\":%d,\"hi\":%d}\n", what, idx, lo, hi);
}
static double kissel_any(int Z, int shell, xrl_error **e) { double ed = EdgeEnergy(Z, shell, NULL); return ed > 0 ? CS_Photo_Partial(Z, shell, ed + 1.0, e) : 0.0; }
static int cmd_c08_bounds(void) {
  for (int t = 1; t <= 14; t++) bound_of("ck", t, CosKronTransProb);
  for (int sh = 0; sh < 9; sh++) { bound_of("yield", sh, FluorYield); bound_of("augeryield", sh, AugerYield); bound_of("jump", sh, JumpFactor); bound_of("edge", sh, EdgeEnergy); bound_of("partial", sh, kissel_any); }
  return 0;
}
int cmd_c08(int argc, char **argv) {
  if (argc > 0 && !strcmp(argv[0], "bounds")) return cmd_c08_bounds();
  int zlo = argc > 0 ? atoi(argv[0]) : 0, zhi = argc > 1 ? atoi(argv[1]) : 121; int thorough = argc > 2 && !strcmp(argv[2], "thorough");
  static const f3 SH[] = {CS_FluorShell_Kissel, CS_FluorShell_Kissel_Cascade, CS_FluorShell_Kissel_Nonradiative_Cascade, CS_FluorShell_Kissel_Radiative_Cascade, CS_FluorShell_Kissel_no_Cascade,
                          CSb_FluorShell_Kissel, CSb_FluorShell_Kissel_Cascade, CSb_FluorShell_Kissel_Nonradiative_Cascade, CSb_FluorShell_Kissel_Radiative_Cascade, CSb_FluorShell_Kissel_no_Cascade};
  static const f3 LN[] = {CS_FluorLine_Kissel, CS_FluorLine_Kissel_Cascade, CS_FluorLine_Kissel_Nonradiative_Cascade, CS_FluorLine_Kissel_Radiative_Cascade, CS_FluorLine_Kissel_no_Cascade,
                          CSb_FluorLine_Kissel, CSb_FluorLine_Kissel_Cascade, CSb_FluorLine_Kissel_Nonradiative_Cascade, CSb_FluorLine_Kissel_Radiative_Cascade, CSb_FluorLine_Kissel_no_Cascade};
  static const char *FN[] = {"plain", "full", "auger", "rad", "none", "b_plain", "b_full", "b_auger", "b_rad", "b_none"};
  for (int Z = zlo; Z <= zhi; Z++) {
    xrl_error *e = NULL;
    fprintf(OUT, "{\"k\":\"kxrf\",\"Z\":%d,\"aw\":", Z); pv(AtomicWeight(Z, &e), &e);
    fputs(",\"yield\":[", OUT); for (int s = 0; s < 9; s++) { if (s) fputc(',', OUT); pv(FluorYield(Z, s, &e), &e); }
    fputs("],\"ay\":[", OUT); for (int s = 0; s < 9; s++) { if (s) fputc(',', OUT); pv(AugerYield(Z, s, &e), &e); }
    fputs("],", OUT); emit_row("ck", CosKronTransProb, Z, 1, 14); fputc(',', OUT); emit_row("RR", RadRate, Z, -386, 6); fputc(',', OUT); emit_row("AR", AugerRate, Z, 0, 995);
    fputs(",\"at\":[", OUT);
    double el[120]; int ne = 0; el[ne++] = 0.0; el[ne++] = -1.0;
    for (int s = 0; s < 9; s++) { double ed = EdgeEnergy(Z, s, NULL); if (ed > 0) { el[ne++] = ed; el[ne++] = ed * (1 - 1e-6); el[ne++] = ed * (1 + 1e-6); if (thorough) { el[ne++] = ed * (1 - 1e-2); el[ne++] = ed * (1 + 1e-2); } } }
    { double lo = 0.1, hi = 200.0; int nlog = thorough ? 12 : 6; for (int i = 0; i <= nlog; i++) el[ne++] = lo * pow(hi / lo, (double)i / nlog); el[ne++] = 1500.0; }
    /* the top of the sub-shell tables themselves (K and M5), read from the library's own abscissae: just inside, just outside, and the stretch between the log grid and the top */
    if (Z >= 1 && Z <= ZMAX) for (int s = 0; s < 9; s += 8) if (NE_Photo_Partial_Kissel[Z][s] > 1) { double top = exp(E_Photo_Partial_Kissel[Z][s][NE_Photo_Partial_Kissel[Z][s] - 1]); el[ne++] = top * (1 - 1e-6); el[ne++] = top * (1 + 1e-3); if (top > 200.0) { el[ne++] = 0.5 * (200.0 + top); el[ne++] = 200.0 + 0.9 * (top - 200.0); } }
    for (int i = 0; i < ne; i++) {
      double E = el[i];
      fprintf(OUT, "%s{\"E\":", i ? "," : ""); jd(E);
      fputs(",\"sig\":[", OUT); for (int s = 0; s < 9; s++) { if (s) fputc(',', OUT); pv(CS_Photo_Partial(Z, s, E, &e), &e); }
      fputs("],\"P\":{", OUT);
      for (int v = 0; v < 4; v++) { double P[9]; int ok[9]; chain(Z, E, v, P, ok); fprintf(OUT, "%s\"%s\":[", v ? "," : "", VN[v]); for (int s = 0; s < 9; s++) { fprintf(OUT, "%s[%d,", s ? "," : "", ok[s]); jd(P[s]); fputc(']', OUT); } fputc(']', OUT); }
      fputs("},\"sh\":{", OUT);
      for (int k = 0; k < 10; k++) { fprintf(OUT, "%s\"%s\":[", k ? "," : "", FN[k]); for (int s = -1; s <= 10; s++) { if (s > -1) fputc(',', OUT); pv(SH[k](Z, s, E, &e), &e); } fputc(']', OUT); }
      fputs("}", OUT);
      int lines = (i >= 2 && ((i - 2) % (thorough ? 5 : 9) == 0));
      fprintf(OUT, ",\"haslines\":%d", lines);
      if (lines) for (int k = 0; k < 10; k++) { char key[24]; snprintf(key, sizeof key, "ln_%s", FN[k]); row3(key, LN[k], Z, E, -386, 6); }
      fputc('}', OUT);
    }
    fputs("]}\n", OUT);
  }
  return 0;
}
