#include "common.h"
FILE *OUT; uint64_t RNG;
struct cmd { const char *name; int (*fn)(int, char **); };
static struct cmd cmds[] = {
  {"c01", cmd_c01},
  {"c11", cmd_c11},
  {"c10", cmd_c10},
  {"c15", cmd_c15},
  {"c14", cmd_c14},
  {"c03", cmd_c03},
  {"c03e", cmd_c03e},
  {"c04", cmd_c04},
  {"c04f", cmd_c04f},
  {"c02", cmd_c02},
  {"c05", cmd_c05},
  {"c12", cmd_c12},
  {"c09", cmd_c09},
  {"c13", cmd_c13},
  {"c07", cmd_c07},
  {"c06", cmd_c06},
  {"c08", cmd_c08},
  {"c16", cmd_c16},
  {"c16s", cmd_c16s},
  {"c17", cmd_c17},
  {"c19", cmd_c19},
  {NULL, NULL}
};
int main(int argc, char **argv) {
  const char *seed = getenv("VERIF_SEED");
  RNG = seed ? strtoull(seed, NULL, 10) : 1;
  OUT = stdout;
  if (argc < 2) { fprintf(stderr, "usage: xrl_drive <cmd> [args]\n"); return 2; }
  for (struct cmd *c = cmds; c->name; c++)
    if (strcmp(c->name, argv[1]) == 0) { int rv = c->fn(argc - 2, argv + 2); fflush(OUT); return rv; }
  fprintf(stderr, "unknown command %s\n", argv[1]); return 2;
}
