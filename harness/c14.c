/* C14 (shared with C04): crystal collections under operation histories.
 *
 * Two sources of histories, one interpreter:
 *   - programs written by TLC (one per transition of the model graph, or random walks), read from a file;
 *   - seeded random histories generated here.
 * Every history runs in a forked child (so that insertions into the built-in collection do not leak into
 * the next history).  After each operation the child logs the result and the projection of the touched
 * collection: n_crystal, n_alloc (public fields) and the listed names.
 *
 * Crystals are referred to through a POOL: "def" events define pool entries (name, cell, atoms);
 * a crystal handed out by the library is projected to the id of the pool entry it is bitwise equal to
 * (name, cell, atoms) plus its volume field.  No judgement is made here.
 *
 * program format (one op per line):
 *   H <id>                         start of history
 *   P <k>                          pre-fill the built-in collection up to CRYSTALARRAY_MAX - k
 *   I <h> <n>                      Crystal_ArrayInit(n) -> handle slot h
 *   A <h> <pool>                   Crystal_AddCrystal(pool entry, slot h | 0 = built-in)
 *   R <h> <bad> <at> <k> <pool>*k  Crystal_ReadFile of a file holding those entries; bad: 0 none, >0 corruption kind applied to entry <at>
 *   G <h> <pool> <id>              Crystal_GetCrystal(name of pool entry) -> copy slot id
 *   L <h>                          Crystal_GetCrystalsList
 *   D <h>                          audit: list + lookup of every listed name
 *   M <src> <id>                   Crystal_MakeCopy(copy src) -> copy slot id
 *   U <id>                         mutate copy id in place
 *   F <id>                         Crystal_Free(copy id)
 *   X <h>                          Crystal_ArrayFree(slot h)
 *   E                              end of history (everything still owned is released)
 */
#include "common.h"
#include <unistd.h>
#include <sys/wait.h>
/* crystal names as the spec sees them: printable ASCII as it is; '~', DEL and every byte >= 0x80 as "~XX" (upper-case hex).  The encoding is injective
 * and keeps the strcmp (unsigned byte) order, which is all the specification needs of a name: equality and order. */
static void jname(const char *s) {
  if (!s) { fputs("\"\"", OUT); return; }
  fputc('"', OUT);
  for (; *s; s++) { unsigned char c = (unsigned char)*s;
    if (c == '"' || c == '\\') { fputc('\\', OUT); fputc(c, OUT); } else if (c < 0x20) fprintf(OUT, "\\u%04x", c); else if (c >= 0x7e) fprintf(OUT, "~%02X", c); else fputc(c, OUT); }
  fputc('"', OUT);
}

#define MAXPOOL (1 << 18)
#define MAXH 8
#define MAXC 16
typedef struct { char name[24]; double cell[6]; int n; Crystal_Atom atoms[6]; int builtin; double vol; } PoolEnt;
static PoolEnt pool[MAXPOOL]; static int npool = 0;
static Crystal_Array *arrs[MAXH]; static Crystal_Struct *copies[MAXC];
static const char *scratch = "/tmp";
static long hist_id = 0; static int step = 0;

static void def_event(int id) {
  PoolEnt *p = &pool[id];
  fprintf(OUT, "{\"k\":\"def\",\"id\":%d,\"name\":", id); jname(p->name);
  fputs(",\"cell\":[", OUT); for (int i = 0; i < 6; i++) { if (i) fputc(',', OUT); jd(p->cell[i]); }
  fprintf(OUT, "],\"builtin\":%d,\"vol\":", p->builtin); jd(p->vol);
  fprintf(OUT, ",\"natom\":%d}\n", p->n);
}
static int pool_add(const char *name, const double *cell, int n, const Crystal_Atom *atoms, int builtin, double vol) {
  if (npool >= MAXPOOL) { fprintf(stderr, "pool full\n"); exit(3); }
  PoolEnt *p = &pool[npool]; memset(p, 0, sizeof *p);
  snprintf(p->name, sizeof p->name, "%s", name); memcpy(p->cell, cell, sizeof p->cell);
  p->n = n > 6 ? 6 : n; memcpy(p->atoms, atoms, p->n * sizeof(Crystal_Atom)); p->builtin = builtin; p->vol = vol;
  def_event(npool);
  return npool++;
}
static int same_atoms(const Crystal_Atom *a, const Crystal_Atom *b, int n) {
  for (int i = 0; i < n; i++) if (a[i].Zatom != b[i].Zatom || memcmp(&a[i].fraction, &b[i].fraction, 8) || memcmp(&a[i].x, &b[i].x, 8) || memcmp(&a[i].y, &b[i].y, 8) || memcmp(&a[i].z, &b[i].z, 8)) return 0;
  return 1;
}
/* projection of a crystal handed out by the library: which pool entry is it? */
static int project(const Crystal_Struct *c) {
  for (int i = 0; i < npool; i++) {
    PoolEnt *p = &pool[i];
    if (strcmp(p->name, c->name)) continue;
    double cell[6] = {c->a, c->b, c->c, c->alpha, c->beta, c->gamma};
    if (memcmp(cell, p->cell, sizeof cell)) continue;
    int n = c->n_atom > 6 ? 6 : c->n_atom;
    if ((p->builtin ? n : c->n_atom) != p->n && !(p->builtin && p->n == 6)) continue;
    if (!same_atoms(c->atom, p->atoms, n < p->n ? n : p->n)) continue;
    return i;
  }
  return -1;
}
static void j_proj(const Crystal_Struct *c) {
  if (!c) { fputs("{\"pool\":-9,\"name\":\"\",\"vol\":[0,0]}", OUT); return; }
  fprintf(OUT, "{\"pool\":%d,\"name\":", project(c)); jname(c->name); fputs(",\"vol\":", OUT); jd(c->volume); fputc('}', OUT);
}
static void fill_struct(Crystal_Struct *c, const PoolEnt *p, char *namebuf) {
  strcpy(namebuf, p->name); c->name = namebuf;
  c->a = p->cell[0]; c->b = p->cell[1]; c->c = p->cell[2]; c->alpha = p->cell[3]; c->beta = p->cell[4]; c->gamma = p->cell[5];
  c->volume = -1.0;                    /* stated volume deliberately wrong: the collection must recompute it */
  c->n_atom = p->n; c->atom = (Crystal_Atom *)p->atoms;
}
static Crystal_Array *target(int h) { return h == 0 ? NULL : arrs[h]; }
static void j_state(int h) {          /* projection of the touched collection */
  int n = -1; xrl_error *e = NULL; char **l = Crystal_GetCrystalsList(target(h), &n, &e);
  extern Crystal_Array Crystal_arr;
  Crystal_Array *a = h == 0 ? &Crystal_arr : arrs[h];
  fprintf(OUT, ",\"st\":{\"n\":%d,\"alloc\":%d,\"listed\":%d,\"names\":[", a->n_crystal, a->n_alloc, n);
  for (int i = 0; l && l[i]; i++) { if (i) fputc(',', OUT); jname(l[i]); xrlFree(l[i]); }
  fputs("]}", OUT); xrlFree(l); xrl_clear_error(&e);
}
static void ev_open(const char *op) { fprintf(OUT, "{\"k\":\"op\",\"hist\":%ld,\"i\":%d,\"op\":\"%s\"", hist_id, step++, op); }
static void ev_err(xrl_error **e) { fprintf(OUT, ",\"code\":%d,\"msg\":", *e ? (int)(*e)->code : -1); jstr(*e ? (*e)->message : ""); xrl_clear_error(e); }

static const char *badnames[] = {"none", "noname", "noucell", "dupucell", "shortucell", "badatom", "eof", "nofile"};
static void write_file(const char *path, int bad, int at, int k, const int *ids) {
  FILE *f = fopen(path, "w");
  fputs("#F generated\n#C comment\n\n", f);
  for (int i = 0; i < k; i++) {
    PoolEnt *p = &pool[ids[i]]; int b = (i == at) ? bad : 0;
    if (b == 1) fprintf(f, "#S %d\n", i + 1); else fprintf(f, "#S %d %s\n", i + 1, p->name);
    fputs("#N 5\n", f);
    if (b != 2) {
      if (b == 4) fprintf(f, "#UCELL %.17g %.17g %.17g %.17g %.17g\n", p->cell[0], p->cell[1], p->cell[2], p->cell[3], p->cell[4]);
      else fprintf(f, "#UCELL %.17g %.17g %.17g %.17g %.17g %.17g\n", p->cell[0], p->cell[1], p->cell[2], p->cell[3], p->cell[4], p->cell[5]);
      if (b == 3) fprintf(f, "#UCELL %.17g %.17g %.17g %.17g %.17g %.17g\n", p->cell[0], p->cell[1], p->cell[2], p->cell[3], p->cell[4], p->cell[5]);
    }
    fputs("#L  AtomicNumber  Fraction  X  Y  Z\n", f);
    if (b == 6) { fclose(f); return; }          /* file ends before any atom line */
    if (b == 5 && p->n == 0) fputs("14 1 oops 0.5 0.5\n", f);        /* a cell without atoms gets one (unparsable) atom line */
    for (int j = 0; j < p->n; j++) {
      if (b == 5 && j == p->n - 1) fprintf(f, "%d %.17g oops %.17g %.17g\n", p->atoms[j].Zatom, p->atoms[j].fraction, p->atoms[j].y, p->atoms[j].z);
      else fprintf(f, "%d %.17g %.17g %.17g %.17g\n", p->atoms[j].Zatom, p->atoms[j].fraction, p->atoms[j].x, p->atoms[j].y, p->atoms[j].z);
    }
  }
  fputs("#EOF\n", f);
  fclose(f);
}

static void do_op(char *line) {
  char op = line[0]; int a[40]; int na = 0; char *p = line + 1, *q;
  for (;;) { long v = strtol(p, &q, 10); if (q == p) break; a[na++] = (int)v; p = q; if (na >= 40) break; }
  xrl_error *e = NULL;
  if ((op == 'A' || op == 'R' || op == 'G' || op == 'L' || op == 'D' || op == 'X') && a[0] > 0 && arrs[a[0]] == NULL) return;
  switch (op) {
  case 'P': {                                   /* make the built-in collection (nearly) full: a[0] free places */
    extern Crystal_Array Crystal_arr; int added = 0;
    if (na >= 2 && a[1] == 1) {
      /* seam: the capacity of the built-in collection is the public field n_alloc of the global array */
      Crystal_arr.n_alloc = Crystal_arr.n_crystal + a[0];
    } else {
      double cell[6] = {4, 4, 4, 90, 90, 90}; Crystal_Atom at = {14, 1.0, 0, 0, 0}; char nb[24];
      while (Crystal_arr.n_crystal < CRYSTALARRAY_MAX - a[0]) {
        Crystal_Struct c; PoolEnt pe; memset(&pe, 0, sizeof pe); snprintf(pe.name, sizeof pe.name, "zzfill%04d", added++); memcpy(pe.cell, cell, sizeof cell); pe.n = 1; pe.atoms[0] = at;
        fill_struct(&c, &pe, nb); if (!Crystal_AddCrystal(&c, NULL, &e)) break;
      }
    }
    ev_open("Prefill"); fprintf(OUT, ",\"room\":%d,\"seam\":%d,\"added\":%d", a[0], na >= 2 && a[1] == 1, added); ev_err(&e); j_state(0); fputs("}\n", OUT); break; }
  case 'I': { arrs[a[0]] = Crystal_ArrayInit(a[1], &e);
    ev_open("ArrayInit"); fprintf(OUT, ",\"h\":%d,\"arg\":%d,\"ok\":%d", a[0], a[1], arrs[a[0]] != NULL); ev_err(&e);
    if (arrs[a[0]]) j_state(a[0]); fputs("}\n", OUT); break; }
  case 'A': { Crystal_Struct c; char nb[24]; fill_struct(&c, &pool[a[1]], nb); int rv = Crystal_AddCrystal(&c, target(a[0]), &e);
    ev_open("Add"); fprintf(OUT, ",\"h\":%d,\"c\":%d,\"ok\":%d", a[0], a[1], rv); ev_err(&e); j_state(a[0]); fputs("}\n", OUT); break; }
  case 'R': { char path[256]; snprintf(path, sizeof path, "%s/xrl-c14-%d-%ld-%d.dat", scratch, (int)getpid(), hist_id, step);
    int bad = a[1], at = a[2], k = a[3];
    if (bad != 7) write_file(path, bad, at, k, a + 4);
    int rv = Crystal_ReadFile(path, target(a[0]), &e);
    ev_open("ReadFile"); fprintf(OUT, ",\"h\":%d,\"bad\":\"%s\",\"at\":%d,\"entries\":[", a[0], badnames[bad], at);
    for (int i = 0; i < k; i++) fprintf(OUT, "%s%d", i ? "," : "", a[4 + i]);
    fprintf(OUT, "],\"ok\":%d", rv); ev_err(&e); j_state(a[0]); fputs("}\n", OUT); unlink(path); break; }
  case 'G': { Crystal_Struct *c = Crystal_GetCrystal(pool[a[1]].name, target(a[0]), &e); copies[a[2]] = c;
    ev_open("Get"); fprintf(OUT, ",\"h\":%d,\"name\":", a[0]); jname(pool[a[1]].name); fprintf(OUT, ",\"id\":%d,\"ok\":%d,\"r\":", a[2], c != NULL); j_proj(c); ev_err(&e); j_state(a[0]); fputs("}\n", OUT); break; }
  case 'L': { ev_open("List"); fprintf(OUT, ",\"h\":%d,\"ok\":1", a[0]); j_state(a[0]); fputs("}\n", OUT); break; }
  case 'D': { int n; char **l = Crystal_GetCrystalsList(target(a[0]), &n, &e);
    ev_open("Audit"); fprintf(OUT, ",\"h\":%d,\"ok\":1,\"all\":[", a[0]);
    for (int i = 0; l && l[i]; i++) { Crystal_Struct *c = Crystal_GetCrystal(l[i], target(a[0]), NULL); if (i) fputc(',', OUT); j_proj(c); Crystal_Free(c); xrlFree(l[i]); }
    fputs("]", OUT); xrlFree(l); ev_err(&e); j_state(a[0]); fputs("}\n", OUT); break; }
  case 'M': { if (!copies[a[0]]) break; Crystal_Struct *c = Crystal_MakeCopy(copies[a[0]], &e); copies[a[1]] = c;
    ev_open("MakeCopy"); fprintf(OUT, ",\"src\":%d,\"id\":%d,\"ok\":%d,\"r\":", a[0], a[1], c != NULL); j_proj(c); ev_err(&e); fputs("}\n", OUT); break; }
  case 'U': { Crystal_Struct *c = copies[a[0]]; if (!c) break; c->name[0] = '#'; c->a = -1.0; c->volume = -7.0; if (c->n_atom > 0) { c->atom[0].Zatom = 99; c->atom[0].x = 0.123; }
    ev_open("Mutate"); fprintf(OUT, ",\"id\":%d,\"ok\":1}\n", a[0]); break; }
  case 'F': { if (!copies[a[0]]) break; Crystal_Free(copies[a[0]]); copies[a[0]] = NULL; ev_open("FreeCopy"); fprintf(OUT, ",\"id\":%d,\"ok\":1}\n", a[0]); break; }
  case 'X': { Crystal_ArrayFree(arrs[a[0]]); arrs[a[0]] = NULL; ev_open("ArrayFree"); fprintf(OUT, ",\"h\":%d,\"ok\":1}\n", a[0]); break; }
  default: break;
  }
  fflush(OUT);
}
static void end_history(void) {
  for (int i = 0; i < MAXC; i++) if (copies[i]) { Crystal_Free(copies[i]); copies[i] = NULL; }
  for (int i = 0; i < MAXH; i++) if (arrs[i]) { Crystal_ArrayFree(arrs[i]); arrs[i] = NULL; }
}
/* run one history (a block of op lines) in a child; the parent only relays */
static void run_history(char **lines, int n) {
  fflush(OUT);
  pid_t pid = fork();
  if (pid == 0) {
    step = 0;
    fprintf(OUT, "{\"k\":\"reset\",\"hist\":%ld,\"builtin\":[", hist_id);
    { int nb; char **l = Crystal_GetCrystalsList(NULL, &nb, NULL); for (int i = 0; l && l[i]; i++) { if (i) fputc(',', OUT); jname(l[i]); xrlFree(l[i]); } xrlFree(l); }
    fputs("]}\n", OUT);
    for (int i = 0; i < n; i++) do_op(lines[i]);
    end_history();
    fprintf(OUT, "{\"k\":\"end\",\"hist\":%ld}\n", hist_id); fflush(OUT);
    _exit(0);
  }
  int status = 0; waitpid(pid, &status, 0);
  if (!(WIFEXITED(status) && WEXITSTATUS(status) == 0)) {
    fprintf(OUT, "{\"k\":\"abort\",\"hist\":%ld,\"status\":%d,\"signal\":%d}\n", hist_id, WIFEXITED(status) ? WEXITSTATUS(status) : -1, WIFSIGNALED(status) ? WTERMSIG(status) : 0);
    fflush(OUT);
  }
}
static void define_builtin(void) {
  int n; char **l = Crystal_GetCrystalsList(NULL, &n, NULL);
  for (int i = 0; l && l[i]; i++) {
    Crystal_Struct *c = Crystal_GetCrystal(l[i], NULL, NULL);
    double cell[6] = {c->a, c->b, c->c, c->alpha, c->beta, c->gamma};
    pool_add(c->name, cell, c->n_atom, c->atom, 1, c->volume);
    Crystal_Free(c); xrlFree(l[i]);
  }
  xrlFree(l);
}
static int random_entry(int nnames) {            /* a fresh pool entry with a name from a small pool and a random cell */
  char name[24]; double cell[6]; Crystal_Atom at[4]; int n = rndint(1, 4);
  int k = rndint(0, nnames - 1);
  if (k % 7 == 0) snprintf(name, sizeof name, "N%02d_longer_name_x%d", k, k); else if (k % 5 == 1) snprintf(name, sizeof name, "\xc3\xa9%02d", k); else snprintf(name, sizeof name, "%c%02d", "NnZa"[k % 4], k);
  for (int i = 0; i < 3; i++) cell[i] = 2.0 + rndint(0, 640) / 64.0;      /* short exact decimals: the reader takes lines of < 100 bytes */
  if (rndint(0, 2) == 0) { cell[3] = cell[4] = cell[5] = 90.0; } else { for (int i = 3; i < 6; i++) cell[i] = 70.0 + rndint(0, 320) / 8.0; }
  for (int i = 0; i < n; i++) { at[i].Zatom = rndint(1, 92); at[i].fraction = rndint(0, 3) ? 1.0 : 0.5; at[i].x = rndint(0, 1024) / 1024.0; at[i].y = rndint(0, 1024) / 1024.0; at[i].z = rndint(0, 1024) / 1024.0; }
  return pool_add(name, cell, n, at, 0, 0.0);
}

/* c14 prog <file> | c14 rand <nhist> <maxlen> */
int cmd_c14(int argc, char **argv) {
  if (getenv("XRL_SCRATCH_DIR")) scratch = getenv("XRL_SCRATCH_DIR");
  setvbuf(OUT, NULL, _IOFBF, 1 << 16);
  define_builtin();
  if (argc >= 2 && strcmp(argv[0], "prog") == 0) {
    /* fixed pool for model programs: names A..F x 2 geometries -> pool ids base + (name*2 + geom) */
    int base = npool;
    for (int nm = 0; nm < 6; nm++) for (int g = 0; g < 2; g++) {
      char name[8]; snprintf(name, sizeof name, "%c", 'A' + nm); if (nm % 3 == 2) snprintf(name, sizeof name, "\xce\xb1%c", 'A' + nm);      /* every third name starts with a byte >= 0x80 */
      double cell[6] = {3.0 + nm + 0.25 * g, 4.0 + 0.5 * g, 5.0, g ? 80.0 : 90.0, 90.0, g ? 100.0 : 90.0};
      Crystal_Atom at[2] = {{14, 1.0, 0, 0, 0}, {8, 0.5, 0.25, 0.5 * g, 0.75}};
      pool_add(name, cell, 2 * g, at, 0, 0.0);          /* geometry 0: a cell with no atoms (the atom pointer of the caller's struct stays non-NULL) */
    }
    fprintf(OUT, "{\"k\":\"poolbase\",\"base\":%d}\n", base);
    FILE *f = fopen(argv[1], "r"); if (!f) { perror(argv[1]); return 2; }
    char *buf = NULL; size_t cap = 0; char *lines[512]; int n = 0;
    while (getline(&buf, &cap, f) > 0) {
      if (buf[0] == 'H') { if (n) { run_history(lines, n); for (int i = 0; i < n; i++) free(lines[i]); n = 0; } hist_id = atol(buf + 1); continue; }
      if (buf[0] == 'E') { run_history(lines, n); for (int i = 0; i < n; i++) free(lines[i]); n = 0; continue; }
      if (n < 512) {
        /* pool references in programs are relative to base: rewrite A/G/R arguments */
        char tmp[1024]; char op = buf[0]; int a[40], na = 0; char *p = buf + 1, *q;
        for (;;) { long v = strtol(p, &q, 10); if (q == p) break; a[na++] = (int)v; p = q; if (na >= 40) break; }
        if (op == 'A' || op == 'G') a[1] += base;
        if (op == 'R') for (int i = 0; i < a[3]; i++) a[4 + i] += base;
        int o = snprintf(tmp, sizeof tmp, "%c", op); for (int i = 0; i < na; i++) o += snprintf(tmp + o, sizeof tmp - o, " %d", a[i]);
        lines[n++] = strdup(tmp);
      }
    }
    if (n) run_history(lines, n);
    fclose(f); free(buf);
    return 0;
  }
  if (argc >= 2 && strcmp(argv[0], "grow") == 0) {
    /* one long history: a user array grown far beyond the capacity of the built-in collection (which is a limit of that collection only),
     * then files read into it, an audit and look-ups */
    int target = atoi(argv[1]); if (target > 900) target = 900;
    static char *lines[1024]; int n = 0; char tmp[256]; int ids[1024]; int nid = 0;
    hist_id = 3000000;
    snprintf(tmp, sizeof tmp, "I 1 0"); lines[n++] = strdup(tmp);
    for (int i = 0; i < target; i++) { ids[nid] = random_entry(1000000); snprintf(tmp, sizeof tmp, "A 1 %d", ids[nid]); nid++; lines[n++] = strdup(tmp); if (i % 100 == 99) { snprintf(tmp, sizeof tmp, "D 1"); lines[n++] = strdup(tmp); } }
    for (int f = 0; f < 3; f++) { int k = 4; int o = snprintf(tmp, sizeof tmp, "R 1 %d 0 %d", f == 1 ? 2 : 0, k); for (int i = 0; i < k; i++) o += snprintf(tmp + o, sizeof tmp - o, " %d", random_entry(1000000)); lines[n++] = strdup(tmp); }
    snprintf(tmp, sizeof tmp, "D 1"); lines[n++] = strdup(tmp);
    for (int i = 0; i < 4; i++) { snprintf(tmp, sizeof tmp, "G 1 %d %d", ids[(i * 211) % nid], i); lines[n++] = strdup(tmp); }
    snprintf(tmp, sizeof tmp, "X 1"); lines[n++] = strdup(tmp);
    run_history(lines, n); for (int i = 0; i < n; i++) free(lines[i]);
    return 0;
  }
  if (argc >= 3 && strcmp(argv[0], "rand") == 0) {
    int nh = atoi(argv[1]), maxlen = atoi(argv[2]);
    for (int h = 0; h < nh; h++) {
      hist_id = 1000000 + h;
      int len = rndint(maxlen / 4 > 0 ? maxlen / 4 : 1, maxlen), nnames = rndint(3, 40);
      char *lines[1024]; int n = 0; char tmp[512];
      int live[MAXH] = {0}, cplive[MAXC] = {0}; int mine[256]; int nmine = 0;     /* pool ids created in this history */
      int fillb = rndint(0, 19) == 0;      /* 5% of histories: built-in collection nearly full */
      if (fillb) { snprintf(tmp, sizeof tmp, "P %d", rndint(0, 3)); lines[n++] = strdup(tmp); }
      for (int s = 0; s < len && n < 1000; s++) {
        int r = rndint(0, 99); int h1 = rndint(1, 3); int tgt = rndint(0, 9) == 0 ? 0 : h1;
        if (tgt && !live[tgt]) { snprintf(tmp, sizeof tmp, "I %d %d", tgt, rndint(0, 14) - 1 < 0 ? (rndint(0, 3) ? 0 : -1) : rndint(0, 12)); lines[n++] = strdup(tmp);
          if (strstr(tmp, " -1")) continue; live[tgt] = 1; continue; }
        if (r < 40) { int id = (nmine && rndint(0, 3) == 0) ? mine[rndint(0, nmine - 1)] : random_entry(nnames); if (nmine < 256) mine[nmine++] = id;
          snprintf(tmp, sizeof tmp, "A %d %d", tgt, id); }
        else if (r < 52) { int k = rndint(1, 4), bad = rndint(0, 2) ? 0 : rndint(1, 7), at = rndint(0, k - 1); int o = snprintf(tmp, sizeof tmp, "R %d %d %d %d", tgt, bad, at, k);
          for (int i = 0; i < k; i++) { int id = (nmine && rndint(0, 5) == 0) ? mine[rndint(0, nmine - 1)] : random_entry(nnames); if (nmine < 256) mine[nmine++] = id; o += snprintf(tmp + o, sizeof tmp - o, " %d", id); } }
        else if (r < 67) { int c = rndint(0, MAXC - 1); if (cplive[c] || !nmine) { snprintf(tmp, sizeof tmp, "L %d", tgt); } else { int id = rndint(0, 9) ? mine[rndint(0, nmine - 1)] : rndint(0, 37); snprintf(tmp, sizeof tmp, "G %d %d %d", tgt, id, c); cplive[c] = 1; } }
        else if (r < 72) snprintf(tmp, sizeof tmp, "L %d", tgt);
        else if (r < 80) snprintf(tmp, sizeof tmp, "D %d", tgt);
        else if (r < 92) { int c = rndint(0, MAXC - 1); if (cplive[c] != 1) snprintf(tmp, sizeof tmp, "L %d", tgt); else { int k = rndint(0, 2); if (k == 0) { snprintf(tmp, sizeof tmp, "U %d", c); } else if (k == 1) { snprintf(tmp, sizeof tmp, "F %d", c); cplive[c] = 0; } else { int d = rndint(0, MAXC - 1); if (cplive[d]) snprintf(tmp, sizeof tmp, "U %d", c); else { snprintf(tmp, sizeof tmp, "M %d %d", c, d); cplive[d] = 1; } } } }
        else if (r < 95 && tgt) { snprintf(tmp, sizeof tmp, "X %d", tgt); live[tgt] = 0; }
        else snprintf(tmp, sizeof tmp, "D %d", tgt);
        lines[n++] = strdup(tmp);
        /* a Get may fail: whether a slot really holds a copy is only known at run time; the interpreter skips copy ops on empty slots */
      }
      for (int t = 0; t <= 3; t++) if (t == 0 || live[t]) { snprintf(tmp, sizeof tmp, "D %d", t); lines[n++] = strdup(tmp); }
      run_history(lines, n);
      for (int i = 0; i < n; i++) free(lines[i]);
    }
    return 0;
  }
  if (argc >= 2 && strcmp(argv[0], "fuzz") == 0) {
    /* damaged files: a well-formed file of 1..4 definitions with one to three bytes deleted, duplicated or replaced, read into a user array that
     * already holds two crystals (and, every eighth time, into the built-in collection).  Whatever the reader makes of the file, the statement
     * fixes what may happen to the collection: refused => unchanged; accepted => old members kept, names sorted and unique, every listed name retrievable. */
    int n = atoi(argv[1]); static const char REP[] = "#SUCEL 0123456789.-+\n\t\r\0xZ"; char path[300];
    for (int it = 0; it < n; it++) {
      fflush(OUT); pid_t pid = fork();
      if (pid == 0) {
        RNG = RNG * 6364136223846793005ULL + (uint64_t)it * 1442695040888963407ULL + 1;
        int tgt_builtin = (it % 8 == 7); Crystal_Array *ua = tgt_builtin ? NULL : Crystal_ArrayInit(rndint(0, 3), NULL);
        int ids[6]; for (int i = 0; i < 6; i++) ids[i] = random_entry(30);
        if (!tgt_builtin) for (int i = 0; i < 2; i++) { Crystal_Struct c; char nb[24]; fill_struct(&c, &pool[ids[i]], nb); Crystal_AddCrystal(&c, ua, NULL); }
        int k = rndint(1, 4); snprintf(path, sizeof path, "%s/xrl-c14f-%d.dat", scratch, (int)getpid()); write_file(path, 0, 0, k, ids + 2 - (rndint(0, 3) == 0));
        FILE *f = fopen(path, "rb"); static char buf[1 << 16]; size_t len = fread(buf, 1, sizeof buf - 8, f); fclose(f);
        for (int m = rndint(1, 3); m > 0 && len > 2; m--) { size_t pos = (size_t)rndint(0, (int)len - 1); int how = rndint(0, 3);
          if (how == 0) { memmove(buf + pos, buf + pos + 1, len - pos - 1); len--; } else if (how == 1) { memmove(buf + pos + 1, buf + pos, len - pos); len++; } else if (how == 2) buf[pos] = REP[rndint(0, (int)sizeof REP - 2)];
          else { static const char RUN[] = "abcXYZ0123456789(),.:-#"; int L = rndint(22, 140);           /* a long run without blanks: tokens longer than any fixed buffer of the reader */
            if (len + (size_t)L < sizeof buf - 8) { memmove(buf + pos + L, buf + pos, len - pos); for (int i = 0; i < L; i++) buf[pos + i] = RUN[rndint(0, (int)sizeof RUN - 2)]; len += (size_t)L; } } }
        f = fopen(path, "wb"); fwrite(buf, 1, len, f); fclose(f);
        int n0 = -1, n1 = -1; char **before = Crystal_GetCrystalsList(ua, &n0, NULL);
        extern Crystal_Array Crystal_arr; Crystal_Array *a = tgt_builtin ? &Crystal_arr : ua; int alloc0 = a->n_alloc;
        xrl_error *e = NULL; int rv = Crystal_ReadFile(path, ua, &e); unlink(path);
        char **after = Crystal_GetCrystalsList(ua, &n1, NULL);
        fprintf(OUT, "{\"k\":\"fuzz\",\"it\":%d,\"builtin\":%d,\"ok\":%d,\"err\":%d,\"n\":%d,\"alloc\":[%d,%d],\"before\":[", it, tgt_builtin, rv, e != NULL, a->n_crystal, alloc0, a->n_alloc);
        for (int i = 0; i < n0; i++) { if (i) fputc(',', OUT); jname(before[i]); } fputs("],\"after\":[", OUT);
        int allget = 1; for (int i = 0; i < n1; i++) { if (i) fputc(',', OUT); jname(after[i]); Crystal_Struct *c = Crystal_GetCrystal(after[i], ua, NULL); if (!c || strcmp(c->name, after[i])) allget = 0; Crystal_Free(c); }
        fprintf(OUT, "],\"allget\":%d}\n", allget); xrl_clear_error(&e);
        for (int i = 0; i < n0; i++) xrlFree(before[i]); xrlFree(before); for (int i = 0; i < n1; i++) xrlFree(after[i]); xrlFree(after); if (ua) Crystal_ArrayFree(ua);
        fflush(OUT); _exit(0);
      }
      int st; waitpid(pid, &st, 0);
      if (!(WIFEXITED(st) && WEXITSTATUS(st) == 0)) fprintf(OUT, "{\"k\":\"fuzzcrash\",\"it\":%d,\"sig\":%d}\n", it, WIFSIGNALED(st) ? WTERMSIG(st) : -WEXITSTATUS(st));
      fflush(OUT);
    }
    return 0;
  }
  fprintf(stderr, "usage: c14 prog <file> | c14 rand <nhist> <maxlen> | c14 fuzz <n>\n"); return 2;
}
