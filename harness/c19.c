/* C19: the argument stream and the C outcomes for the comparison with the Java implementation.  One line per call:
 *   fn|sig|i0|i1|d0|d1|d2|s|c_ok|c_hash|c_doubles|extra|neighbours  (doubles as decimal bit patterns; c_doubles: "hi,lo;hi,lo;...")
 * Objects are projected to the digest of their integer / string fields (same recipe as JDrive.hashObj: Java String.hashCode of a
 * canonical string) plus the list of their double fields. */
#include "common.h"
#include "api.h"
#include "xrf_cross_sections_aux.h"
#include "xrayglob.h"
double ElectronConfig_Biggs(int Z, int shell, xrl_error **error);      /* exported by comptonprofiles.c, in no header; Java has it as a public method */
/* the vacancy-production helpers of the cascade (xrf_cross_sections_aux.h): shell s = 1..8 (L1 L2 L3 M1..M5), variant v = 0 pure, 1 radiative,
 * 2 non-radiative, 3 full cascade; p[] = PK, PL1, PL2, PL3, PM1..PM4 */
static double pcall(int s, int v, int Z, double E, const double *p, xrl_error **e) {
  double K = p[0], L1 = p[1], L2 = p[2], L3 = p[3], M1 = p[4], M2 = p[5], M3 = p[6], M4 = p[7];
  switch (s * 4 + v) {
    case 4: return PL1_pure_kissel(Z, E, e); case 5: return PL1_rad_cascade_kissel(Z, E, K, e); case 6: return PL1_auger_cascade_kissel(Z, E, K, e); case 7: return PL1_full_cascade_kissel(Z, E, K, e);
    case 8: return PL2_pure_kissel(Z, E, L1, e); case 9: return PL2_rad_cascade_kissel(Z, E, K, L1, e); case 10: return PL2_auger_cascade_kissel(Z, E, K, L1, e); case 11: return PL2_full_cascade_kissel(Z, E, K, L1, e);
    case 12: return PL3_pure_kissel(Z, E, L1, L2, e); case 13: return PL3_rad_cascade_kissel(Z, E, K, L1, L2, e); case 14: return PL3_auger_cascade_kissel(Z, E, K, L1, L2, e); case 15: return PL3_full_cascade_kissel(Z, E, K, L1, L2, e);
    case 16: return PM1_pure_kissel(Z, E, e); case 17: return PM1_rad_cascade_kissel(Z, E, K, L1, L2, L3, e); case 18: return PM1_auger_cascade_kissel(Z, E, K, L1, L2, L3, e); case 19: return PM1_full_cascade_kissel(Z, E, K, L1, L2, L3, e);
    case 20: return PM2_pure_kissel(Z, E, M1, e); case 21: return PM2_rad_cascade_kissel(Z, E, K, L1, L2, L3, M1, e); case 22: return PM2_auger_cascade_kissel(Z, E, K, L1, L2, L3, M1, e); case 23: return PM2_full_cascade_kissel(Z, E, K, L1, L2, L3, M1, e);
    case 24: return PM3_pure_kissel(Z, E, M1, M2, e); case 25: return PM3_rad_cascade_kissel(Z, E, K, L1, L2, L3, M1, M2, e); case 26: return PM3_auger_cascade_kissel(Z, E, K, L1, L2, L3, M1, M2, e); case 27: return PM3_full_cascade_kissel(Z, E, K, L1, L2, L3, M1, M2, e);
    case 28: return PM4_pure_kissel(Z, E, M1, M2, M3, e); case 29: return PM4_rad_cascade_kissel(Z, E, K, L1, L2, L3, M1, M2, M3, e); case 30: return PM4_auger_cascade_kissel(Z, E, K, L1, L2, L3, M1, M2, M3, e); case 31: return PM4_full_cascade_kissel(Z, E, K, L1, L2, L3, M1, M2, M3, e);
    case 32: return PM5_pure_kissel(Z, E, M1, M2, M3, M4, e); case 33: return PM5_rad_cascade_kissel(Z, E, K, L1, L2, L3, M1, M2, M3, M4, e); case 34: return PM5_auger_cascade_kissel(Z, E, K, L1, L2, L3, M1, M2, M3, M4, e); case 35: return PM5_full_cascade_kissel(Z, E, K, L1, L2, L3, M1, M2, M3, M4, e);
  }
  return 0.0;
}
static int32_t jhash(const char *s) { int32_t h = 0; for (; *s; s++) h = (int32_t)((uint32_t)h * 31u + (unsigned char)*s); return h; }
static void dbits(char *o, const double *v, int n) { *o = 0; for (int i = 0; i < n; i++) { uint64_t b; memcpy(&b, &v[i], 8); o += sprintf(o, "%s%d,%d", i ? ";" : "", (int32_t)(b >> 32), (int32_t)(b & 0xffffffffu)); } }
static const char *EXTRA = "";      /* 12th field: the atoms of a CrystalDef line, or the magnitude scale of a structure factor */
/* 13th field: where the C outcome is NOT locally constant in its first continuous argument (an absorption edge, a table end, a duplicated knot within
 * 1e-10 relative of the argument), the C outcomes at x (1 - 1e-10) and x (1 + 1e-10): "ok,hi,lo/ok,hi,lo".  The two implementations hold their tables at
 * different precision (C: 11 significant digits, Java: unrounded) and use different libm's, so which side of a discontinuity such an argument falls on
 * is itself a matter of round-off; XrlEquiv accepts the Java outcome if it matches the C outcome at the argument or at one of these two neighbours. */
static char ALTBUF[256]; static const char *ALT = ""; static int CEDGE = 0;     /* 14th field: the first continuous argument is bit-equal to an edge energy of element i0 */
static void neighbours(ApiFn *f, const int *ia, const double *da, const char *s, double v, int ok) {
  ALT = ""; CEDGE = 0; if (da[0] == 0.0 || !isfinite(da[0])) return;
  if (SIG_NI[f->sig] >= 1 && ia[0] >= 1 && ia[0] <= ZMAX) for (int sh = 0; sh < SHELLNUM && !CEDGE; sh++) if (EdgeEnergy_arr[ia[0]][sh] == da[0]) CEDGE = 1;
  double d2[3] = {da[0], da[1], da[2]}; int oks[2]; double vs[2];
  for (int k = 0; k < 2; k++) { d2[0] = da[0] * (k ? 1.0 + 1e-10 : 1.0 - 1e-10); xrl_error *e = NULL; vs[k] = api_call(f, ia, d2, s, &e); oks[k] = e == NULL; xrl_clear_error(&e); }
  int flat = 1; for (int k = 0; k < 2; k++) if (oks[k] != ok || (ok && fabs(vs[k] - v) > 1e-9 * fabs(v))) flat = 0;
  if (flat) return;
  char *o = ALTBUF; for (int k = 0; k < 2; k++) { uint64_t b; memcpy(&b, &vs[k], 8); o += sprintf(o, "%s%d,%d,%d", k ? "/" : "", oks[k], (int32_t)(b >> 32), (int32_t)(b & 0xffffffffu)); }
  ALT = ALTBUF;
}
static void line(const char *fn, const char *sig, int i0, int i1, const double *d, const char *s, int ok, long hash, const char *cd) {
  int64_t b[3]; memcpy(b, d, 24);
  fprintf(OUT, "%s|%s|%d|%d|%lld|%lld|%lld|%s|%d|%ld|%s|%s|%s|%d\n", fn, sig, i0, i1, (long long)b[0], (long long)b[1], (long long)b[2], s ? s : "", ok, hash, cd, EXTRA, ALT, CEDGE); ALT = ""; CEDGE = 0;
}
static const char *SIGN[] = {"I", "II", "ID", "IID", "IDD", "IDDD", "D", "DD", "DDD", "SD", "SDD", "SDDD"};
static const char *STR[] = {"H2O", "Ca5(PO4)3OH", "Fe", "U", "SiO2", "C6H12O6", "Water, Liquid", "Polyethylene", "Bone, Cortical (ICRP)", "H2O)", "Unobtainium", "Rf", "", "(((H)))", "U0.5Pu0.5O2", "H0", "Fe 2", "55Fe", "241Am", "nope"};
#define NSTR ((int)(sizeof STR / sizeof *STR))
int cmd_c19(int argc, char **argv) {
  int part = argc > 0 ? atoi(argv[0]) : 0, np = argc > 1 ? atoi(argv[1]) : 1, thorough = argc > 2 && !strcmp(argv[2], "thorough");
  static const double EQ[] = {-1.0, 0.0, 0.05, 1.0, 8.98, 20.0, 100.0, 300.0, 799.9, 1500.0}; static const double ET[] = {0.5, 3.0, 17.44, 59.5, 150.0};
  static const double AQ[] = {0.0, 0.7853981633974483, 1.5707963267948966, 3.141592653589793, -1.0};
  double el[32]; int ne = 0; for (unsigned i = 0; i < sizeof EQ / sizeof *EQ; i++) el[ne++] = EQ[i]; if (thorough) for (unsigned i = 0; i < sizeof ET / sizeof *ET; i++) el[ne++] = ET[i];
  int idx = 0; static char cd[1 << 18];
  for (ApiFn *f = API_TABLE; f->name; f++) {
    if (idx++ % np != part) continue;
    int ni = SIG_NI[f->sig], nd = SIG_ND[f->sig], ns = SIG_NS[f->sig]; int ia[2] = {0, 0}; double da[3] = {0, 0, 0};
    int mstep = (f->sig == SIG_IID && !thorough) ? 5 : 1; int estep = (f->sig == SIG_IID) ? (thorough ? 3 : 4) : 1;
    for (int si = 0; si < (ns ? NSTR : 1); si++) for (int Z = ni ? -2 : 0; Z <= (ni ? 122 : 0); Z++) {
      /* the absorption edges themselves, exactly and one part in 1e9 to either side: every comparison of an energy with an edge is decided here */
      double ex[16]; int nx = 0;
      if (ni && nd == 1 && Z >= 1 && Z <= 104) for (int sh = 0; sh < 4; sh++) { double ed = EdgeEnergy(Z, sh, NULL); if (ed > 0) { ex[nx++] = ed; ex[nx++] = ed * (1 - 1e-9); ex[nx++] = ed * (1 + 1e-9); } }
      for (int m = ni > 1 ? f->mlo : 0; m <= (ni > 1 ? f->mhi : 0); m += mstep)
      for (int a = 0; a < (nd >= 1 ? ne + nx * estep : 1); a += estep) for (int b = 0; b < (nd >= 2 ? 5 : 1); b++) for (int c = 0; c < (nd >= 3 ? 3 : 1); c++) {
        ia[0] = Z; ia[1] = m; da[0] = nd >= 1 ? (a >= ne ? ex[(a - ne) / estep] : el[(a + (estep > 1 ? (((Z + m) % estep) + estep) % estep : 0)) % ne]) : 0; da[1] = nd >= 2 ? AQ[b] : 0; da[2] = nd >= 3 ? AQ[c * 2] : 0;
        xrl_error *e = NULL; double v = api_call(f, ia, da, ns ? STR[si] : NULL, &e); dbits(cd, &v, 1);
        if (nd >= 1) neighbours(f, ia, da, ns ? STR[si] : NULL, v, e == NULL);
        line(f->name, SIGN[f->sig], ia[0], ia[1], da, ns ? STR[si] : "", e == NULL, 0, e == NULL ? cd : ""); xrl_clear_error(&e);
      }
    }
  }
  /* ---- "every argument tuple": the non-finite doubles (NaN, +Inf, -Inf) in each continuous position, the other positions ordinary */
  { static const int ZN[] = {-1, 1, 26, 82, 200}; static const int MN[] = {0, -3, 3, -90}; static const int SN[] = {0, 6, 10};
    const double NF[] = {NAN, INFINITY, -INFINITY}; int idx2 = 0;
    for (ApiFn *f = API_TABLE; f->name; f++) {
      if (idx2++ % np != part) continue;
      int ni = SIG_NI[f->sig], nd = SIG_ND[f->sig], ns = SIG_NS[f->sig]; if (!nd) continue;
      for (int zi = 0; zi < (ni ? 5 : 1); zi++) for (int mi = 0; mi < (ni > 1 ? 4 : 1); mi++) for (int si = 0; si < (ns ? 3 : 1); si++) for (int pos = 0; pos < nd; pos++) for (int k = 0; k < 3; k++) {
        int ia[2] = {ni ? ZN[zi] : 0, ni > 1 ? MN[mi] : 0}; double da[3] = {10.0, 1.0, 0.5}; da[pos] = NF[k];
        xrl_error *e = NULL; double v = api_call(f, ia, da, ns ? STR[SN[si]] : NULL, &e); dbits(cd, &v, 1);
        line(f->name, SIGN[f->sig], ia[0], ia[1], da, ns ? STR[SN[si]] : "", e == NULL, 0, e == NULL ? cd : ""); xrl_clear_error(&e);
      }
    } }
  /* ---- the interpolated quantities at the places where an interpolation routine takes decisions: both ends of every table, every knot interval
   * narrower than 1e-6 (duplicated knots encode edges) at its two knots and in between, and a handful of seeded knots and midpoints */
  {
    struct { const char *q; int tr; int *n; double **x; } T[] = {
      {"CS_Photo", 1, NE_Photo, E_Photo_arr}, {"CS_Rayl", 1, NE_Rayl, E_Rayl_arr}, {"CS_Compt", 1, NE_Compt, E_Compt_arr}, {"CS_Energy", 2, NE_Energy, E_Energy_arr},
      {"FF_Rayl", 0, Nq_Rayl, q_Rayl_arr}, {"SF_Compt", 0, Nq_Compt, q_Compt_arr}, {"Fi", 0, NE_Fi, E_Fi_arr}, {"Fii", 0, NE_Fii, E_Fii_arr}, {"ComptonProfile", 3, Npz_ComptonProfiles, pz_ComptonProfiles}};
    uint64_t keep = RNG;
    for (unsigned t = 0; t < sizeof T / sizeof *T; t++) {
      ApiFn *f = NULL; for (ApiFn *g = API_TABLE; g->name; g++) if (!strcmp(g->name, T[t].q)) f = g; if (!f) continue;
      for (int Z = 1 + part; Z <= ZMAX; Z += np) { int n = T[t].n[Z]; const double *x = T[t].x[Z]; if (n < 2) continue; RNG = keep + 1000003ULL * Z + t;
        double pts[4096]; int npt = 0; int tr = T[t].tr;
#define INV(v) (tr == 0 ? (v) : tr == 1 ? exp(v) / 1000.0 : tr == 2 ? exp(v) : exp(v) - 1.0)
        double lo = INV(x[0]), hi = INV(x[n - 1]);
        pts[npt++] = lo; pts[npt++] = lo * (1 - 1e-9); pts[npt++] = lo * (1 + 1e-9); pts[npt++] = hi; pts[npt++] = hi * (1 - 1e-9); pts[npt++] = hi * (1 + 1e-6);
        for (int k = 0; k + 1 < n && npt < 4000; k++) if (x[k + 1] - x[k] < 1e-6) { pts[npt++] = INV(x[k]); pts[npt++] = INV(0.5 * (x[k] + x[k + 1])); pts[npt++] = INV(x[k + 1]); }
        for (int r = 0; r < 6; r++) { int k = rndint(0, n - 2); pts[npt++] = INV(x[k]); pts[npt++] = INV(0.5 * (x[k] + x[k + 1])); }
        for (int i = 0; i < npt; i++) { int ia[2] = {Z, 0}; double da[3] = {pts[i], 0, 0}; xrl_error *e = NULL; double v = api_call(f, ia, da, NULL, &e); dbits(cd, &v, 1); neighbours(f, ia, da, NULL, v, e == NULL);
          line(f->name, "ID", Z, 0, da, "", e == NULL, 0, e == NULL ? cd : ""); xrl_clear_error(&e); }
      }
    }
    RNG = keep;
  }
  if (part == 0) {
    double z3[3] = {0, 0, 0}; static char sb[1 << 16];
    for (int i = 0; i < NSTR; i++) {
      xrl_error *e = NULL; struct compoundData *c = CompoundParser(STR[i], &e);
      if (c) { int o = sprintf(sb, "%d", c->nElements); for (int k = 0; k < c->nElements; k++) o += sprintf(sb + o, ",%d", c->Elements[k]); double v[4096]; int n = c->nElements; for (int k = 0; k < n; k++) { v[k] = c->massFractions[k]; v[n + k] = c->nAtoms[k]; } v[2 * n] = c->nAtomsAll; v[2 * n + 1] = c->molarMass; dbits(cd, v, 2 * n + 2); }
      line("CompoundParser", "S", 0, 0, z3, STR[i], c != NULL, c ? jhash(sb) : 0, c ? cd : ""); if (c) FreeCompoundData(c); xrl_clear_error(&e);
      struct compoundDataNIST *n1 = GetCompoundDataNISTByName(STR[i], &e);
      if (n1) { int o = sprintf(sb, "%s%d", n1->name, n1->nElements); for (int k = 0; k < n1->nElements; k++) o += sprintf(sb + o, ",%d", n1->Elements[k]); double v[64]; for (int k = 0; k < n1->nElements; k++) v[k] = n1->massFractions[k]; v[n1->nElements] = n1->density; dbits(cd, v, n1->nElements + 1); }
      line("GetCompoundDataNISTByName", "S", 0, 0, z3, STR[i], n1 != NULL, n1 ? jhash(sb) : 0, n1 ? cd : ""); if (n1) FreeCompoundDataNIST(n1); xrl_clear_error(&e);
      struct radioNuclideData *r = GetRadioNuclideDataByName(STR[i], &e);
      if (r) { int o = sprintf(sb, "%s%d,%d,%d,%d,%d,%d", r->name, r->Z, r->A, r->N, r->Z_xray, r->nXrays, r->nGammas); for (int k = 0; k < r->nXrays; k++) o += sprintf(sb + o, ",%d", r->XrayLines[k]); double v[4096]; int n = 0; for (int k = 0; k < r->nXrays; k++) v[n++] = r->XrayIntensities[k]; for (int k = 0; k < r->nGammas; k++) v[n++] = r->GammaEnergies[k]; for (int k = 0; k < r->nGammas; k++) v[n++] = r->GammaIntensities[k]; dbits(cd, v, n); }
      line("GetRadioNuclideDataByName", "S", 0, 0, z3, STR[i], r != NULL, r ? jhash(sb) : 0, r ? cd : ""); if (r) FreeRadioNuclideData(r); xrl_clear_error(&e);
      int z = SymbolToAtomicNumber(STR[i], &e); line("SymbolToAtomicNumber", "S", 0, 0, z3, STR[i], e == NULL, e == NULL ? z : 0, ""); xrl_clear_error(&e);
      for (int a = 0; a < ne; a += 2) for (int k = 0; k < 3; k++) { double dd[3] = {el[a], (double[]){-1.0, 1.0, 2.5}[k], 0}; xrlComplex zc = Refractive_Index(STR[i], dd[0], dd[1], &e); double v[2] = {zc.re, zc.im}; dbits(cd, v, 2);
        line("Refractive_Index", "SDD", 0, 0, dd, STR[i], e == NULL, 0, e == NULL ? cd : ""); xrl_clear_error(&e); }
    }
    /* two passes: the Java driver scribbles over the arrays of every object it was handed, so a lookup that hands out the catalogue's own arrays shows in the second pass */
    for (int pass = 0; pass < 2; pass++)
    for (int i = -2; i <= 185; i++) {
      xrl_error *e = NULL; struct compoundDataNIST *n1 = GetCompoundDataNISTByIndex(i, &e);
      if (n1) { int o = sprintf(sb, "%s%d", n1->name, n1->nElements); for (int k = 0; k < n1->nElements; k++) o += sprintf(sb + o, ",%d", n1->Elements[k]); double v[64]; for (int k = 0; k < n1->nElements; k++) v[k] = n1->massFractions[k]; v[n1->nElements] = n1->density; dbits(cd, v, n1->nElements + 1); }
      line("GetCompoundDataNISTByIndex", "I", i, 0, z3, "", n1 != NULL, n1 ? jhash(sb) : 0, n1 ? cd : ""); if (n1) FreeCompoundDataNIST(n1); xrl_clear_error(&e);
      if (i <= 12) { struct radioNuclideData *r = GetRadioNuclideDataByIndex(i, &e);
        if (r) { int o = sprintf(sb, "%s%d,%d,%d,%d,%d,%d", r->name, r->Z, r->A, r->N, r->Z_xray, r->nXrays, r->nGammas); for (int k = 0; k < r->nXrays; k++) o += sprintf(sb + o, ",%d", r->XrayLines[k]); double v[4096]; int n = 0; for (int k = 0; k < r->nXrays; k++) v[n++] = r->XrayIntensities[k]; for (int k = 0; k < r->nGammas; k++) v[n++] = r->GammaEnergies[k]; for (int k = 0; k < r->nGammas; k++) v[n++] = r->GammaIntensities[k]; dbits(cd, v, n); }
        line("GetRadioNuclideDataByIndex", "I", i, 0, z3, "", r != NULL, r ? jhash(sb) : 0, r ? cd : ""); if (r) FreeRadioNuclideData(r); xrl_clear_error(&e); }
      if (i <= 110) { char *s = AtomicNumberToSymbol(i, &e); line("AtomicNumberToSymbol", "I", i, 0, z3, "", s != NULL, s ? jhash(s) : 0, ""); xrlFree(s); xrl_clear_error(&e); }
    }
  }
  /* ---- crystals: every built-in crystal through every crystal function; the crystal is named by s, Miller indices are packed into i0, the three flags into i1 */
  {
    int nc = 0; char **names = Crystal_GetCrystalsList(NULL, &nc, NULL); double z3[3] = {0, 0, 0}; static char sb[1 << 16];
    static const int MI[][3] = {{0, 0, 0}, {1, 1, 1}, {2, 2, 0}, {1, 0, 0}, {-1, 2, 3}, {4, 0, 0}, {0, 0, 2}, {3, 1, 1}, {0, -1, 0}, {5, 5, 5}, {12, 0, 7}};
    static const double CE[] = {-1.0, 0.0, 0.3, 1.0, 8.0, 20.0, 100.0, 900.0}; static const double RA[] = {0.0, 1.0, 1.3, -1.0}; static const double DB[] = {-1.0, 0.0, 0.5, 1.0};
    static const int FL[][3] = {{2, 2, 2}, {0, 0, 0}, {1, 0, 0}, {2, 0, 0}, {0, 2, 0}, {0, 0, 2}, {1, 2, 2}, {3, 2, 2}, {2, 1, 2}, {2, 2, 1}, {2, 3, 2}, {2, 2, 3}, {-1, 2, 2}, {2, 2, -1}};
    int nmi = thorough ? 11 : 8;
    if (part == 0) { int o = sprintf(sb, "%d", nc); for (int i = 0; i < nc; i++) o += sprintf(sb + o, ",%s", names[i]); line("Crystal_GetCrystalsList", "X", 0, 0, z3, "", 1, jhash(sb), ""); }
    for (int ci = -3; ci < nc; ci++) {
      if (((ci + 3) % np) != part) continue;
      const char *nm = ci == -3 ? "nope" : ci == -2 ? "" : ci == -1 ? "si" : names[ci];
      xrl_error *e = NULL; Crystal_Struct *cs = Crystal_GetCrystal(nm, NULL, &e);
      if (cs) { int o = sprintf(sb, "%s%d", cs->name, cs->n_atom); static double v[8192]; int n = 0; v[n++] = cs->a; v[n++] = cs->b; v[n++] = cs->c; v[n++] = cs->alpha; v[n++] = cs->beta; v[n++] = cs->gamma; v[n++] = cs->volume;
        for (int k = 0; k < cs->n_atom; k++) { o += sprintf(sb + o, ",%d", cs->atom[k].Zatom); v[n++] = cs->atom[k].fraction; v[n++] = cs->atom[k].x; v[n++] = cs->atom[k].y; v[n++] = cs->atom[k].z; } dbits(cd, v, n); }
      line("Crystal_GetCrystal", "X", 0, 0, z3, nm, cs != NULL, cs ? jhash(sb) : 0, cs ? cd : ""); xrl_clear_error(&e);
      /* the same crystal, field for field, for the Java side: the functions below are compared on identical lattice constants
       * (the built-in C table is stored in single precision, the Java one in double: that difference is judged on Crystal_GetCrystal alone) */
      if (cs) { static char zl[1 << 14]; int o = 0; zl[0] = 0; for (int k = 0; k < cs->n_atom; k++) o += sprintf(zl + o, "%s%d", k ? "," : "", cs->atom[k].Zatom); EXTRA = zl; line("CrystalDef", "X", 0, 0, z3, nm, 1, 0, cd); EXTRA = ""; }
      if (!cs) continue;
      { double v = Crystal_UnitCellVolume(cs, &e); dbits(cd, &v, 1); line("Crystal_UnitCellVolume", "X", 0, 0, z3, nm, e == NULL, 0, e == NULL ? cd : ""); xrl_clear_error(&e); }
      for (int m = 0; m < nmi; m++) {
        int pk = (MI[m][0] + 50) * 10201 + (MI[m][1] + 50) * 101 + (MI[m][2] + 50);
        { double v = Crystal_dSpacing(cs, MI[m][0], MI[m][1], MI[m][2], &e); dbits(cd, &v, 1); line("Crystal_dSpacing", "X", pk, 0, z3, nm, e == NULL, 0, e == NULL ? cd : ""); xrl_clear_error(&e); }
        for (unsigned a = 0; a < sizeof CE / sizeof *CE; a++) {
          double d[3] = {CE[a], 0, 0};
          { double v = Bragg_angle(cs, CE[a], MI[m][0], MI[m][1], MI[m][2], &e); dbits(cd, &v, 1); line("Bragg_angle", "X", pk, 0, d, nm, e == NULL, 0, e == NULL ? cd : ""); xrl_clear_error(&e); }
          for (unsigned r = 0; r < 4; r++) { d[2] = RA[r]; double v = Q_scattering_amplitude(cs, CE[a], MI[m][0], MI[m][1], MI[m][2], RA[r], &e); dbits(cd, &v, 1); line("Q_scattering_amplitude", "X", pk, 0, d, nm, e == NULL, 0, e == NULL ? cd : ""); xrl_clear_error(&e); }
          for (unsigned b = 0; b < 4; b++) for (unsigned r = 0; r < (thorough ? 4 : 2); r++) {
            d[1] = DB[b]; d[2] = RA[r + (thorough ? 0 : 1)];
            static char scb[64]; { double sc = 0.0, q = Q_scattering_amplitude(cs, d[0], MI[m][0], MI[m][1], MI[m][2], d[2], NULL);
              for (int k = 0; k < cs->n_atom; k++) { double f0 = 0, f1 = 0, f2 = 0; if (Atomic_Factors(cs->atom[k].Zatom, d[0], q, d[1], &f0, &f1, &f2, NULL)) sc += fabs(cs->atom[k].fraction) * (1.0 + fabs(f0) + fabs(f1) + fabs(f2)); } dbits(scb, &sc, 1); EXTRA = scb; }
            xrlComplex zc = Crystal_F_H_StructureFactor(cs, d[0], MI[m][0], MI[m][1], MI[m][2], d[1], d[2], &e); double v[2] = {zc.re, zc.im}; dbits(cd, v, 2);
            line("Crystal_F_H_StructureFactor", "X", pk, 0, d, nm, e == NULL, 0, e == NULL ? cd : ""); xrl_clear_error(&e);
            if (b >= 2 && r == 0 && (thorough || (m + a) % 3 == 0)) for (unsigned f = 0; f < sizeof FL / sizeof *FL; f++) {
              zc = Crystal_F_H_StructureFactor_Partial(cs, d[0], MI[m][0], MI[m][1], MI[m][2], d[1], d[2], FL[f][0], FL[f][1], FL[f][2], &e); v[0] = zc.re; v[1] = zc.im; dbits(cd, v, 2);
              line("Crystal_F_H_StructureFactor_Partial", "X", pk, (FL[f][0] + 1) * 100 + (FL[f][1] + 1) * 10 + (FL[f][2] + 1), d, nm, e == NULL, 0, e == NULL ? cd : ""); xrl_clear_error(&e);
            }
            EXTRA = "";
          }
        }
      }
      Crystal_Free(cs);
    }
    for (int i = 0; i < nc; i++) xrlFree(names[i]); xrlFree(names);
    /* a crystal that is not there */
    if (part == 0) { xrl_error *e = NULL; double v = Bragg_angle(NULL, 8.0, 1, 1, 1, &e); (void)v; line("Bragg_angle", "X", 51 * 10201 + 51 * 101 + 51, 0, (double[]){8.0, 0, 0}, "<null>", e == NULL, 0, ""); xrl_clear_error(&e);
      v = Crystal_UnitCellVolume(NULL, &e); line("Crystal_UnitCellVolume", "X", 0, 0, z3, "<null>", e == NULL, 0, ""); xrl_clear_error(&e); }
    /* Atomic_Factors: three outputs on the C side, an array on the Java side */
    for (int Z = -1; Z <= 121; Z++) { if (((Z + 1) % np) != part) continue;
      for (int a = 0; a < ne; a++) for (int q = 0; q < 4; q++) for (int b = 0; b < 4; b++) {
        double d[3] = {el[a], (double[]){0.0, 0.5, 3.0, -1.0}[q], DB[b]}; double v[3] = {0, 0, 0}; xrl_error *e = NULL;
        int ok = Atomic_Factors(Z, d[0], d[1], d[2], &v[0], &v[1], &v[2], &e); dbits(cd, v, 3);
        line("Atomic_Factors", "IDDD", Z, 0, d, "", ok == 1 && e == NULL, 0, ok == 1 && e == NULL ? cd : ""); xrl_clear_error(&e);
      } }
  }
  /* ---- generated formulas (grammar-directed, then damaged) and every catalogue name, through the parser and both lookups */
  {
    double z3[3] = {0, 0, 0}; static char sb[1 << 16]; int nform = thorough ? 6000 : 800; uint64_t keep = RNG; RNG = keep * 31 + 19;
    int nn = 0, nr = 0; char **nist = GetCompoundDataNISTList(&nn, NULL); char **nuc = GetRadioNuclideDataList(&nr, NULL);
    if (part == 0) { int o = sprintf(sb, "%d", nn); for (int i = 0; i < nn; i++) o += sprintf(sb + o, ",%s", nist[i]); line("GetCompoundDataNISTList", "X", 0, 0, z3, "", 1, jhash(sb), "");
      o = sprintf(sb, "%d", nr); for (int i = 0; i < nr; i++) o += sprintf(sb + o, ",%s", nuc[i]); line("GetRadioNuclideDataList", "X", 0, 0, z3, "", 1, jhash(sb), ""); }
    for (int i = 0; i < nform + 2 * (nn + nr); i++) {       /* the catalogue names twice (see the two passes above) */
      char f[512]; int o = 0;
      if (i >= nform) { int j = (i - nform) % (nn + nr); const char *nm = j < nn ? nist[j] : nuc[j - nn]; snprintf(f, sizeof f, "%s", nm); }
      else {
        int items = rndint(1, 5), depth = 0;
        /* one formula in three draws its symbols from seven elements, so that an element met inside a group is as a rule also present outside it or in a sibling group (merging paths) */
        int small = rndint(0, 2) == 0; static const int FEW[] = {1, 6, 7, 8, 20, 26, 82}; if (small) items += rndint(1, 3);
        for (int k = 0; k < items && o < 400; k++) {
          int r = rndint(0, 9);
          if (r == 0 && depth < 3) { f[o++] = '('; depth++; items += rndint(1, 2); continue; }
          if (r == 1 && depth > 0 && o > 0 && f[o - 1] != '(') { f[o++] = ')'; depth--; goto sub; }
          { char *sym = AtomicNumberToSymbol(small ? FEW[rndint(0, 6)] : rndint(1, rndint(0, 3) ? 56 : 110), NULL); o += sprintf(f + o, "%s", sym); xrlFree(sym); }
          sub: { int t = rndint(0, 5); if (t == 1) o += sprintf(f + o, "%d", rndint(1, 30)); else if (t == 2) o += sprintf(f + o, "%d.%d", rndint(0, 9), rndint(1, 99)); else if (t == 3) o += sprintf(f + o, "0.%03d", rndint(1, 999)); }
        }
        while (depth-- > 0) { if (o > 0 && f[o - 1] == '(') o += sprintf(f + o, "H"); f[o++] = ')'; if (rndint(0, 1)) o += sprintf(f + o, "%d", rndint(2, 9)); }
        f[o] = 0;
        if (i % 3 == 2 && o > 1) {            /* damage: delete, duplicate or replace one byte */
          int pos = rndint(0, o - 1), how = rndint(0, 3); static const char REP[] = "()0.aZx 2-+[";
          if (how == 0) memmove(f + pos, f + pos + 1, o - pos); else if (how == 1) { memmove(f + pos + 1, f + pos, o - pos + 1); } else f[pos] = REP[rndint(0, (int)sizeof REP - 2)];
        }
      }
      if (i % np != part) continue;
      if (strchr(f, '|') || strchr(f, '\n')) continue;
      xrl_error *e = NULL; struct compoundData *c = CompoundParser(f, &e);
      if (c) { int oo = sprintf(sb, "%d", c->nElements); for (int k = 0; k < c->nElements; k++) oo += sprintf(sb + oo, ",%d", c->Elements[k]); static double v[4096]; int n = c->nElements; for (int k = 0; k < n; k++) { v[k] = c->massFractions[k]; v[n + k] = c->nAtoms[k]; } v[2 * n] = c->nAtomsAll; v[2 * n + 1] = c->molarMass; dbits(cd, v, 2 * n + 2); }
      line("CompoundParser", "S", 1, 0, z3, f, c != NULL, c ? jhash(sb) : 0, c ? cd : ""); if (c) FreeCompoundData(c); xrl_clear_error(&e);
      if (i >= nform || i % 50 == 0) {
        struct compoundDataNIST *n1 = GetCompoundDataNISTByName(f, &e);
        if (n1) { int oo = sprintf(sb, "%s%d", n1->name, n1->nElements); for (int k = 0; k < n1->nElements; k++) oo += sprintf(sb + oo, ",%d", n1->Elements[k]); double v[64]; for (int k = 0; k < n1->nElements; k++) v[k] = n1->massFractions[k]; v[n1->nElements] = n1->density; dbits(cd, v, n1->nElements + 1); }
        line("GetCompoundDataNISTByName", "S", 1, 0, z3, f, n1 != NULL, n1 ? jhash(sb) : 0, n1 ? cd : ""); if (n1) FreeCompoundDataNIST(n1); xrl_clear_error(&e);
        struct radioNuclideData *r = GetRadioNuclideDataByName(f, &e);
        if (r) { int oo = sprintf(sb, "%s%d,%d,%d,%d,%d,%d", r->name, r->Z, r->A, r->N, r->Z_xray, r->nXrays, r->nGammas); for (int k = 0; k < r->nXrays; k++) oo += sprintf(sb + oo, ",%d", r->XrayLines[k]); static double v[4096]; int n = 0; for (int k = 0; k < r->nXrays; k++) v[n++] = r->XrayIntensities[k]; for (int k = 0; k < r->nGammas; k++) v[n++] = r->GammaEnergies[k]; for (int k = 0; k < r->nGammas; k++) v[n++] = r->GammaIntensities[k]; dbits(cd, v, n); }
        line("GetRadioNuclideDataByName", "S", 1, 0, z3, f, r != NULL, r ? jhash(sb) : 0, r ? cd : ""); if (r) FreeRadioNuclideData(r); xrl_clear_error(&e);
        /* a catalogue name as the compound argument of a cross section */
        { double d[3] = {10.0, 0, 0}; double v = CS_Total_CP(f, 10.0, &e); dbits(cd, &v, 1); line("CS_Total_CP", "SD", 1, 0, d, f, e == NULL, 0, e == NULL ? cd : ""); xrl_clear_error(&e); }
      }
    }
    for (int i = 0; i < nn; i++) xrlFree(nist[i]); xrlFree(nist); for (int i = 0; i < nr; i++) xrlFree(nuc[i]); xrlFree(nuc);
    RNG = keep;
  }
  /* ---- the cascade helpers, called directly: with the vacancy numbers of their own chain (mode 0), with all inputs 1 (mode 1: the bare
   * coefficients), and with all inputs 0 (mode 2); and ElectronConfig_Biggs */
  {
    static const char *SH[] = {"", "L1", "L2", "L3", "M1", "M2", "M3", "M4", "M5"}; static const char *VR[] = {"pure", "rad_cascade", "auger_cascade", "full_cascade"};
    static const double PE[] = {-1.0, 0.0, 0.3, 1.0, 3.0, 8.98, 20.0, 100.0, 299.0, 1500.0};
    for (int Z = -1; Z <= 121; Z++) { if (((Z + 1) % np) != part) continue;
      for (int sh = -2; sh <= 32; sh++) { xrl_error *e = NULL; double z3[3] = {0, 0, 0}; double v = ElectronConfig_Biggs(Z, sh, &e); dbits(cd, &v, 1); line("ElectronConfig_Biggs", "II", Z, sh, z3, "", e == NULL, 0, e == NULL ? cd : ""); xrl_clear_error(&e); }
      if (!(thorough || Z < 1 || Z > 98 || Z % 3 == part % 3)) continue;
      for (int v = 0; v < 4; v++) for (int s = 1; s <= 8; s++) for (unsigned a = 0; a < sizeof PE / sizeof *PE; a++) for (int mode = 0; mode < 3; mode++) {
        double p[8] = {0, 0, 0, 0, 0, 0, 0, 0}; double E = PE[a]; char fn[64]; snprintf(fn, sizeof fn, "P%s_%s_kissel", SH[s], VR[v]);
        if (mode == 1) for (int k = 0; k < 8; k++) p[k] = 1.0;
        if (mode == 0) { p[0] = CS_Photo_Partial(Z, K_SHELL, E, NULL); for (int k = 1; k < s; k++) p[k] = pcall(k, v, Z, E, p, NULL); }
        xrl_error *e = NULL; double r = pcall(s, v, Z, E, p, &e); dbits(cd, &r, 1); double d[3] = {E, 0, 0};
        line(fn, "XP", Z, mode, d, "", e == NULL, 0, e == NULL ? cd : ""); xrl_clear_error(&e);
      }
    }
  }
  return 0;
}
