/* C03 part 1: programs over the error API (written by TLC, one per transition of MC_C03) executed on the real functions.
 * After every operation: both slots, both locals, overwrite attempts and live heap blocks since the start of the history. */
#include "common.h"
extern long W_over, W_live;
static xrl_error *slot[3], *loc[3]; static long over0, live0; static long hid; static int stepno;
static const char *MSG[] = {"a", "bb"};
static void j_err(xrl_error *e) { if (!e) { fputs("{\"none\":true}", OUT); return; } fprintf(OUT, "{\"code\":%d,\"msg\":", (int)e->code); jstr(e->message); fputc('}', OUT); }
static void state(const char *op, int res) {
  fprintf(OUT, "{\"k\":\"eop\",\"hist\":%ld,\"i\":%d,\"op\":\"%s\",\"res\":%d,\"st\":{\"slot\":[", hid, stepno++, op, res);
  j_err(slot[1]); fputc(',', OUT); j_err(slot[2]); fputs("],\"loc\":[", OUT); j_err(loc[1]); fputc(',', OUT); j_err(loc[2]);
  fprintf(OUT, "],\"over\":%ld,\"live\":%ld}}\n", W_over - over0, W_live - live0);
}
int cmd_c03e(int argc, char **argv) {
  if (argc < 1) return 2;
  FILE *f = fopen(argv[0], "r"); if (!f) return 2;
  char *buf = NULL; size_t cap = 0;
  while (getline(&buf, &cap, f) > 0) {
    int a[4] = {0, 0, 0, 0}; char op = buf[0]; sscanf(buf + 1, "%d %d %d %d", &a[0], &a[1], &a[2], &a[3]);
    switch (op) {
    case 'H': hid = a[0]; stepno = 0; for (int i = 1; i <= 2; i++) { xrl_clear_error(&slot[i]); xrl_error_free(loc[i]); loc[i] = NULL; } over0 = W_over; live0 = W_live; fprintf(OUT, "{\"k\":\"reset\",\"hist\":%ld}\n", hid); break;
    case 'S': if (a[2] == 0) xrl_set_error_literal(&slot[a[0]], a[1], MSG[0]); else xrl_set_error(&slot[a[0]], a[1], "%s%c", "b", 'b'); state("Set", 0); break;
    case 'Z': if (a[1] == 0) xrl_set_error_literal(NULL, a[0], MSG[0]); else xrl_set_error(NULL, a[0], "%s%c", "b", 'b'); state("SetNull", 0); break;
    case 'N': loc[a[0]] = a[2] == 0 ? xrl_error_new_literal(a[1], MSG[0]) : xrl_error_new(a[1], "%s%c", "b", 'b'); state("New", 0); break;
    case 'P': xrl_propagate_error(&slot[a[0]], loc[a[1]]); loc[a[1]] = NULL; state("Propagate", 0); break;
    case 'Q': xrl_propagate_error(NULL, loc[a[0]]); loc[a[0]] = NULL; state("PropagateNull", 0); break;
    case 'C': xrl_clear_error(&slot[a[0]]); state("Clear", 0); break;
    case 'Y': loc[a[1]] = xrl_error_copy(slot[a[0]]); state("Copy", 0); break;
    case 'K': loc[a[1]] = xrl_error_copy(loc[a[0]]); state("CopyLoc", 0); break;
    case 'F': xrl_error_free(loc[a[0]]); loc[a[0]] = NULL; state("Free", 0); break;
    case 'M': state("Matches", xrl_error_matches(slot[a[0]], a[1])); break;
    default: break;
    }
  }
  fclose(f); free(buf);
  return 0;
}
