#!/usr/bin/env python3
"""protos.json -> gen_api.c : table of every numeric entry point (double f(<ints/doubles/string>, xrl_error**)) so that the
harness reaches each exported function by name.  Pure code generation; no judgement.  Also lists what it did not place."""
import json, sys
SIGS = {("int",): "I", ("int", "int"): "II", ("int", "double"): "ID", ("int", "int", "double"): "IID", ("int", "double", "double"): "IDD",
        ("int", "double", "double", "double"): "IDDD", ("double",): "D", ("double", "double"): "DD", ("double", "double", "double"): "DDD",
        ("const char*", "double"): "SD", ("const char*", "double", "double"): "SDD", ("const char*", "double", "double", "double"): "SDDD"}


def dom(name):
    if "Line" in name or name == "RadRate": return (-386, 6)
    if name == "AugerRate": return (-3, 998)
    if name == "CosKronTransProb": return (-3, 17)
    return (-3, 33)


def main(protos, out):
    P = json.load(open(protos)); rows = []; other = []
    for p in P:
        a = tuple(p["args"])
        if p["ret"] == "double" and a and a[-1] == "xrl_error**" and a[:-1] in SIGS:
            lo, hi = dom(p["name"]); rows.append('  {"%s", SIG_%s, (void (*)(void))%s, %d, %d},' % (p["name"], SIGS[a[:-1]], p["name"], lo, hi))
        else:
            other.append(p["name"])
    with open(out, "w") as f:
        f.write('#include "common.h"\n#include "api.h"\nApiFn API_TABLE[] = {\n' + "\n".join(rows) + '\n  {NULL, 0, NULL, 0, 0}\n};\n')
        f.write("const char *API_OTHER[] = {" + ", ".join('"%s"' % n for n in other) + ", NULL};\n")


main(sys.argv[1], sys.argv[2])
