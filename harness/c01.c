/* C01: every scalar accessor over Z in -3..125 and every macro value in and around the legal range.
 * One "row" event per (accessor, Z): ok flags and returned values for macro = lo..hi. */
#include "common.h"
double ElectronConfig_Biggs(int Z, int shell, xrl_error **error);
typedef double (*f1)(int, xrl_error **);
typedef double (*f2)(int, int, xrl_error **);
static void row2(const char *name, f2 f, int Z, int lo, int hi) {
  int n = hi - lo + 1; int *ok = malloc(n * sizeof(int)); double *v = malloc(n * sizeof(double));
  for (int m = lo; m <= hi; m++) { xrl_error *e = NULL; v[m - lo] = f(Z, m, &e); ok[m - lo] = (e == NULL); xrl_clear_error(&e); }
  fprintf(OUT, "{\"k\":\"row\",\"fn\":\"%s\",\"Z\":%d,\"lo\":%d,\"hi\":%d,\"ok\":[", name, Z, lo, hi);
  for (int i = 0; i < n; i++) fprintf(OUT, "%s%d", i ? "," : "", ok[i]);
  fputs("],\"v\":[", OUT);
  for (int i = 0; i < n; i++) { if (i) fputc(',', OUT); jd(v[i]); }
  int nd = 0, ndm = 0; for (int m = lo; m <= hi; m++) { double w = f(Z, m, NULL); if (memcmp(&w, &v[m - lo], 8)) { if (!nd) ndm = m; nd++; } }      /* the same cells without an error slot */
  fprintf(OUT, "],\"nd\":%d,\"ndm\":%d}\n", nd, ndm); free(ok); free(v);
}
static double w1(f1 f, int Z, xrl_error **e) { return f(Z, e); }
static f1 cur1; static double adapt1(int Z, int m, xrl_error **e) { (void)m; return w1(cur1, Z, e); }
int cmd_c01(int argc, char **argv) {
  int zlo = -3, zhi = 125;
  const char *only = argc >= 3 ? argv[2] : NULL;
  if (argc >= 2) { zlo = atoi(argv[0]); zhi = atoi(argv[1]); }
#define WANT(n) (!only || strcmp(only, n) == 0)
  for (int Z = zlo; Z <= zhi; Z++) {
    if (WANT("AtomicWeight")) { cur1 = AtomicWeight; row2("AtomicWeight", adapt1, Z, 0, 0); }
    if (WANT("ElementDensity")) { cur1 = ElementDensity; row2("ElementDensity", adapt1, Z, 0, 0); }
    if (WANT("EdgeEnergy")) row2("EdgeEnergy", EdgeEnergy, Z, -3, 33);
    if (WANT("FluorYield")) row2("FluorYield", FluorYield, Z, -3, 33);
    if (WANT("JumpFactor")) row2("JumpFactor", JumpFactor, Z, -3, 33);
    if (WANT("AtomicLevelWidth")) row2("AtomicLevelWidth", AtomicLevelWidth, Z, -3, 33);
    if (WANT("ElectronConfig")) row2("ElectronConfig", ElectronConfig, Z, -3, 33);
    if (WANT("ElectronConfig_Biggs")) row2("ElectronConfig_Biggs", ElectronConfig_Biggs, Z, -3, 33);
    if (WANT("CosKronTransProb")) row2("CosKronTransProb", CosKronTransProb, Z, -3, 17);
    if (WANT("LineEnergy")) row2("LineEnergy", LineEnergy, Z, -386, 6);
    if (WANT("RadRate")) row2("RadRate", RadRate, Z, -386, 6);
  }
  return 0;
}
