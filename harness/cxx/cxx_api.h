#pragma once
#include <string>
#include <stdexcept>
#include <new>
extern "C" {
#include "xraylib.h"
#include "xraylib-error-private.h"
}
#include "xraylib++.h"
struct CxxFn { const char *name; int ni, nd, ns, mlo, mhi; double (*cxx)(const int *, const double *, const char *); double (*c)(const int *, const double *, const char *, xrl_error **); };
extern const CxxFn CXX_TABLE[];
extern const char *CXX_SKIPPED[];
