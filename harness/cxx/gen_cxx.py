#!/usr/bin/env python3
"""xraylib++.h wrapper names (the _XRL_FUNCTION list) joined with the C prototypes -> gen_cxx.cpp: one entry per wrapper, each calling
the C++ wrapper and the C function THROUGH THEIR OWN NAMES (a wrapper bound to the wrong C function shows as a value mismatch)."""
import json, re, sys
SIGS = {("int",): "I", ("int", "int"): "II", ("int", "double"): "ID", ("int", "int", "double"): "IID", ("int", "double", "double"): "IDD",
        ("int", "double", "double", "double"): "IDDD", ("double",): "D", ("double", "double"): "DD", ("double", "double", "double"): "DDD",
        ("const char*", "double"): "SD", ("const char*", "double", "double"): "SDD", ("const char*", "double", "double", "double"): "SDDD"}
ARGS = {"I": "ia[0]", "II": "ia[0], ia[1]", "ID": "ia[0], da[0]", "IID": "ia[0], ia[1], da[0]", "IDD": "ia[0], da[0], da[1]", "IDDD": "ia[0], da[0], da[1], da[2]",
        "D": "da[0]", "DD": "da[0], da[1]", "DDD": "da[0], da[1], da[2]", "SD": "S, da[0]", "SDD": "S, da[0], da[1]", "SDDD": "S, da[0], da[1], da[2]"}


def dom(name):
    if "Line" in name or name == "RadRate": return (-386, 6)
    if name == "AugerRate": return (-3, 998)
    if name == "CosKronTransProb": return (-3, 17)
    return (-3, 33)


hdr = open(sys.argv[1]).read(); protos = {p["name"]: p for p in json.load(open(sys.argv[2]))}
names = [n for n in re.findall(r"^\s*_XRL_FUNCTION\((\w+)\)", hdr, flags=re.M)]
rows = []; skipped = []
for n in names:
    p = protos.get(n)
    if not p or p["ret"] != "double" or tuple(p["args"][:-1]) not in SIGS: skipped.append(n); continue
    sig = SIGS[tuple(p["args"][:-1])]; lo, hi = dom(n)
    cxx = ARGS[sig].replace("S", "std::string(s)"); c = ARGS[sig].replace("S", "s")
    rows.append('  {"%s", %d, %d, %d, %d, %d, [](const int *ia, const double *da, const char *s) -> double { (void)ia; (void)da; (void)s; return xrlpp::%s(%s); }, [](const int *ia, const double *da, const char *s, xrl_error **e) -> double { (void)ia; (void)da; (void)s; return ::%s(%s, e); }},'
                % (n, sig.count("I"), sig.count("D"), sig.count("S"), lo, hi, n, cxx, n, c))
with open(sys.argv[3], "w") as f:
    f.write('#include "cxx_api.h"\nconst CxxFn CXX_TABLE[] = {\n' + "\n".join(rows) + '\n  {nullptr, 0, 0, 0, 0, 0, nullptr, nullptr}\n};\n')
    f.write("const char *CXX_SKIPPED[] = {" + ", ".join('"%s"' % s for s in skipped) + ("," if skipped else "") + " nullptr};\n")
