// C18: every C++ wrapper against the C function of the same name on the C03 argument grid.  Observation per call:
// C outcome (value / error code + message), C++ outcome (value / exception class + what()), and the change of the number of
// live heap blocks allocated by the library (link-time --wrap counters; operator new lives in libstdc++.so and is not counted).
// Calls are folded into classes (wrapper, argument classes, outcome relation, leak) with count and first witness.
#include <cstdio>
#include <cstring>
#include <cmath>
#include <cstdint>
#include <cstdlib>
#include <map>
#include <vector>
#include <complex>
#include "cxx_api.h"
#include "gen_cxx.cpp"      // generated table, same translation unit: xraylib++.h defines non-inline functions
extern "C" { extern long W_live; }
struct Cls { long n; std::string wit; };
static std::map<std::string, Cls> table; static long ncalls = 0;
static void fold(const std::string &key, const std::string &wit) { auto it = table.find(key); if (it == table.end()) table[key] = Cls{1, wit}; else it->second.n++; ncalls++; }
static const char *icls(int v) { return v < 0 ? "neg" : v == 0 ? "zero" : v <= 120 ? "small" : "large"; }
static const char *dcls(double v) { return std::isnan(v) ? "nan" : std::isinf(v) ? "inf" : v < 0 ? "neg" : v == 0 ? "zero" : v < 1e-6 ? "tiny" : v > 1e6 ? "huge" : "normal"; }
static bool biteq(double a, double b) { return std::memcmp(&a, &b, 8) == 0; }
static std::string esc(const char *s) { std::string o; for (; s && *s; s++) { unsigned char c = (unsigned char)*s; if (c == '"' || c == '\\') { o += '\\'; o += (char)c; } else if (c < 0x20 || c >= 0x7f) { char b[8]; snprintf(b, sizeof b, "\\u%04x", c); o += b; } else o += (char)c; } return o; }
// exception class names as the property words them
enum { X_NONE, X_INVALID, X_BADALLOC, X_RUNTIME, X_OTHER };
static const char *XN[] = {"none", "invalid_argument", "bad_alloc", "runtime_error", "other"};
template <typename F> static int guarded(F f, std::string &what) {
  try { f(); return X_NONE; }
  catch (const std::invalid_argument &e) { what = e.what(); return X_INVALID; }
  catch (const std::bad_alloc &e) { what = e.what(); return X_BADALLOC; }
  catch (const std::runtime_error &e) { what = e.what(); return X_RUNTIME; }
  catch (...) { what = "?"; return X_OTHER; }
}
// one observation: the C outcome and the C++ outcome of the same call
static void observe(const char *fn, const std::string &argc, bool c_ok, int c_code, const std::string &c_msg, bool same_value, int xcls, const std::string &what, long leak_c, long leak_cxx, const std::string &wit) {
  char key[700];
  snprintf(key, sizeof key, "\"fn\":\"%s\",\"argc\":\"%s\",\"c_ok\":%d,\"c_code\":%d,\"thrown\":\"%s\",\"same_value\":%d,\"same_msg\":%d,\"leak_c\":%d,\"leak_cxx\":%d",
           fn, argc.c_str(), c_ok, c_code, XN[xcls], same_value, xcls == X_BADALLOC ? 1 : (what == c_msg), leak_c != 0, leak_cxx != 0);
  fold(key, wit);
}
static double ELIST[64]; static int NE; static double ALIST[16]; static int NA;
static const char *SLIST[] = {"", "H2O", "Ca5(PO4)3OH", "Fe", "U", "Rf", "Water, Liquid", "Gadolinium Oxysulfide", "garbage!", "H2O)", "Unobtainium", "SiO2", "Pu"};
static const int NS = sizeof SLIST / sizeof *SLIST;
static void build_lists(bool thorough) {
  static const double eq[] = {-1.0, 0.0, 1e-300, 1e-6, 0.05, 0.1, 1.0, 8.9789, 8.98, 20.0, 100.0, 799.9, 1000.0, 1e6, 1e300};
  static const double et[] = {0.001, 0.0099, 0.5, 2.0, 5.0, 10.0, 28.0, 50.0, 88.0, 115.6, 200.0, 500.0, 800.1, 1e4};
  NE = 0; for (double v : eq) ELIST[NE++] = v; if (thorough) for (double v : et) ELIST[NE++] = v;
  static const double aq[] = {0.0, 1e-9, 0.7853981633974483, 1.5707963267948966, 3.141592653589793, -1.5707963267948966, 6.783185307179586};
  NA = 0; for (double v : aq) ALIST[NA++] = v;
}
static void drive(const CxxFn &f, bool thorough) {
  int ia[2] = {0, 0}; double da[3] = {0, 0, 0};
  int zlo = f.ni ? -3 : 0, zhi = f.ni ? 125 : 0, mlo = f.ni > 1 ? f.mlo : 0, mhi = f.ni > 1 ? f.mhi : 0;
  for (int si = 0; si < (f.ns ? NS : 1); si++) for (int Z = zlo; Z <= zhi; Z++) for (int m = mlo; m <= mhi; m++) {
    const char *s = f.ns ? SLIST[si] : ""; ia[0] = Z; ia[1] = m;
    double el[96]; int ne = 0; for (int i = 0; i < NE; i++) el[ne++] = ELIST[i];
    if (f.nd && f.ni && Z >= 1 && Z <= 120 && (m == mlo || f.ni == 1)) for (int sh = 0; sh <= 3; sh += 3) { double ed = EdgeEnergy(Z, sh, nullptr); if (ed > 0) { el[ne++] = ed * (1 - 1e-9); el[ne++] = ed * (1 + 1e-9); } }
    int n0 = f.nd >= 1 ? ne : 1, n1 = f.nd >= 2 ? NA : 1, n2 = f.nd >= 3 ? (thorough ? NA : 3) : 1;
    for (int a = 0; a < n0; a++) for (int b = 0; b < n1; b++) for (int c = 0; c < n2; c++) {
      da[0] = f.nd >= 1 ? el[a] : 0; da[1] = f.nd >= 2 ? ALIST[b] : 0; da[2] = f.nd >= 3 ? ALIST[c] : 0;
      xrl_error *e = nullptr; long l0 = W_live; double cv = f.c(ia, da, s, &e); bool c_ok = e == nullptr; int code = e ? (int)e->code : -1; std::string cmsg = e ? e->message : ""; xrl_clear_error(&e); long leak_c = W_live - l0;
      double xv = 0; std::string what; l0 = W_live; int xc = guarded([&] { xv = f.cxx(ia, da, s); }, what); long leak_x = W_live - l0;
      std::string argc; if (f.ns) argc += *s ? "text," : "empty,"; for (int i = 0; i < f.ni; i++) { argc += icls(ia[i]); argc += ","; } for (int i = 0; i < f.nd; i++) { argc += dcls(da[i]); argc += ","; }
      char w[400]; uint64_t bb[3]; std::memcpy(bb, da, 24);
      snprintf(w, sizeof w, "{\"s\":\"%s\",\"i\":[%d,%d],\"d\":[[%d,%d],[%d,%d],[%d,%d]]}", esc(s).c_str(), ia[0], ia[1], (int32_t)(bb[0] >> 32), (int32_t)bb[0], (int32_t)(bb[1] >> 32), (int32_t)bb[1], (int32_t)(bb[2] >> 32), (int32_t)bb[2]);
      observe(f.name, argc, c_ok, code, cmsg, xc == X_NONE && biteq(cv, xv), xc, what, leak_c, leak_x, w);
    }
  }
}
// ---- hand-written wrappers: objects and their field-by-field conversion
template <typename V, typename P> static bool veq(const V &v, const P *p, int n) { if ((int)v.size() != n) return false; for (int i = 0; i < n; i++) if (std::memcmp(&v[i], &p[i], sizeof(p[i]))) return false; return true; }
static void wit_s(char *w, size_t n, const char *s) { snprintf(w, n, "{\"s\":\"%s\"}", esc(s).c_str()); }
static void drive_objects() {
  static const char *FORM[] = {"", "H", "H2O", "Ca5(PO4)3OH", "(((H)))", "H2O)", "(H2O", "()", "H0", "2O", "Rf", "Xx", "CuI2ww", "Fe2O3", "Fe 2", "U0.5Pu0.5O2", "Water, Liquid", "Si", "55Fe", "241Am", "Diamond", "nope"};
  char w[300];
  for (const char *s : FORM) {
    wit_s(w, sizeof w, s);
    { xrl_error *e = nullptr; long l0 = W_live; struct compoundData *c = ::CompoundParser(s, &e); bool ok = e == nullptr; int code = e ? (int)e->code : -1; std::string msg = e ? e->message : ""; xrl_clear_error(&e);
      bool same = false; std::string what; long lx0 = W_live; int xc = guarded([&] { xrlpp::compoundData x = xrlpp::CompoundParser(s); same = c && x.nElements == c->nElements && veq(x.Elements, c->Elements, c->nElements) && veq(x.massFractions, c->massFractions, c->nElements) && veq(x.nAtoms, c->nAtoms, c->nElements) && biteq(x.nAtomsAll, c->nAtomsAll) && biteq(x.molarMass, c->molarMass); }, what);
      long leak_x = W_live - lx0; if (c) FreeCompoundData(c); observe("CompoundParser", *s ? "text," : "empty,", ok, code, msg, same, xc, what, W_live - l0 - leak_x, leak_x, w); }
    { xrl_error *e = nullptr; long l0 = W_live; struct compoundDataNIST *c = ::GetCompoundDataNISTByName(s, &e); bool ok = e == nullptr; int code = e ? (int)e->code : -1; std::string msg = e ? e->message : ""; xrl_clear_error(&e);
      bool same = false; std::string what; long lx0 = W_live; int xc = guarded([&] { xrlpp::compoundDataNIST x = xrlpp::GetCompoundDataNISTByName(s); same = c && x.name == c->name && x.nElements == c->nElements && veq(x.Elements, c->Elements, c->nElements) && veq(x.massFractions, c->massFractions, c->nElements) && biteq(x.density, c->density); }, what);
      long leak_x = W_live - lx0; if (c) FreeCompoundDataNIST(c); observe("GetCompoundDataNISTByName", *s ? "text," : "empty,", ok, code, msg, same, xc, what, W_live - l0 - leak_x, leak_x, w); }
    { xrl_error *e = nullptr; long l0 = W_live; struct radioNuclideData *c = ::GetRadioNuclideDataByName(s, &e); bool ok = e == nullptr; int code = e ? (int)e->code : -1; std::string msg = e ? e->message : ""; xrl_clear_error(&e);
      bool same = false; std::string what; long lx0 = W_live; int xc = guarded([&] { xrlpp::radioNuclideData x = xrlpp::GetRadioNuclideDataByName(s); same = c && x.name == c->name && x.Z == c->Z && x.A == c->A && x.N == c->N && x.Z_xray == c->Z_xray && x.nXrays == c->nXrays && x.nGammas == c->nGammas && veq(x.XrayLines, c->XrayLines, c->nXrays) && veq(x.XrayIntensities, c->XrayIntensities, c->nXrays) && veq(x.GammaEnergies, c->GammaEnergies, c->nGammas) && veq(x.GammaIntensities, c->GammaIntensities, c->nGammas); }, what);
      long leak_x = W_live - lx0; if (c) FreeRadioNuclideData(c); observe("GetRadioNuclideDataByName", *s ? "text," : "empty,", ok, code, msg, same, xc, what, W_live - l0 - leak_x, leak_x, w); }
    { xrl_error *e = nullptr; long l0 = W_live; int z = ::SymbolToAtomicNumber(s, &e); bool ok = e == nullptr; int code = e ? (int)e->code : -1; std::string msg = e ? e->message : ""; xrl_clear_error(&e);
      bool same = false; std::string what; long lx0 = W_live; int xc = guarded([&] { same = xrlpp::SymbolToAtomicNumber(s) == z; }, what); observe("SymbolToAtomicNumber", *s ? "text," : "empty,", ok, code, msg, same, xc, what, W_live - l0 - (W_live - lx0), W_live - lx0, w); }
    { // crystals: the wrapper object owns its own C copy; it must stay valid after the C original is released
      xrl_error *e = nullptr; long l0 = W_live; Crystal_Struct *c = ::Crystal_GetCrystal(s, nullptr, &e); bool ok = e == nullptr; int code = e ? (int)e->code : -1; std::string msg = e ? e->message : ""; xrl_clear_error(&e);
      double cd = c ? ::Crystal_dSpacing(c, 1, 1, 1, nullptr) : 0, cb = c ? ::Bragg_angle(c, 10.0, 1, 1, 1, nullptr) : 0, cv = c ? ::Crystal_UnitCellVolume(c, nullptr) : 0; xrlComplex cf = {0, 0}; if (c) cf = ::Crystal_F_H_StructureFactor(c, 10.0, 1, 1, 1, 1.0, 1.0, nullptr);
      std::string cname = c ? c->name : ""; int cn = c ? c->n_atom : 0; double ca = c ? c->a : 0;
      if (c) ::Crystal_Free(c);                 // the C original is gone before the wrapper is used
      bool same = false; std::string what; long lx0 = W_live;
      int xc = guarded([&] { xrlpp::Crystal::Struct x = xrlpp::Crystal::GetCrystal(s); xrlpp::Crystal::Struct y(x); std::complex<double> f = y.F_H_StructureFactor(10.0, 1, 1, 1, 1.0, 1.0);
                             same = x.name == cname && x.n_atom == cn && biteq(x.a, ca) && biteq(y.dSpacing(1, 1, 1), cd) && biteq(y.Bragg_angle(10.0, 1, 1, 1), cb) && biteq(x.UnitCellVolume(), cv) && biteq(f.real(), cf.re) && biteq(f.imag(), cf.im) && (int)y.atom.size() == cn; }, what);
      observe("Crystal::GetCrystal", *s ? "text," : "empty,", ok, code, msg, same, xc, what, W_live - l0 - (W_live - lx0), W_live - lx0, w); }
    for (double E : {-1.0, 1.0, 30.0}) for (double rho : {-1.0, 1.0}) {
      xrl_error *e = nullptr; long l0 = W_live; xrlComplex z = ::Refractive_Index(s, E, rho, &e); bool ok = e == nullptr; int code = e ? (int)e->code : -1; std::string msg = e ? e->message : ""; xrl_clear_error(&e); long lc = W_live - l0;
      bool same = false; std::string what; long lx0 = W_live; int xc = guarded([&] { std::complex<double> x = xrlpp::Refractive_Index(s, E, rho); same = biteq(x.real(), z.re) && biteq(x.imag(), z.im); }, what);
      observe("Refractive_Index", std::string(*s ? "text," : "empty,") + dcls(E) + "," + dcls(rho) + ",", ok, code, msg, same, xc, what, lc, W_live - lx0, w); }
  }
  for (int i = -3; i <= 190; i++) {
    snprintf(w, sizeof w, "{\"i\":[%d]}", i);
    { xrl_error *e = nullptr; long l0 = W_live; struct compoundDataNIST *c = ::GetCompoundDataNISTByIndex(i, &e); bool ok = e == nullptr; int code = e ? (int)e->code : -1; std::string msg = e ? e->message : ""; xrl_clear_error(&e);
      bool same = false; std::string what; long lx0 = W_live; int xc = guarded([&] { xrlpp::compoundDataNIST x = xrlpp::GetCompoundDataNISTByIndex(i); same = c && x.name == c->name && veq(x.Elements, c->Elements, c->nElements) && veq(x.massFractions, c->massFractions, c->nElements) && biteq(x.density, c->density); }, what);
      long leak_x = W_live - lx0; if (c) FreeCompoundDataNIST(c); observe("GetCompoundDataNISTByIndex", icls(i), ok, code, msg, same, xc, what, W_live - l0 - leak_x, leak_x, w); }
    if (i <= 14) { xrl_error *e = nullptr; long l0 = W_live; struct radioNuclideData *c = ::GetRadioNuclideDataByIndex(i, &e); bool ok = e == nullptr; int code = e ? (int)e->code : -1; std::string msg = e ? e->message : ""; xrl_clear_error(&e);
      bool same = false; std::string what; long lx0 = W_live; int xc = guarded([&] { xrlpp::radioNuclideData x = xrlpp::GetRadioNuclideDataByIndex(i); same = c && x.name == c->name && x.Z == c->Z && veq(x.XrayLines, c->XrayLines, c->nXrays) && veq(x.GammaEnergies, c->GammaEnergies, c->nGammas); }, what);
      long leak_x = W_live - lx0; if (c) FreeRadioNuclideData(c); observe("GetRadioNuclideDataByIndex", icls(i), ok, code, msg, same, xc, what, W_live - l0 - leak_x, leak_x, w); }
    if (i <= 125) { xrl_error *e = nullptr; long l0 = W_live; char *c = ::AtomicNumberToSymbol(i, &e); bool ok = e == nullptr; int code = e ? (int)e->code : -1; std::string msg = e ? e->message : ""; xrl_clear_error(&e);
      bool same = false; std::string what; long lx0 = W_live; int xc = guarded([&] { std::string x = xrlpp::AtomicNumberToSymbol(i); same = c && x == c; }, what); long leak_x = W_live - lx0; if (c) ::xrlFree(c); observe("AtomicNumberToSymbol", icls(i), ok, code, msg, same, xc, what, W_live - l0 - leak_x, leak_x, w); }
  }
  { long l0 = W_live; std::string what; bool same = false; int n1 = 0, n2 = 0; char **a = ::GetCompoundDataNISTList(&n1, nullptr), **b = ::GetRadioNuclideDataList(&n2, nullptr);
    int xc = guarded([&] { auto x = xrlpp::GetCompoundDataNISTList(); auto y = xrlpp::GetRadioNuclideDataList(); same = (int)x.size() == n1 && (int)y.size() == n2; for (int i = 0; same && i < n1; i++) same = x[i] == a[i]; for (int i = 0; same && i < n2; i++) same = y[i] == b[i]; }, what);
    for (int i = 0; i < n1; i++) ::xrlFree(a[i]); ::xrlFree(a); for (int i = 0; i < n2; i++) ::xrlFree(b[i]); ::xrlFree(b);
    observe("GetCompoundDataNISTList+GetRadioNuclideDataList", "", true, -1, "", same, xc, what, 0, W_live - l0, "{}"); }
}
int main(int argc, char **argv) {
  int part = argc > 1 ? atoi(argv[1]) : 0, np = argc > 2 ? atoi(argv[2]) : 1; bool thorough = argc > 3 && !strcmp(argv[3], "thorough");
  if (!freopen("/dev/null", "w", stderr)) return 2;
  build_lists(thorough); int idx = 0;
  for (const CxxFn *f = CXX_TABLE; f->name; f++, idx++) if (idx % np == part) { drive(*f, thorough); printf("{\"k\":\"drove\",\"fn\":\"%s\"}\n", f->name); }
  if (part == 0) { drive_objects(); for (const char **s = CXX_SKIPPED; *s; s++) printf("{\"k\":\"skipped\",\"fn\":\"%s\"}\n", *s); }
  for (auto &kv : table) printf("{\"k\":\"xcls\",%s,\"n\":%ld,\"w\":%s}\n", kv.first.c_str(), kv.second.n, kv.second.wit.c_str());
  printf("{\"k\":\"sum\",\"calls\":%ld,\"classes\":%zu}\n", ncalls, table.size());
  return 0;
}
