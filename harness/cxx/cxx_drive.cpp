// C18: every C++ wrapper against the C function of the same name on the C03 argument grid.  Observation per call:
// C outcome (value / error code + message), C++ outcome (value / exception class + what()), and the change of the number of
// live heap blocks allocated by the library (link-time --wrap counters; operator new lives in libstdc++.so and is not counted).
// Calls are folded into classes (wrapper, argument classes, outcome relation, leak) with count and first witness.
#include <cstdio>
#include <cstring>
#include <cmath>
#include <cstdint>
#include <cstdlib>
#include <map>
#include <vector>
#include <string>
#include <thread>
#include <atomic>
#include <iterator>
#include <complex>
#include <functional>
#include "cxx_api.h"
#include "gen_cxx.cpp"      // generated table, same translation unit: xraylib++.h defines non-inline functions
extern "C" { extern long W_live; }
struct Cls { long n; std::string wit; };
static std::map<std::string, Cls> table; static long ncalls = 0;
static void fold(const std::string &key, const std::string &wit) { auto it = table.find(key); if (it == table.end()) table[key] = Cls{1, wit}; else it->second.n++; ncalls++; }
static const char *icls(int v) { return v < 0 ? "neg" : v == 0 ? "zero" : v <= 120 ? "small" : "large"; }
static const char *dcls(double v) { return std::isnan(v) ? "nan" : std::isinf(v) ? "inf" : v < 0 ? "neg" : v == 0 ? "zero" : v < 1e-6 ? "tiny" : v > 1e6 ? "huge" : "normal"; }
static bool biteq(double a, double b) { return std::memcmp(&a, &b, 8) == 0; }
static std::string esc(const char *s) { std::string o; for (; s && *s; s++) { unsigned char c = (unsigned char)*s; if (c == '"' || c == '\\') { o += '\\'; o += (char)c; } else if (c < 0x20 || c >= 0x7f) { char b[8]; snprintf(b, sizeof b, "\\u%04x", c); o += b; } else o += (char)c; } return o; }
// exception class names as the property words them
enum { X_NONE, X_INVALID, X_BADALLOC, X_RUNTIME, X_OTHER };
static const char *XN[] = {"none", "invalid_argument", "bad_alloc", "runtime_error", "other"};
template <typename F> static int guarded(F f, std::string &what) {
  try { f(); return X_NONE; }
  catch (const std::invalid_argument &e) { what = e.what(); return X_INVALID; }
  catch (const std::bad_alloc &e) { what = e.what(); return X_BADALLOC; }
  catch (const std::runtime_error &e) { what = e.what(); return X_RUNTIME; }
  catch (...) { what = "?"; return X_OTHER; }
}
// one observation: the C outcome and the C++ outcome of the same call
static void observe(const char *fn, const std::string &argc, bool c_ok, int c_code, const std::string &c_msg, bool same_value, int xcls, const std::string &what, long leak_c, long leak_cxx, const std::string &wit) {
  char key[700];
  snprintf(key, sizeof key, "\"fn\":\"%s\",\"argc\":\"%s\",\"c_ok\":%d,\"c_code\":%d,\"thrown\":\"%s\",\"same_value\":%d,\"same_msg\":%d,\"leak_c\":%d,\"leak_cxx\":%d",
           fn, argc.c_str(), c_ok, c_code, XN[xcls], same_value, xcls == X_BADALLOC ? 1 : (what == c_msg), leak_c != 0, leak_cxx != 0);
  fold(key, wit);
}
static double ELIST[64]; static int NE; static double ALIST[16]; static int NA;
static const char *SLIST[] = {"", "H2O", "Ca5(PO4)3OH", "Fe", "U", "Rf", "Water, Liquid", "Gadolinium Oxysulfide", "garbage!", "H2O)", "Unobtainium", "SiO2", "Pu"};
static const int NS = sizeof SLIST / sizeof *SLIST;
static void build_lists(bool thorough) {
  static const double eq[] = {-1.0, 0.0, 1e-300, 1e-6, 0.05, 0.1, 1.0, 8.9789, 8.98, 20.0, 100.0, 799.9, 1000.0, 1e6, 1e300};
  static const double et[] = {0.001, 0.0099, 0.5, 2.0, 5.0, 10.0, 28.0, 50.0, 88.0, 115.6, 200.0, 500.0, 800.1, 1e4};
  NE = 0; for (double v : eq) ELIST[NE++] = v; if (thorough) for (double v : et) ELIST[NE++] = v;
  static const double aq[] = {0.0, 1e-9, 0.7853981633974483, 1.5707963267948966, 3.141592653589793, -1.5707963267948966, 6.783185307179586};
  NA = 0; for (double v : aq) ALIST[NA++] = v;
}
static void drive(const CxxFn &f, bool thorough) {
  int ia[2] = {0, 0}; double da[3] = {0, 0, 0};
  int zlo = f.ni ? -3 : 0, zhi = f.ni ? 125 : 0, mlo = f.ni > 1 ? f.mlo : 0, mhi = f.ni > 1 ? f.mhi : 0;
  for (int si = 0; si < (f.ns ? NS : 1); si++) for (int Z = zlo; Z <= zhi; Z++) for (int m = mlo; m <= mhi; m++) {
    const char *s = f.ns ? SLIST[si] : ""; ia[0] = Z; ia[1] = m;
    double el[96]; int ne = 0; for (int i = 0; i < NE; i++) el[ne++] = ELIST[i];
    if (f.nd && f.ni && Z >= 1 && Z <= 120 && (m == mlo || f.ni == 1)) for (int sh = 0; sh <= 3; sh += 3) { double ed = EdgeEnergy(Z, sh, nullptr); if (ed > 0) { el[ne++] = ed * (1 - 1e-9); el[ne++] = ed * (1 + 1e-9); } }
    int n0 = f.nd >= 1 ? ne : 1, n1 = f.nd >= 2 ? NA : 1, n2 = f.nd >= 3 ? (thorough ? NA : 3) : 1;
    for (int a = 0; a < n0; a++) for (int b = 0; b < n1; b++) for (int c = 0; c < n2; c++) {
      da[0] = f.nd >= 1 ? el[a] : 0; da[1] = f.nd >= 2 ? ALIST[b] : 0; da[2] = f.nd >= 3 ? ALIST[c] : 0;
      xrl_error *e = nullptr; long l0 = W_live; double cv = f.c(ia, da, s, &e); bool c_ok = e == nullptr; int code = e ? (int)e->code : -1; std::string cmsg = e ? e->message : ""; xrl_clear_error(&e); long leak_c = W_live - l0;
      double xv = 0; std::string what; l0 = W_live; int xc = guarded([&] { xv = f.cxx(ia, da, s); }, what); long leak_x = W_live - l0;
      std::string argc; if (f.ns) argc += *s ? "text," : "empty,"; for (int i = 0; i < f.ni; i++) { argc += icls(ia[i]); argc += ","; } for (int i = 0; i < f.nd; i++) { argc += dcls(da[i]); argc += ","; }
      char w[400]; uint64_t bb[3]; std::memcpy(bb, da, 24);
      snprintf(w, sizeof w, "{\"s\":\"%s\",\"i\":[%d,%d],\"d\":[[%d,%d],[%d,%d],[%d,%d]]}", esc(s).c_str(), ia[0], ia[1], (int32_t)(bb[0] >> 32), (int32_t)bb[0], (int32_t)(bb[1] >> 32), (int32_t)bb[1], (int32_t)(bb[2] >> 32), (int32_t)bb[2]);
      observe(f.name, argc, c_ok, code, cmsg, xc == X_NONE && biteq(cv, xv), xc, what, leak_c, leak_x, w);
    }
  }
}
// ---- hand-written wrappers: objects and their field-by-field conversion
template <typename V, typename P> static bool veq(const V &v, const P *p, int n) { if ((int)v.size() != n) return false; for (int i = 0; i < n; i++) if (std::memcmp(&v[i], &p[i], sizeof(p[i]))) return false; return true; }
static void wit_s(char *w, size_t n, const char *s) { std::string t = esc(std::string(s ? s : "").substr(0, 40).c_str()); snprintf(w, n, "{\"s\":\"%s\",\"len\":%zu}", t.c_str(), s ? strlen(s) : (size_t)0); }     // a long name is cut before escaping: the witness stays well-formed
static void drive_objects() {
  static const char *FORM[] = {"", "H", "H2O", "Ca5(PO4)3OH", "(((H)))", "H2O)", "(H2O", "()", "H0", "2O", "Rf", "Xx", "CuI2ww", "Fe2O3", "Fe 2", "U0.5Pu0.5O2", "Water, Liquid", "Si", "55Fe", "241Am", "Diamond", "nope"};
  char w[300];
  // names far longer than any fixed buffer: three wrappers echo the caller's name in the message they carry
  static std::string long1 = "Nq" + std::string(609, 'q'), long2 = "Zz" + std::string(5009, 'z');
  std::vector<const char *> forms(std::begin(FORM), std::end(FORM)); forms.push_back(long1.c_str()); forms.push_back(long2.c_str());
  for (const char *s : forms) {
    wit_s(w, sizeof w, s);
    { xrl_error *e = nullptr; long l0 = W_live; struct compoundData *c = ::CompoundParser(s, &e); bool ok = e == nullptr; int code = e ? (int)e->code : -1; std::string msg = e ? e->message : ""; xrl_clear_error(&e);
      bool same = false; std::string what; long lx0 = W_live; int xc = guarded([&] { xrlpp::compoundData x = xrlpp::CompoundParser(s); same = c && x.nElements == c->nElements && veq(x.Elements, c->Elements, c->nElements) && veq(x.massFractions, c->massFractions, c->nElements) && veq(x.nAtoms, c->nAtoms, c->nElements) && biteq(x.nAtomsAll, c->nAtomsAll) && biteq(x.molarMass, c->molarMass); }, what);
      long leak_x = W_live - lx0; if (c) FreeCompoundData(c); observe("CompoundParser", *s ? "text," : "empty,", ok, code, msg, same, xc, what, W_live - l0 - leak_x, leak_x, w); }
    { xrl_error *e = nullptr; long l0 = W_live; struct compoundDataNIST *c = ::GetCompoundDataNISTByName(s, &e); bool ok = e == nullptr; int code = e ? (int)e->code : -1; std::string msg = e ? e->message : ""; xrl_clear_error(&e);
      bool same = false; std::string what; long lx0 = W_live; int xc = guarded([&] { xrlpp::compoundDataNIST x = xrlpp::GetCompoundDataNISTByName(s); same = c && x.name == c->name && x.nElements == c->nElements && veq(x.Elements, c->Elements, c->nElements) && veq(x.massFractions, c->massFractions, c->nElements) && biteq(x.density, c->density); }, what);
      long leak_x = W_live - lx0; if (c) FreeCompoundDataNIST(c); observe("GetCompoundDataNISTByName", *s ? "text," : "empty,", ok, code, msg, same, xc, what, W_live - l0 - leak_x, leak_x, w); }
    { xrl_error *e = nullptr; long l0 = W_live; struct radioNuclideData *c = ::GetRadioNuclideDataByName(s, &e); bool ok = e == nullptr; int code = e ? (int)e->code : -1; std::string msg = e ? e->message : ""; xrl_clear_error(&e);
      bool same = false; std::string what; long lx0 = W_live; int xc = guarded([&] { xrlpp::radioNuclideData x = xrlpp::GetRadioNuclideDataByName(s); same = c && x.name == c->name && x.Z == c->Z && x.A == c->A && x.N == c->N && x.Z_xray == c->Z_xray && x.nXrays == c->nXrays && x.nGammas == c->nGammas && veq(x.XrayLines, c->XrayLines, c->nXrays) && veq(x.XrayIntensities, c->XrayIntensities, c->nXrays) && veq(x.GammaEnergies, c->GammaEnergies, c->nGammas) && veq(x.GammaIntensities, c->GammaIntensities, c->nGammas); }, what);
      long leak_x = W_live - lx0; if (c) FreeRadioNuclideData(c); observe("GetRadioNuclideDataByName", *s ? "text," : "empty,", ok, code, msg, same, xc, what, W_live - l0 - leak_x, leak_x, w); }
    { xrl_error *e = nullptr; long l0 = W_live; int z = ::SymbolToAtomicNumber(s, &e); bool ok = e == nullptr; int code = e ? (int)e->code : -1; std::string msg = e ? e->message : ""; xrl_clear_error(&e);
      bool same = false; std::string what; long lx0 = W_live; int xc = guarded([&] { same = xrlpp::SymbolToAtomicNumber(s) == z; }, what); observe("SymbolToAtomicNumber", *s ? "text," : "empty,", ok, code, msg, same, xc, what, W_live - l0 - (W_live - lx0), W_live - lx0, w); }
    { // crystals: the wrapper object owns its own C copy; it must stay valid after the C original is released
      xrl_error *e = nullptr; long l0 = W_live; Crystal_Struct *c = ::Crystal_GetCrystal(s, nullptr, &e); bool ok = e == nullptr; int code = e ? (int)e->code : -1; std::string msg = e ? e->message : ""; xrl_clear_error(&e);
      double cd = c ? ::Crystal_dSpacing(c, 1, 1, 1, nullptr) : 0, cb = c ? ::Bragg_angle(c, 10.0, 1, 1, 1, nullptr) : 0, cv = c ? ::Crystal_UnitCellVolume(c, nullptr) : 0; xrlComplex cf = {0, 0}; if (c) cf = ::Crystal_F_H_StructureFactor(c, 10.0, 1, 1, 1, 1.0, 1.0, nullptr);
      std::string cname = c ? c->name : ""; int cn = c ? c->n_atom : 0; double ca = c ? c->a : 0;
      if (c) ::Crystal_Free(c);                 // the C original is gone before the wrapper is used
      bool same = false; std::string what; long lx0 = W_live;
      int xc = guarded([&] { xrlpp::Crystal::Struct x = xrlpp::Crystal::GetCrystal(s); xrlpp::Crystal::Struct y(x); std::complex<double> f = y.F_H_StructureFactor(10.0, 1, 1, 1, 1.0, 1.0);
                             same = x.name == cname && x.n_atom == cn && biteq(x.a, ca) && biteq(y.dSpacing(1, 1, 1), cd) && biteq(y.Bragg_angle(10.0, 1, 1, 1), cb) && biteq(x.UnitCellVolume(), cv) && biteq(f.real(), cf.re) && biteq(f.imag(), cf.im) && (int)y.atom.size() == cn; }, what);
      observe("Crystal::GetCrystal", *s ? "text," : "empty,", ok, code, msg, same, xc, what, W_live - l0 - (W_live - lx0), W_live - lx0, w); }
    for (double E : {-1.0, 1.0, 30.0}) for (double rho : {-1.0, 1.0}) {
      xrl_error *e = nullptr; long l0 = W_live; xrlComplex z = ::Refractive_Index(s, E, rho, &e); bool ok = e == nullptr; int code = e ? (int)e->code : -1; std::string msg = e ? e->message : ""; xrl_clear_error(&e); long lc = W_live - l0;
      bool same = false; std::string what; long lx0 = W_live; int xc = guarded([&] { std::complex<double> x = xrlpp::Refractive_Index(s, E, rho); same = biteq(x.real(), z.re) && biteq(x.imag(), z.im); }, what);
      observe("Refractive_Index", std::string(*s ? "text," : "empty,") + dcls(E) + "," + dcls(rho) + ",", ok, code, msg, same, xc, what, lc, W_live - lx0, w); }
  }
  for (int i = -3; i <= 190; i++) {
    snprintf(w, sizeof w, "{\"i\":[%d]}", i);
    { xrl_error *e = nullptr; long l0 = W_live; struct compoundDataNIST *c = ::GetCompoundDataNISTByIndex(i, &e); bool ok = e == nullptr; int code = e ? (int)e->code : -1; std::string msg = e ? e->message : ""; xrl_clear_error(&e);
      bool same = false; std::string what; long lx0 = W_live; int xc = guarded([&] { xrlpp::compoundDataNIST x = xrlpp::GetCompoundDataNISTByIndex(i); same = c && x.name == c->name && veq(x.Elements, c->Elements, c->nElements) && veq(x.massFractions, c->massFractions, c->nElements) && biteq(x.density, c->density); }, what);
      long leak_x = W_live - lx0; if (c) FreeCompoundDataNIST(c); observe("GetCompoundDataNISTByIndex", icls(i), ok, code, msg, same, xc, what, W_live - l0 - leak_x, leak_x, w); }
    if (i <= 14) { xrl_error *e = nullptr; long l0 = W_live; struct radioNuclideData *c = ::GetRadioNuclideDataByIndex(i, &e); bool ok = e == nullptr; int code = e ? (int)e->code : -1; std::string msg = e ? e->message : ""; xrl_clear_error(&e);
      bool same = false; std::string what; long lx0 = W_live; int xc = guarded([&] { xrlpp::radioNuclideData x = xrlpp::GetRadioNuclideDataByIndex(i); same = c && x.name == c->name && x.Z == c->Z && veq(x.XrayLines, c->XrayLines, c->nXrays) && veq(x.GammaEnergies, c->GammaEnergies, c->nGammas); }, what);
      long leak_x = W_live - lx0; if (c) FreeRadioNuclideData(c); observe("GetRadioNuclideDataByIndex", icls(i), ok, code, msg, same, xc, what, W_live - l0 - leak_x, leak_x, w); }
    if (i <= 125) { xrl_error *e = nullptr; long l0 = W_live; char *c = ::AtomicNumberToSymbol(i, &e); bool ok = e == nullptr; int code = e ? (int)e->code : -1; std::string msg = e ? e->message : ""; xrl_clear_error(&e);
      bool same = false; std::string what; long lx0 = W_live; int xc = guarded([&] { std::string x = xrlpp::AtomicNumberToSymbol(i); same = c && x == c; }, what); long leak_x = W_live - lx0; if (c) ::xrlFree(c); observe("AtomicNumberToSymbol", icls(i), ok, code, msg, same, xc, what, W_live - l0 - leak_x, leak_x, w); }
  }
  { long l0 = W_live; std::string what; bool same = false; int n1 = 0, n2 = 0; char **a = ::GetCompoundDataNISTList(&n1, nullptr), **b = ::GetRadioNuclideDataList(&n2, nullptr);
    int xc = guarded([&] { auto x = xrlpp::GetCompoundDataNISTList(); auto y = xrlpp::GetRadioNuclideDataList(); same = (int)x.size() == n1 && (int)y.size() == n2; for (int i = 0; same && i < n1; i++) same = x[i] == a[i]; for (int i = 0; same && i < n2; i++) same = y[i] == b[i]; }, what);
    for (int i = 0; i < n1; i++) ::xrlFree(a[i]); ::xrlFree(a); for (int i = 0; i < n2; i++) ::xrlFree(b[i]); ::xrlFree(b);
    observe("GetCompoundDataNISTList+GetRadioNuclideDataList", "", true, -1, "", same, xc, what, 0, W_live - l0, "{}"); }
}
// ---- the crystal wrappers: member functions and free functions of namespace Crystal, on the same crystal as the C call
#include <unistd.h>
#include <sys/wait.h>
struct COut { int ok, code; char msg[200]; double v[2]; int iv; };
static void wit_c(char *w, size_t n, const char *s, const int *h, double E, double deb, double rel, const int *fl) {
  uint64_t b[3]; std::memcpy(&b[0], &E, 8); std::memcpy(&b[1], &deb, 8); std::memcpy(&b[2], &rel, 8);
  snprintf(w, n, "{\"s\":\"%s\",\"i\":[%d,%d,%d,%d,%d,%d],\"d\":[[%d,%d],[%d,%d],[%d,%d]]}", esc(s).c_str(), h[0], h[1], h[2], fl ? fl[0] : 9, fl ? fl[1] : 9, fl ? fl[2] : 9,
           (int32_t)(b[0] >> 32), (int32_t)b[0], (int32_t)(b[1] >> 32), (int32_t)b[1], (int32_t)(b[2] >> 32), (int32_t)b[2]);
}
static void drive_crystals(bool thorough, int part, int np) {
  int nc = 0; char **names = ::Crystal_GetCrystalsList(nullptr, &nc, nullptr);
  static const int MI[][3] = {{0, 0, 0}, {1, 1, 1}, {2, 2, 0}, {-1, 2, 3}, {4, 0, 0}, {12, 0, 7}};
  static const double CE[] = {-1.0, 0.0, 0.3, 8.0, 100.0}, RA[] = {0.0, 1.0, 1.3}, DB[] = {-1.0, 0.5, 1.0};
  static const int FL[][3] = {{2, 2, 2}, {0, 0, 0}, {1, 2, 0}, {3, 2, 2}, {2, 1, 2}, {2, 2, 5}};
  char w[400];
  for (int ci = 0; ci < nc; ci++) {
    if (ci % np != part || (!thorough && ci % 3 != 0 && strcmp(names[ci], "Si") && strcmp(names[ci], "Muscovite"))) continue;
    Crystal_Struct *c = ::Crystal_GetCrystal(names[ci], nullptr, nullptr); if (!c) continue;
    xrlpp::Crystal::Struct x = xrlpp::Crystal::GetCrystal(names[ci]);
    // a (C value, C error) pair against the member function and against the free function of the same name
    auto pairD = [&](const char *fn, const std::string &argc, double cv, xrl_error *e, long leak_c, const char *wit, std::function<double()> member, std::function<double()> freef) {
      bool ok = e == nullptr; int code = e ? (int)e->code : -1; std::string msg = e ? e->message : ""; xrl_clear_error(&e);
      for (int k = 0; k < 2; k++) { double xv = 0; std::string what; long l0 = W_live; int xc = guarded([&] { xv = k ? freef() : member(); }, what);
        observe((std::string(k ? "Crystal::" : "Crystal::Struct::") + fn).c_str(), argc, ok, code, msg, xc == X_NONE && biteq(cv, xv), xc, what, leak_c, W_live - l0, wit); } };
    auto pairC = [&](const char *fn, const std::string &argc, xrlComplex cv, xrl_error *e, long leak_c, const char *wit, std::function<std::complex<double>()> member, std::function<std::complex<double>()> freef) {
      bool ok = e == nullptr; int code = e ? (int)e->code : -1; std::string msg = e ? e->message : ""; xrl_clear_error(&e);
      for (int k = 0; k < 2; k++) { std::complex<double> xv; std::string what; long l0 = W_live; int xc = guarded([&] { xv = k ? freef() : member(); }, what);
        observe((std::string(k ? "Crystal::" : "Crystal::Struct::") + fn).c_str(), argc, ok, code, msg, xc == X_NONE && biteq(cv.re, xv.real()) && biteq(cv.im, xv.imag()), xc, what, leak_c, W_live - l0, wit); } };
    { int h0[3] = {0, 0, 0}; wit_c(w, sizeof w, names[ci], h0, 0, 0, 0, nullptr); xrl_error *e = nullptr; long l0 = W_live; double v = ::Crystal_UnitCellVolume(c, &e); long lc = W_live - l0 - (e ? 2 : 0);
      pairD("UnitCellVolume", "", v, e, lc, w, [&] { return x.UnitCellVolume(); }, [&] { return xrlpp::Crystal::UnitCellVolume(x); }); }
    for (auto &h : MI) {
      bool zero = !h[0] && !h[1] && !h[2]; std::string hc = zero ? "h0," : "h,";
      { wit_c(w, sizeof w, names[ci], h, 0, 0, 0, nullptr); xrl_error *e = nullptr; long l0 = W_live; double v = ::Crystal_dSpacing(c, h[0], h[1], h[2], &e); long lc = W_live - l0 - (e ? 2 : 0);
        pairD("dSpacing", hc, v, e, lc, w, [&] { return x.dSpacing(h[0], h[1], h[2]); }, [&] { return xrlpp::Crystal::dSpacing(x, h[0], h[1], h[2]); }); }
      for (double E : CE) {
        { wit_c(w, sizeof w, names[ci], h, E, 0, 0, nullptr); xrl_error *e = nullptr; long l0 = W_live; double v = ::Bragg_angle(c, E, h[0], h[1], h[2], &e); long lc = W_live - l0 - (e ? 2 : 0);
          pairD("Bragg_angle", hc + dcls(E) + ",", v, e, lc, w, [&] { return x.Bragg_angle(E, h[0], h[1], h[2]); }, [&] { return xrlpp::Crystal::Bragg_angle(x, E, h[0], h[1], h[2]); }); }
        for (double rel : RA) {
          { wit_c(w, sizeof w, names[ci], h, E, 0, rel, nullptr); xrl_error *e = nullptr; long l0 = W_live; double v = ::Q_scattering_amplitude(c, E, h[0], h[1], h[2], rel, &e); long lc = W_live - l0 - (e ? 2 : 0);
            pairD("Q_scattering_amplitude", hc + dcls(E) + "," + dcls(rel) + ",", v, e, lc, w, [&] { return x.Q_scattering_amplitude(E, h[0], h[1], h[2], rel); }, [&] { return xrlpp::Crystal::Q_scattering_amplitude(x, E, h[0], h[1], h[2], rel); }); }
          for (double deb : DB) {
            { wit_c(w, sizeof w, names[ci], h, E, deb, rel, nullptr); xrl_error *e = nullptr; long l0 = W_live; xrlComplex v = ::Crystal_F_H_StructureFactor(c, E, h[0], h[1], h[2], deb, rel, &e); long lc = W_live - l0 - (e ? 2 : 0);
              pairC("F_H_StructureFactor", hc + dcls(E) + "," + dcls(deb) + "," + dcls(rel) + ",", v, e, lc, w, [&] { return x.F_H_StructureFactor(E, h[0], h[1], h[2], deb, rel); }, [&] { return xrlpp::Crystal::F_H_StructureFactor(x, E, h[0], h[1], h[2], deb, rel); }); }
            if (rel == 1.3 || thorough) for (auto &fl : FL) {
              wit_c(w, sizeof w, names[ci], h, E, deb, rel, fl); xrl_error *e = nullptr; long l0 = W_live; xrlComplex v = ::Crystal_F_H_StructureFactor_Partial(c, E, h[0], h[1], h[2], deb, rel, fl[0], fl[1], fl[2], &e); long lc = W_live - l0 - (e ? 2 : 0);
              bool valid = (fl[0] >= 0 && fl[0] <= 2) && (fl[1] == 0 || fl[1] == 2) && (fl[2] == 0 || fl[2] == 2);
              pairC("F_H_StructureFactor_Partial", hc + dcls(E) + "," + dcls(deb) + "," + dcls(rel) + (valid ? ",flags," : ",badflags,"), v, e, lc, w,
                    [&] { return x.F_H_StructureFactor_Partial(E, h[0], h[1], h[2], deb, rel, fl[0], fl[1], fl[2]); }, [&] { return xrlpp::Crystal::F_H_StructureFactor_Partial(x, E, h[0], h[1], h[2], deb, rel, fl[0], fl[1], fl[2]); });
            }
          }
        }
      }
    }
    // copies, containers and moves of the wrapper object: every one of them must describe the same crystal as the C struct and own storage of its own
    { int h[3] = {1, 1, 1}; wit_c(w, sizeof w, names[ci], h, 8.0, 0.9, 1.3, nullptr);
      auto fields = [&](const xrlpp::Crystal::Struct &s) { return s.name == c->name && biteq(s.a, c->a) && biteq(s.b, c->b) && biteq(s.c, c->c) && biteq(s.alpha, c->alpha) && biteq(s.beta, c->beta) && biteq(s.gamma, c->gamma) && biteq(s.volume, c->volume) && s.n_atom == c->n_atom && (int)s.atom.size() == c->n_atom; };
      double cd = ::Crystal_dSpacing(c, 1, 1, 1, nullptr), cb = ::Bragg_angle(c, 8.0, 1, 1, 1, nullptr); xrlComplex cf = ::Crystal_F_H_StructureFactor(c, 8.0, 1, 1, 1, 0.9, 1.3, nullptr);
      auto behaves = [&](xrlpp::Crystal::Struct &s) { std::complex<double> f = s.F_H_StructureFactor(8.0, 1, 1, 1, 0.9, 1.3); return fields(s) && biteq(s.dSpacing(1, 1, 1), cd) && biteq(s.Bragg_angle(8.0, 1, 1, 1), cb) && biteq(f.real(), cf.re) && biteq(f.imag(), cf.im); };
      bool same = false; std::string what; long l0 = W_live;
      int xc = guarded([&] {
        xrlpp::Crystal::Struct y(x);                                          // copy construction
        std::vector<xrlpp::Crystal::Struct> v; v.push_back(xrlpp::Crystal::GetCrystal(names[ci])); v.push_back(x); v.push_back(y);    // temporaries into a container (moved if the class can move), reallocation of the container
        xrlpp::Crystal::Struct z(std::move(v[1]));                            // explicit move (a copy if the class cannot move)
        same = behaves(y) && behaves(v[0]) && behaves(v[2]) && behaves(z) && behaves(x);
      }, what);
      observe("Crystal::Struct(copy,move,container)", "", true, -1, "", same, xc, what, 0, W_live - l0, w); }
    // the public constructor: a Struct built field by field must behave like a C struct with the same fields (here with a volume of the caller's choosing)
    { Crystal_Struct *c2 = ::Crystal_MakeCopy(c, nullptr); c2->volume = c->volume * 1.25;
      xrlpp::Crystal::Struct y(std::string(names[ci]) + "_built", x.a, x.b, x.c, x.alpha, x.beta, x.gamma, x.volume * 1.25, x.atom);
      int h[3] = {1, 1, 1}; wit_c(w, sizeof w, names[ci], h, 8.0, 0.9, 1.3, nullptr);
      { xrl_error *e = nullptr; long l0 = W_live; double v = ::Crystal_dSpacing(c2, 1, 1, 1, &e); long lc = W_live - l0 - (e ? 2 : 0); pairD("dSpacing(built)", "h,", v, e, lc, w, [&] { return y.dSpacing(1, 1, 1); }, [&] { return xrlpp::Crystal::dSpacing(y, 1, 1, 1); }); }
      { xrl_error *e = nullptr; long l0 = W_live; double v = ::Crystal_UnitCellVolume(c2, &e); long lc = W_live - l0 - (e ? 2 : 0); pairD("UnitCellVolume(built)", "", v, e, lc, w, [&] { return y.UnitCellVolume(); }, [&] { return xrlpp::Crystal::UnitCellVolume(y); }); }
      { xrl_error *e = nullptr; long l0 = W_live; double v = ::Bragg_angle(c2, 8.0, 1, 1, 1, &e); long lc = W_live - l0 - (e ? 2 : 0); pairD("Bragg_angle(built)", "h,normal,", v, e, lc, w, [&] { return y.Bragg_angle(8.0, 1, 1, 1); }, [&] { return xrlpp::Crystal::Bragg_angle(y, 8.0, 1, 1, 1); }); }
      { xrl_error *e = nullptr; long l0 = W_live; double v = ::Q_scattering_amplitude(c2, 8.0, 1, 1, 1, 1.3, &e); long lc = W_live - l0 - (e ? 2 : 0); pairD("Q_scattering_amplitude(built)", "h,normal,normal,", v, e, lc, w, [&] { return y.Q_scattering_amplitude(8.0, 1, 1, 1, 1.3); }, [&] { return xrlpp::Crystal::Q_scattering_amplitude(y, 8.0, 1, 1, 1, 1.3); }); }
      { xrl_error *e = nullptr; long l0 = W_live; xrlComplex v = ::Crystal_F_H_StructureFactor(c2, 8.0, 1, 1, 1, 0.9, 1.3, &e); long lc = W_live - l0 - (e ? 2 : 0); pairC("F_H_StructureFactor(built)", "h,normal,normal,normal,", v, e, lc, w, [&] { return y.F_H_StructureFactor(8.0, 1, 1, 1, 0.9, 1.3); }, [&] { return xrlpp::Crystal::F_H_StructureFactor(y, 8.0, 1, 1, 1, 0.9, 1.3); }); }
      ::Crystal_Free(c2); }
    ::Crystal_Free(c);
  }
  // Atomic_Factors with absent outputs: the C function skips (and does not range-check) a factor whose pointer is NULL
  for (int Z : {0, 14, 79}) for (double E : {8.0, 1e5}) for (double q : {0.5, -1.0, 1e10}) for (int mask = 0; mask < 7; mask++) {
    double a[3] = {0, 0, 0}, b[3] = {0, 0, 0}; xrl_error *e = nullptr; long l0 = W_live;
    int rv = ::Atomic_Factors(Z, E, q, 1.0, mask & 1 ? nullptr : &a[0], mask & 2 ? nullptr : &a[1], mask & 4 ? nullptr : &a[2], &e); long lc = W_live - l0 - (e ? 2 : 0);
    bool ok = e == nullptr; int code = e ? (int)e->code : -1; std::string msg = e ? e->message : ""; xrl_clear_error(&e);
    int xr = 0; std::string what; l0 = W_live; int xc = guarded([&] { xr = xrlpp::Crystal::Atomic_Factors(Z, E, q, 1.0, mask & 1 ? nullptr : &b[0], mask & 2 ? nullptr : &b[1], mask & 4 ? nullptr : &b[2]); }, what);
    int h0[3] = {Z, mask, 0}; wit_c(w, sizeof w, "", h0, E, 1.0, q, nullptr);
    observe("Crystal::Atomic_Factors", std::string(icls(Z)) + "," + dcls(E) + "," + dcls(q) + ",absent" + std::to_string(mask) + ",", ok, code, msg, xc == X_NONE && xr == rv && biteq(a[0], b[0]) && biteq(a[1], b[1]) && biteq(a[2], b[2]), xc, what, lc, W_live - l0, w);
  }
  // Atomic_Factors: three outputs
  for (int Z = -1 + part; Z <= 121; Z += np) for (double E : CE) for (double q : {0.0, 0.5, -1.0}) for (double deb : DB) {
    double a[3] = {0, 0, 0}, b[3] = {0, 0, 0}; xrl_error *e = nullptr; long l0 = W_live; int rv = ::Atomic_Factors(Z, E, q, deb, &a[0], &a[1], &a[2], &e); long lc = W_live - l0 - (e ? 2 : 0);
    bool ok = e == nullptr; int code = e ? (int)e->code : -1; std::string msg = e ? e->message : ""; xrl_clear_error(&e);
    int xr = 0; std::string what; l0 = W_live; int xc = guarded([&] { xr = xrlpp::Crystal::Atomic_Factors(Z, E, q, deb, &b[0], &b[1], &b[2]); }, what);
    int h0[3] = {Z, 0, 0}; wit_c(w, sizeof w, "", h0, E, deb, q, nullptr);
    observe("Crystal::Atomic_Factors", std::string(icls(Z)) + "," + dcls(E) + "," + dcls(q) + "," + dcls(deb) + ",", ok, code, msg, xc == X_NONE && xr == rv && biteq(a[0], b[0]) && biteq(a[1], b[1]) && biteq(a[2], b[2]), xc, what, lc, W_live - l0, w);
  }
  if (part == 0) {
    { std::string what; bool same = false; int xc = guarded([&] { auto l = xrlpp::Crystal::GetCrystalsList(); same = (int)l.size() == nc; for (int i = 0; same && i < nc; i++) same = l[i] == names[i]; }, what);
      observe("Crystal::GetCrystalsList", "", true, -1, "", same, xc, what, 0, 0, "{}"); }
    // every error code through the class map (the codes the library raises only under conditions that cannot be staged here: memory, io, type, unsupported)
    for (int code = 0; code <= 5; code++) { std::string what; long l0 = W_live; int xc = guarded([&] { xrlpp::_process_error(::xrl_error_new_literal((xrl_error_code)code, "staged message")); }, what);
      snprintf(w, sizeof w, "{\"i\":[%d]}", code); observe("_process_error", "code,", false, code, "staged message", false, xc, what, 0, W_live - l0, w); }
    // Crystal_AddCrystal into the built-in collection: a fresh name until the collection is full (then the C call fails with a run-time error), and a name that is
    // already there.  The C outcome of the very same call in the very same state is obtained in a forked child.
    for (int i = 0; i < 500; i++) for (int dup = 0; dup < (i % 50 == 0 ? 2 : 1); dup++) {
      char nm[32]; snprintf(nm, sizeof nm, dup ? "Si" : "zz%03d", i);
      xrlpp::Crystal::Struct si = xrlpp::Crystal::GetCrystal("Si"); xrlpp::Crystal::Struct x(nm, si.a, si.b, si.c, si.alpha, si.beta, si.gamma, si.volume, si.atom);
      int fd[2]; if (pipe(fd)) break; fflush(stdout); pid_t p = fork();
      if (p == 0) { COut o; std::memset(&o, 0, sizeof o); Crystal_Struct *c = ::Crystal_GetCrystal("Si", nullptr, nullptr); ::xrlFree(c->name); c->name = ::xrl_strdup(nm); xrl_error *e = nullptr; o.iv = ::Crystal_AddCrystal(c, nullptr, &e);
        o.ok = e == nullptr; o.code = e ? (int)e->code : -1; if (e) snprintf(o.msg, sizeof o.msg, "%s", e->message); if (write(fd[1], &o, sizeof o) != (ssize_t)sizeof o) _exit(1); _exit(0); }
      close(fd[1]); COut o; std::memset(&o, 0, sizeof o); bool got = read(fd[0], &o, sizeof o) == (ssize_t)sizeof o; close(fd[0]); int st; waitpid(p, &st, 0); if (!got) { o.ok = 0; o.code = -7; }
      for (int k = 0; k < 2; k++) {
        if (k == 1 && o.ok) break;              // the free function is tried on the same state only when the call cannot succeed (a success changes the state)
        int xr = -99; std::string what; long l0 = W_live; int xc = guarded([&] { xr = k ? xrlpp::Crystal::AddCrystal(x) : x.AddCrystal(); }, what);
        snprintf(w, sizeof w, "{\"s\":\"%s\",\"i\":[%d]}", nm, i);
        observe(k ? "Crystal::AddCrystal" : "Crystal::Struct::AddCrystal", dup ? "present," : "fresh,", o.ok, o.code, o.msg, xc == X_NONE && xr == o.iv, xc, what, 0, xc == X_NONE ? 0 : W_live - l0, w);
      }
    }
  }
  for (int i = 0; i < nc; i++) ::xrlFree(names[i]); ::xrlFree(names);
}
// Failing and succeeding wrapper calls from several threads at once: the C error channel is per call, so every exception must still carry
// the message the C function reports for that thread's own arguments, and every value must equal the serial one.
static void drive_threads() {
  const int NT = 4, ROUNDS = 4000; std::atomic<long> nmis(0), calls(0);
  std::vector<std::string> names, want_nist, want_cryst; std::vector<double> want_cs;
  for (int t = 0; t < NT; t++) { names.push_back("no such thing " + std::string(8 + 37 * t, (char)('a' + t)));
    xrl_error *e = nullptr; ::GetCompoundDataNISTByName(names[t].c_str(), &e); want_nist.push_back(e ? e->message : ""); xrl_clear_error(&e);
    ::Crystal_GetCrystal(names[t].c_str(), nullptr, &e); want_cryst.push_back(e ? e->message : ""); xrl_clear_error(&e);
    want_cs.push_back(::CS_Total(20 + t, 10.0 + t, nullptr)); }
  std::string want_z, want_e; { xrl_error *e = nullptr; ::CS_Total(-1, 1.0, &e); want_z = e ? e->message : ""; xrl_clear_error(&e); ::CS_Total(26, -1.0, &e); want_e = e ? e->message : ""; xrl_clear_error(&e); }
  std::vector<std::thread> th;
  for (int t = 0; t < NT; t++) th.emplace_back([&, t] {
    for (int r = 0; r < ROUNDS; r++) { std::string what; long bad = 0;
      if (guarded([&] { xrlpp::GetCompoundDataNISTByName(names[t]); }, what) != X_INVALID || what != want_nist[t]) bad++;
      if (guarded([&] { xrlpp::Crystal::GetCrystal(names[t]); }, what) != X_INVALID || what != want_cryst[t]) bad++;
      if (guarded([&] { xrlpp::CS_Total(-1, 1.0); }, what) != X_INVALID || what != want_z) bad++;
      if (guarded([&] { xrlpp::CS_Total(26, -1.0); }, what) != X_INVALID || what != want_e) bad++;
      double v = 0; if (guarded([&] { v = xrlpp::CS_Total(20 + t, 10.0 + t); }, what) != X_NONE || !biteq(v, want_cs[t])) bad++;
      nmis += bad; calls += 5; } });
  for (auto &x : th) x.join();
  printf("{\"k\":\"mt\",\"threads\":%d,\"calls\":%ld,\"mismatch\":%ld}\n", NT, calls.load(), nmis.load());
}
int main(int argc, char **argv) {
  int part = argc > 1 ? atoi(argv[1]) : 0, np = argc > 2 ? atoi(argv[2]) : 1; bool thorough = argc > 3 && !strcmp(argv[3], "thorough");
  if (!freopen("/dev/null", "w", stderr)) return 2;
  build_lists(thorough); int idx = 0;
  for (const CxxFn *f = CXX_TABLE; f->name; f++, idx++) if (idx % np == part) { drive(*f, thorough); printf("{\"k\":\"drove\",\"fn\":\"%s\"}\n", f->name); }
  drive_crystals(thorough, part, np);
  if (part == 1 % np) drive_threads();
  if (part == 0) { drive_objects(); for (const char **s = CXX_SKIPPED; *s; s++) printf("{\"k\":\"skipped\",\"fn\":\"%s\"}\n", *s); }
  for (auto &kv : table) printf("{\"k\":\"xcls\",%s,\"n\":%ld,\"w\":%s}\n", kv.first.c_str(), kv.second.n, kv.second.wit.c_str());
  printf("{\"k\":\"sum\",\"calls\":%ld,\"classes\":%zu}\n", ncalls, table.size());
  return 0;
}
