/* C07: the formula parser.  Strings come from (a) a grammar-based generator (with two algebraic rewrites of each formula),
 * (b) all single symbols and ordered pairs, (c) every single-byte insertion / deletion / substitution (bytes 1..255) of seeded
 * valid formulas, (d) all strings up to a small length over a small alphabet.  Logged: the bytes, the outcome, the composition,
 * the numeric locale before and after (the process runs in C.utf8).  Plus add_compound_data on pairs of parsed formulas. */
#include "common.h"
#include <locale.h>
static int locid(void) { const char *l = setlocale(LC_NUMERIC, NULL); const char *all = setlocale(LC_ALL, NULL); if (all && strcmp(all, "C.utf8") && strcmp(all, "C.UTF-8") && l && strcmp(l, "C")) return 3;   /* some other category was changed */ return !l ? -1 : !strcmp(l, "C") ? 0 : !strcmp(l, "C.utf8") || !strcmp(l, "C.UTF-8") ? 1 : 2; }
static void j_cd(struct compoundData *c) {
  if (!c) { fputs("\"ok\":0", OUT); return; }
  fprintf(OUT, "\"ok\":1,\"el\":["); for (int i = 0; i < c->nElements; i++) fprintf(OUT, "%s%d", i ? "," : "", c->Elements[i]);
  fputs("],\"n\":[", OUT); for (int i = 0; i < c->nElements; i++) { if (i) fputc(',', OUT); jd(c->nAtoms ? c->nAtoms[i] : 0.0); }
  fputs("],\"mf\":[", OUT); for (int i = 0; i < c->nElements; i++) { if (i) fputc(',', OUT); jd(c->massFractions[i]); }
  fputs("],\"tot\":", OUT); jd(c->nAtomsAll); fputs(",\"mm\":", OUT); jd(c->molarMass);
}
static int in_group = 0, group_first = 1;
static void one(const char *s, int len, const char *grp) {           /* len bytes, may not contain NUL */
  static char bigbuf[1 << 15]; char small[400]; char *buf = len < 399 ? small : bigbuf; memcpy(buf, s, len); buf[len] = 0;
  if (locid() != 1) setlocale(LC_ALL, "C.utf8");          /* every parse starts from the non-C locale, all categories */
  /* every other parse runs with a per-thread locale installed by the caller (uselocale): it must still be installed afterwards */
  static locale_t mine; static unsigned tick; int use = (tick++ & 1); if (use) { if (!mine) mine = newlocale(LC_ALL_MASK, "C.utf8", (locale_t)0); if (mine) uselocale(mine); else use = 0; }
  /* one parse in five starts from a MIXED process locale (LC_NUMERIC "C" inside C.utf8, or LC_CTYPE C.utf8 inside "C"): every category must be as it was */
  static unsigned mtick; int mixed = (mtick++ % 5 == 4) ? 1 + (int)((mtick / 5) & 1) : 0;
  if (mixed == 1) { setlocale(LC_ALL, "C.utf8"); setlocale(LC_NUMERIC, "C"); } else if (mixed == 2) { setlocale(LC_ALL, "C"); setlocale(LC_CTYPE, "C.utf8"); }
  char all0[512]; snprintf(all0, sizeof all0, "%s", setlocale(LC_ALL, NULL));
  int l0 = locid(); xrl_error *e = NULL; struct compoundData *c = CompoundParser(buf, &e); int l1 = locid();
  if (strcmp(all0, setlocale(LC_ALL, NULL))) l1 = 5;       /* some category differs from what it was */
  if (mixed) setlocale(LC_ALL, "C.utf8");
  if (use) { if (uselocale((locale_t)0) != mine) l1 = 4; uselocale(LC_GLOBAL_LOCALE); }
  if (in_group && !group_first) fputc(',', OUT);
  group_first = 0;
  fprintf(OUT, "{\"k\":\"parse\",\"g\":\"%s\",\"b\":[", grp); for (int i = 0; i < len; i++) fprintf(OUT, "%s%d", i ? "," : "", (unsigned char)buf[i]);
  fprintf(OUT, "],\"err\":%d,\"loc0\":%d,\"loc1\":%d,", e != NULL, l0, l1); j_cd(c); fputs(in_group ? "}" : "}\n", OUT);
  if (c) FreeCompoundData(c); xrl_clear_error(&e);
}
/* ---- grammar generator: a formula as a tree; printed in order, permuted, or with one group expanded */
static const char *SYMS[108]; static int nsym = 0;
static void load_symbols(void) { for (int Z = 1; Z <= 107; Z++) { char *s = AtomicNumberToSymbol(Z, NULL); SYMS[nsym++] = s; } }
typedef struct Node { int kind; /* 0 element, 1 group */ int sym; char sub[12]; int nkids; struct Node *kids[6]; } Node;
static Node pool[4096]; static int npool;
static void mksub(char *out) {
  int r = rndint(0, 11);       /* one subscript in six is very small or very large: positive is positive, whatever the magnitude */
  if (r == 10) strcpy(out, (const char *[]){"0.0000005", "0.00000012", "0.000001", "0.00001"}[rndint(0, 3)]);
  else if (r == 11) strcpy(out, (const char *[]){"1000000", "250000.5", "40000", "0.999999"}[rndint(0, 3)]);
  else if (r < 3) out[0] = 0; else if (r < 7) sprintf(out, "%d", rndint(1, 12)); else if (r < 9) sprintf(out, "%d.%d", rndint(0, 9), rndint(1, 99)); else sprintf(out, ".%d", rndint(1, 9));
}
static Node *gen(int depth, int maxel) {
  Node *n = &pool[npool++]; memset(n, 0, sizeof *n);
  if (depth <= 0 || rndint(0, 3) != 0) { n->kind = 0; n->sym = rndint(0, maxel - 1); mksub(n->sub); return n; }
  n->kind = 1; mksub(n->sub); n->nkids = rndint(1, 4); for (int i = 0; i < n->nkids; i++) n->kids[i] = gen(depth - 1, maxel); return n;
}
static int put(Node *n, char *o, int perm);
static int putseq(Node **kids, int nk, char *o, int perm) {
  int len = 0; int order[6]; for (int i = 0; i < nk; i++) order[i] = i;
  if (perm) for (int i = nk - 1; i > 0; i--) { int j = rndint(0, i), t = order[i]; order[i] = order[j]; order[j] = t; }
  for (int i = 0; i < nk; i++) len += put(kids[order[i]], o + len, perm); return len;
}
static int put(Node *n, char *o, int perm) {
  if (n->kind == 0) return sprintf(o, "%s%s", SYMS[n->sym], n->sub);
  int len = 0; o[len++] = '('; len += putseq(n->kids, n->nkids, o + len, perm); o[len++] = ')'; len += sprintf(o + len, "%s", n->sub); return len;
}
/* expansion of every group with an INTEGER (or absent) subscript k: its content repeated k times (k <= 3), else kept */
static int putx(Node *n, char *o) {
  if (n->kind == 0) return sprintf(o, "%s%s", SYMS[n->sym], n->sub);
  int k = n->sub[0] == 0 ? 1 : (strchr(n->sub, '.') ? 0 : atoi(n->sub)); int len = 0;
  if (k >= 1 && k <= 3) { for (int r = 0; r < k; r++) for (int i = 0; i < n->nkids; i++) len += putx(n->kids[i], o + len); return len; }
  o[len++] = '('; for (int i = 0; i < n->nkids; i++) len += putx(n->kids[i], o + len); o[len++] = ')'; len += sprintf(o + len, "%s", n->sub); return len;
}
/* c07 <mode> ...:  gen <n> | pairs | mut <nformulas> | small <maxlen> */
int cmd_c07(int argc, char **argv) {
  if (argc < 1) return 2;
  setlocale(LC_ALL, "C.utf8"); load_symbols();
  /* header: the atomic weights the library reports (the spec derives molar masses from them) */
  fputs("{\"k\":\"weights\",\"w\":[", OUT); for (int Z = 1; Z <= 107; Z++) { xrl_error *e = NULL; double w = AtomicWeight(Z, &e); fprintf(OUT, "%s[%d,", Z > 1 ? "," : "", e == NULL); jd(w); fputc(']', OUT); xrl_clear_error(&e); } fputs("]}\n", OUT);
  char a[2048], b[2048], c[4096];
  if (!strcmp(argv[0], "gen")) {
    int n = atoi(argv[1]);
    for (int i = 0; i < n; i++) {
      npool = 0; Node top; memset(&top, 0, sizeof top); top.kind = 1; top.nkids = rndint(1, 5); int maxel = rndint(0, 9) ? 103 : 107;
      for (int k = 0; k < top.nkids; k++) top.kids[k] = gen(rndint(0, 4), maxel);
      int la = putseq(top.kids, top.nkids, a, 0); if (la > 120) { i--; continue; }
      int lb = putseq(top.kids, top.nkids, b, 1); int lc = 0; for (int k = 0; k < top.nkids; k++) lc += putx(top.kids[k], c + lc);
      /* the three spellings are one event group: same composition expected */
      fprintf(OUT, "{\"k\":\"group\",\"i\":%d,\"p\":[", i); in_group = 1; group_first = 1;
      one(a, la, "gen"); one(b, lb, "perm"); if (lc <= 300) one(c, lc, "expand");
      fputs("]}\n", OUT); in_group = 0;
    }
  } else if (!strcmp(argv[0], "pairs")) {
    for (int i = 0; i < 107; i++) one(SYMS[i], (int)strlen(SYMS[i]), "single");
    int part = argc > 1 ? atoi(argv[1]) : 0, np = argc > 2 ? atoi(argv[2]) : 1;
    for (int i = part; i < 107; i += np) for (int j = 0; j < 107; j++) { int l = sprintf(a, "%s%s", SYMS[i], SYMS[j]); one(a, l, "pair"); }
  } else if (!strcmp(argv[0], "mut")) {
    int n = atoi(argv[1]);
    for (int i = 0; i < n; i++) {
      npool = 0; Node top; memset(&top, 0, sizeof top); top.kind = 1; top.nkids = rndint(1, 3); for (int k = 0; k < top.nkids; k++) top.kids[k] = gen(rndint(0, 2), 103);
      int la = putseq(top.kids, top.nkids, a, 0); if (la > 24) { i--; continue; }
      one(a, la, "seed");
      for (int p = 0; p <= la; p++) for (int ch = 1; ch <= 255; ch++) {
        memcpy(b, a, p); b[p] = (char)ch; memcpy(b + p + 1, a + p, la - p); one(b, la + 1, "ins");
        if (p < la && ch != (unsigned char)a[p]) { memcpy(b, a, la); b[p] = (char)ch; one(b, la, "sub"); }
      }
      for (int p = 0; p < la; p++) { memcpy(b, a, p); memcpy(b + p, a + p + 1, la - p - 1); one(b, la - 1, "del"); }
    }
  } else if (!strcmp(argv[0], "extreme")) {
    /* well-formed formulas at the extremes of size: deep nesting (1 .. 120 levels, with and without multipliers), long flat formulas, long groups */
    static char big[1 << 15];
    static const int DEEP[] = {129, 257, 300, 513, 1030, 0}; int nd0 = 0; for (int d = 1; d <= 120; d += (d < 40 ? 1 : 9)) nd0++;
    for (int di = 0, d = 1; di < nd0 + 5; di++, d = di < nd0 ? d + (d < 40 ? 1 : 9) : DEEP[di - nd0]) {
      int o = 0; for (int i = 0; i < d; i++) big[o++] = '('; o += sprintf(big + o, "H2O"); for (int i = 0; i < d; i++) big[o++] = ')'; one(big, o, "deep");
      o = 0; o += sprintf(big + o, "Ca"); for (int i = 0; i < d; i++) { big[o++] = '('; big[o++] = 'P'; } o += sprintf(big + o, "O4"); for (int i = 0; i < d; i++) { big[o++] = ')'; if (i < 20) big[o++] = '2'; } o += sprintf(big + o, "F"); one(big, o, "deep");
    }
    for (int n = 10; n <= 1500; n = n * 3 / 2 + 1) { int o = 0; for (int i = 0; i < n; i++) o += sprintf(big + o, "%s", SYMS[(i * 7) % 90]); one(big, o, "long");
      o = 0; big[o++] = '('; for (int i = 0; i < n; i++) o += sprintf(big + o, "%s%d", SYMS[(i * 11) % 90], 1 + i % 9); o += sprintf(big + o, ")3"); one(big, o, "long"); }
    /* long numeric tokens: leading zeros, long fractions, long integers - after a symbol and after a group (lengths 5 .. 300) */
    for (int n = 5; n <= 300; n = n * 3 / 2 + 1) {
      int o = 0; o += sprintf(big + o, "Ca("); o += sprintf(big + o, "OH)"); for (int i = 0; i < n - 1; i++) big[o++] = '0'; big[o++] = '6'; one(big, o, "longnum");
      o = 0; o += sprintf(big + o, "(SiO2)"); for (int i = 0; i < n - 1; i++) big[o++] = '0'; big[o++] = '3'; o += sprintf(big + o, "(Al2O3)2"); one(big, o, "longnum");
      o = 0; o += sprintf(big + o, "Fe"); for (int i = 0; i < n - 1; i++) big[o++] = '0'; big[o++] = '2'; o += sprintf(big + o, "O3"); one(big, o, "longnum");
      o = 0; o += sprintf(big + o, "(CH2)1."); for (int i = 0; i < n - 1; i++) big[o++] = '0'; big[o++] = '5'; o += sprintf(big + o, "Cl"); one(big, o, "longnum");
      o = 0; o += sprintf(big + o, "H2O0."); for (int i = 0; i < n; i++) big[o++] = (char)('1' + i % 9); one(big, o, "longnum");
      o = 0; o += sprintf(big + o, "(NaCl)0."); for (int i = 0; i < n; i++) big[o++] = (char)('1' + (i * 7) % 9); o += sprintf(big + o, "K"); one(big, o, "longnum");
      if (n <= 40) { o = 0; o += sprintf(big + o, "C"); for (int i = 0; i < n; i++) big[o++] = (char)('1' + i % 9); o += sprintf(big + o, "H4"); one(big, o, "longnum");
        o = 0; o += sprintf(big + o, "(CO)"); for (int i = 0; i < n; i++) big[o++] = (char)('1' + i % 9); o += sprintf(big + o, "H4"); one(big, o, "longnum"); }
    }
  } else if (!strcmp(argv[0], "small")) {
    static const char AL[] = "HOCal()20."; int maxlen = atoi(argv[1]); int part = argc > 2 ? atoi(argv[2]) : 0, np = argc > 3 ? atoi(argv[3]) : 1; long idx = 0;
    for (int len = 0; len <= maxlen; len++) { long tot = 1; for (int i = 0; i < len; i++) tot *= 10;
      for (long v = 0; v < tot; v++) { if (idx++ % np != part) continue; long x = v; for (int i = 0; i < len; i++) { a[i] = AL[x % 10]; x /= 10; } one(a, len, "small"); } }
  } else if (!strcmp(argv[0], "addc")) {
    int n = atoi(argv[1]);
    for (int i = 0; i < n; i++) {
      npool = 0; Node *x = gen(2, 103), *y = gen(2, 103); int la = put(x, a, 0), lb = put(y, b, 0); a[la] = 0; b[lb] = 0;
      struct compoundData *A = CompoundParser(a, NULL), *B = CompoundParser(b, NULL); if (!A || !B) { if (A) FreeCompoundData(A); if (B) FreeCompoundData(B); continue; }
      double wA = rndint(1, 9) / 10.0, wB = 1.0 - wA; struct compoundData *R = add_compound_data(*A, wA, *B, wB);
      fputs("{\"k\":\"addc\",\"A\":{", OUT); j_cd(A); fputs("},\"B\":{", OUT); j_cd(B); fputs("},\"wA\":", OUT); jd(wA); fputs(",\"wB\":", OUT); jd(wB); fputs(",\"R\":{", OUT);
      { struct compoundData t = *R; fprintf(OUT, "\"ok\":1,\"el\":["); for (int k = 0; k < t.nElements; k++) fprintf(OUT, "%s%d", k ? "," : "", t.Elements[k]); fputs("],\"mf\":[", OUT); for (int k = 0; k < t.nElements; k++) { if (k) fputc(',', OUT); jd(t.massFractions[k]); } fputs("]", OUT); }
      fputs("}}\n", OUT); FreeCompoundData(A); FreeCompoundData(B); FreeCompoundData(R);
    }
  }
  return 0;
}
