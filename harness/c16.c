/* C16: purity.  Seeded random interleavings of the whole API.  Every query is also executed in a PRISTINE process
 * (a zygote forked before the first library call forks a fresh child per reference query) and both results are logged.
 * After every operation the state projection is logged: digest of every data table, digest of the built-in crystal
 * collection, LC_ALL, working directory, bytes written to stderr, and (code, message digest) of the error objects the
 * caller still holds. */
#include "common.h"
#include <fenv.h>
#include <errno.h>
#include "api.h"
#include "xrayglob.h"
#include <locale.h>
#include <unistd.h>
#include <sys/wait.h>
#include <sys/stat.h>

static uint64_t fnv(uint64_t h, const void *p, size_t n) {          /* word-wise FNV-style mixing: every bit of every table enters the digest */
  const unsigned char *c = p; size_t i = 0;
  for (; i + 8 <= n; i += 8) { uint64_t w; memcpy(&w, c + i, 8); h = (h ^ w) * 1099511628211ULL; h ^= h >> 29; }
  for (; i < n; i++) { h ^= c[i]; h *= 1099511628211ULL; }
  return h;
}
#define H0 1469598103934665603ULL
#define HV(h, x) h = fnv(h, &(x), sizeof(x))
#define HA(h, p, n) do { if ((p) && (n) > 0) h = fnv(h, (p), (size_t)(n) * sizeof(*(p))); } while (0)
uint64_t xrl_tables_digest(void);
static uint64_t tables_digest(void) { return xrl_tables_digest(); }
uint64_t xrl_tables_digest(void) {
  uint64_t h = H0;
  HV(h, AtomicWeight_arr); HV(h, ElementDensity_arr); HV(h, EdgeEnergy_arr); HV(h, LineEnergy_arr); HV(h, FluorYield_arr); HV(h, JumpFactor_arr); HV(h, CosKron_arr);
  HV(h, RadRate_arr); HV(h, AtomicLevelWidth_arr); HV(h, Auger_Rates); HV(h, Auger_Yields); HV(h, Electron_Config_Kissel); HV(h, EdgeEnergy_Kissel);
  HV(h, xrf_cross_sections_constants_full); HV(h, xrf_cross_sections_constants_auger_only);
  HV(h, NE_Photo); HV(h, NE_Rayl); HV(h, NE_Compt); HV(h, NE_Energy); HV(h, Nq_Rayl); HV(h, Nq_Compt); HV(h, NE_Fi); HV(h, NE_Fii); HV(h, NE_Photo_Total_Kissel); HV(h, NE_Photo_Partial_Kissel);
  HV(h, NShells_ComptonProfiles); HV(h, Npz_ComptonProfiles);
  for (int Z = 0; Z <= ZMAX; Z++) {
    HA(h, E_Photo_arr[Z], NE_Photo[Z]); HA(h, CS_Photo_arr[Z], NE_Photo[Z]); HA(h, CS_Photo_arr2[Z], NE_Photo[Z]);
    HA(h, E_Rayl_arr[Z], NE_Rayl[Z]); HA(h, CS_Rayl_arr[Z], NE_Rayl[Z]); HA(h, CS_Rayl_arr2[Z], NE_Rayl[Z]);
    HA(h, E_Compt_arr[Z], NE_Compt[Z]); HA(h, CS_Compt_arr[Z], NE_Compt[Z]); HA(h, CS_Compt_arr2[Z], NE_Compt[Z]);
    HA(h, E_Energy_arr[Z], NE_Energy[Z]); HA(h, CS_Energy_arr[Z], NE_Energy[Z]); HA(h, CS_Energy_arr2[Z], NE_Energy[Z]);
    HA(h, q_Rayl_arr[Z], Nq_Rayl[Z]); HA(h, FF_Rayl_arr[Z], Nq_Rayl[Z]); HA(h, FF_Rayl_arr2[Z], Nq_Rayl[Z]);
    HA(h, q_Compt_arr[Z], Nq_Compt[Z]); HA(h, SF_Compt_arr[Z], Nq_Compt[Z]); HA(h, SF_Compt_arr2[Z], Nq_Compt[Z]);
    HA(h, E_Fi_arr[Z], NE_Fi[Z]); HA(h, Fi_arr[Z], NE_Fi[Z]); HA(h, Fi_arr2[Z], NE_Fi[Z]); HA(h, E_Fii_arr[Z], NE_Fii[Z]); HA(h, Fii_arr[Z], NE_Fii[Z]); HA(h, Fii_arr2[Z], NE_Fii[Z]);
    HA(h, E_Photo_Total_Kissel[Z], NE_Photo_Total_Kissel[Z]); HA(h, Photo_Total_Kissel[Z], NE_Photo_Total_Kissel[Z]); HA(h, Photo_Total_Kissel2[Z], NE_Photo_Total_Kissel[Z]);
    for (int s = 0; s < SHELLNUM_K; s++) { int n = NE_Photo_Partial_Kissel[Z][s]; HA(h, E_Photo_Partial_Kissel[Z][s], n); HA(h, Photo_Partial_Kissel[Z][s], n); HA(h, Photo_Partial_Kissel2[Z][s], n); }
    int ns = NShells_ComptonProfiles[Z], np = Npz_ComptonProfiles[Z];
    HA(h, UOCCUP_ComptonProfiles[Z], ns); HA(h, pz_ComptonProfiles[Z], np); HA(h, Total_ComptonProfiles[Z], np); HA(h, Total_ComptonProfiles2[Z], np);
    for (int s = 0; s < ns && s < SHELLNUM_C; s++) if (UOCCUP_ComptonProfiles[Z][s] > 0) { HA(h, Partial_ComptonProfiles[Z][s], np); HA(h, Partial_ComptonProfiles2[Z][s], np); }
  }
  for (int i = 0; i < MENDEL_MAX; i++) { HV(h, MendelArray[i].Zatom); h = fnv(h, MendelArray[i].name, strlen(MendelArray[i].name)); }
  return h;
}
static uint64_t builtin_digest(void) {
  uint64_t h = H0; HV(h, Crystal_arr.n_crystal); HV(h, Crystal_arr.n_alloc);
  for (int i = 0; i < Crystal_arr.n_crystal; i++) { Crystal_Struct *c = &Crystal_arr.crystal[i]; h = fnv(h, c->name, strlen(c->name)); HV(h, c->a); HV(h, c->b); HV(h, c->c); HV(h, c->alpha); HV(h, c->beta); HV(h, c->gamma); HV(h, c->volume); HV(h, c->n_atom); HA(h, c->atom, c->n_atom); }
  return h;
}
static void jh(uint64_t h) { fprintf(OUT, "[%d,%d]", (int32_t)(h >> 32), (int32_t)(h & 0xffffffffu)); }

/* ---- a query: kind + arguments; result digest */
const char *QN[] = {"num", "CompoundParser", "GetCompoundDataNISTByName", "GetCompoundDataNISTByIndex", "GetRadioNuclideDataByIndex", "AtomicNumberToSymbol", "SymbolToAtomicNumber", "Crystal_GetCrystal", "Bragg_angle", "Crystal_F_H_StructureFactor", "Atomic_Factors", "Refractive_Index", "GetCompoundDataNISTList", "Crystal_UnitCellVolume+dSpacing+Q", "Crystal_ReadFile(private array)"};
/* a small well-formed crystal file, written once per process (reading it into a private array is a query like any other: kind 14) */
#include <pthread.h>
static char xfile[300]; static pthread_once_t xfile_once = PTHREAD_ONCE_INIT;
static void xfile_make(void) {
  snprintf(xfile, sizeof xfile, "%s/xrl-q14-%d.dat", getenv("XRL_SCRATCH_DIR") ? getenv("XRL_SCRATCH_DIR") : "/tmp", (int)getpid());
  FILE *f = fopen(xfile, "w"); if (!f) { xfile[0] = 0; return; }
  fputs("#F q14\n", f);
  for (int i = 0; i < 6; i++) fprintf(f, "#S %d Qx%c%d\n#UCELL %g 4.5 6.25 90 90 %d\n#N 5\n#L Z f x y z\n14 1.0 0 0 0\n8 0.5 0.25 0.%d 0.5\n", i + 1, 'f' - i, i, 3.0 + 0.25 * i, i % 2 ? 120 : 90, i + 1);
  fclose(f);
}
Result run_query(const Query *q) {
  Result r = {0, -1, H0}; xrl_error *e = NULL;
  switch (q->kind) {
  case 0: { double v = api_call(&API_TABLE[q->fn], q->ia, q->da, SIG_NS[API_TABLE[q->fn].sig] ? q->s : NULL, &e); r.h = fnv(H0, &v, 8); break; }
  case 1: { struct compoundData *c = CompoundParser(q->s, &e); if (c) { HV(r.h, c->nElements); HA(r.h, c->Elements, c->nElements); HA(r.h, c->massFractions, c->nElements); HA(r.h, c->nAtoms, c->nElements); HV(r.h, c->nAtomsAll); HV(r.h, c->molarMass); FreeCompoundData(c); } break; }
  case 2: case 3: { struct compoundDataNIST *c = q->kind == 2 ? GetCompoundDataNISTByName(q->s, &e) : GetCompoundDataNISTByIndex(q->ia[0], &e);
            if (c) { r.h = fnv(r.h, c->name, strlen(c->name)); HV(r.h, c->nElements); HA(r.h, c->Elements, c->nElements); HA(r.h, c->massFractions, c->nElements); HV(r.h, c->density); FreeCompoundDataNIST(c); } break; }
  case 4: { struct radioNuclideData *c = GetRadioNuclideDataByIndex(q->ia[0], &e); if (c) { r.h = fnv(r.h, c->name, strlen(c->name)); HV(r.h, c->Z); HV(r.h, c->A); HA(r.h, c->XrayLines, c->nXrays); HA(r.h, c->XrayIntensities, c->nXrays); HA(r.h, c->GammaEnergies, c->nGammas); FreeRadioNuclideData(c); } break; }
  case 5: { char *s = AtomicNumberToSymbol(q->ia[0], &e); if (s) { r.h = fnv(r.h, s, strlen(s)); xrlFree(s); } break; }
  case 6: { int z = SymbolToAtomicNumber(q->s, &e); HV(r.h, z); break; }
  case 7: { Crystal_Struct *c = Crystal_GetCrystal(q->s, NULL, &e); if (c) { r.h = fnv(r.h, c->name, strlen(c->name)); HV(r.h, c->a); HV(r.h, c->volume); HV(r.h, c->n_atom); HA(r.h, c->atom, c->n_atom); Crystal_Free(c); } break; }
  case 8: case 9: case 13: { Crystal_Struct *c = Crystal_GetCrystal(q->s, NULL, NULL); if (!c) { r.h = 7; break; }
            /* the crystal handed to a query is the caller's object: a query must not write to it */
            uint64_t in0 = H0; in0 = fnv(in0, c->name, strlen(c->name)); HV(in0, c->a); HV(in0, c->b); HV(in0, c->c); HV(in0, c->alpha); HV(in0, c->beta); HV(in0, c->gamma); HV(in0, c->volume); HV(in0, c->n_atom); HA(in0, c->atom, c->n_atom);
            if (q->kind == 8) { double v = Bragg_angle(c, q->da[0], q->ia[0], q->ia[1], q->ia[2], &e); HV(r.h, v); }
            else if (q->kind == 9) { xrlComplex z = Crystal_F_H_StructureFactor(c, q->da[0], q->ia[0], q->ia[1], q->ia[2], 1.0, 1.0, &e); HV(r.h, z.re); HV(r.h, z.im); }
            else { double v = Crystal_UnitCellVolume(c, &e); HV(r.h, v); if (!e) { double d = Crystal_dSpacing(c, q->ia[0], q->ia[1], q->ia[2] + 1, &e); HV(r.h, d); } if (!e) { double qq = Q_scattering_amplitude(c, q->da[0], q->ia[0], q->ia[1], q->ia[2] + 1, 1.0, &e); HV(r.h, qq); } }
            uint64_t in1 = H0; in1 = fnv(in1, c->name, strlen(c->name)); HV(in1, c->a); HV(in1, c->b); HV(in1, c->c); HV(in1, c->alpha); HV(in1, c->beta); HV(in1, c->gamma); HV(in1, c->volume); HV(in1, c->n_atom); HA(in1, c->atom, c->n_atom);
            Crystal_Free(c);
            if (in0 != in1) { xrl_clear_error(&e); r.ok = -5; r.code = -5; return r; }      /* impossible status: the validator reports it whatever the reference says */
            break; }
  case 14: { pthread_once(&xfile_once, xfile_make); Crystal_Array *arr = Crystal_ArrayInit(q->ia[0] % 4, NULL); if (!arr) { r.h = 9; break; }
             int rv = Crystal_ReadFile(xfile, arr, &e); HV(r.h, rv); HV(r.h, arr->n_crystal);
             int n = 0; char **l = Crystal_GetCrystalsList(arr, &n, NULL); for (int i = 0; l && i < n; i++) { r.h = fnv(r.h, l[i], strlen(l[i])); Crystal_Struct *c = Crystal_GetCrystal(l[i], arr, NULL); if (c) { HV(r.h, c->a); HV(r.h, c->gamma); HV(r.h, c->volume); Crystal_Free(c); } xrlFree(l[i]); } xrlFree(l);
             Crystal_ArrayFree(arr); break; }
  case 10: { double f0, f1, f2; int rv = Atomic_Factors(q->ia[0], q->da[0], q->da[1], 1.0, &f0, &f1, &f2, &e); HV(r.h, rv); HV(r.h, f0); HV(r.h, f1); HV(r.h, f2); break; }
  case 11: { xrlComplex z = Refractive_Index(q->s, q->da[0], q->da[1], &e); HV(r.h, z.re); HV(r.h, z.im); break; }
  case 12: { int n; char **l = GetCompoundDataNISTList(&n, &e); HV(r.h, n); for (int i = 0; l && l[i]; i++) { r.h = fnv(r.h, l[i], strlen(l[i])); xrlFree(l[i]); } xrlFree(l); break; }
  }
  r.ok = e == NULL; r.code = e ? (int)e->code : -1; if (e) r.h = fnv(r.h, e->message, strlen(e->message)); xrl_clear_error(&e);
  return r;
}
/* ---- pristine-process reference server */
static int to_srv[2], from_srv[2];
static void server(void) {
  Query q;
  while (read(to_srv[0], &q, sizeof q) == (ssize_t)sizeof q) {
    pid_t p = fork();
    if (p == 0) { Result r = run_query(&q); if (write(from_srv[1], &r, sizeof r) != (ssize_t)sizeof r) _exit(1); _exit(0); }
    int st; waitpid(p, &st, 0);
    if (!(WIFEXITED(st) && WEXITSTATUS(st) == 0)) { Result r = {-9, -9, 0}; if (write(from_srv[1], &r, sizeof r) < 0) _exit(1); }
  }
  _exit(0);
}
static Result reference(const Query *q) { Result r = {-8, -8, 0}; if (write(to_srv[1], q, sizeof *q) != (ssize_t)sizeof *q) return r; if (read(from_srv[0], &r, sizeof r) != (ssize_t)sizeof r) r.ok = -8; return r; }

static const double ES[] = {-1.0, 0.0, 1e-3, 0.5, 1.0, 4.0, 8.979, 17.44, 29.2, 59.5, 100.0, 300.0, 999.0, 1500.0, 2e4, 1e6};      /* the last two lie beyond every table: failing calls of every energy-dependent function */
static const double AS[] = {0.0, 0.3, 0.7853981633974483, 1.5707963267948966, 2.7, 3.141592653589793, -1.0};
static const char *STRS[] = {"H2O", "Ca5((P(O2)2)3)OH", "SiO2", "Water, Liquid", "Polyethylene", "H2O)", "", "Rf", "Fe", "((((((((((H2O))))))))))", "U", "Xx", "Si", "Diamond", "nope"};
void random_query(Query *q) {
  memset(q, 0, sizeof *q); int r = rndint(0, 99);
  if (r < 62) { int nf = 0; while (API_TABLE[nf].name) nf++; q->kind = 0; q->fn = rndint(0, nf - 1); const ApiFn *f = &API_TABLE[q->fn];
    q->ia[0] = rndint(0, 9) ? rndint(1, 98) : rndint(-2, 124); q->ia[1] = rndint(0, 5) ? rndint(f->mlo + 3 < 0 ? f->mlo + 3 : 0, f->mhi - 3) : rndint(f->mlo, f->mhi);
    for (int i = 0; i < 3; i++) q->da[i] = i == 0 ? ES[rndint(0, 15)] : AS[rndint(0, 6)]; snprintf(q->s, sizeof q->s, "%s", STRS[rndint(0, 11)]); }
  else if (r < 70) { q->kind = 1; snprintf(q->s, sizeof q->s, "%s", STRS[rndint(0, 11)]); }
  else if (r < 74) { q->kind = 2; snprintf(q->s, sizeof q->s, "%s", STRS[rndint(0, 14)]); }
  else if (r < 77) { q->kind = 3; q->ia[0] = rndint(-2, 182); }
  else if (r < 79) { q->kind = 4; q->ia[0] = rndint(-1, 11); }
  else if (r < 82) { q->kind = 5; q->ia[0] = rndint(-1, 110); }
  else if (r < 84) { q->kind = 6; snprintf(q->s, sizeof q->s, "%s", STRS[rndint(5, 14)]); }
  else if (r < 88) { q->kind = 7; snprintf(q->s, sizeof q->s, "%s", STRS[rndint(11, 14)]); }
  else if (r < 92) { q->kind = (int[]){8, 9, 13}[rndint(0, 2)]; snprintf(q->s, sizeof q->s, "%s", STRS[rndint(12, 13)]); q->ia[0] = rndint(-2, 2); q->ia[1] = rndint(-2, 2); q->ia[2] = rndint(0, 3); q->da[0] = ES[rndint(0, 3) ? rndint(3, 10) : rndint(11, 15)]; }
  else if (r < 95) { q->kind = 10; q->ia[0] = rndint(0, 100); q->da[0] = ES[rndint(2, 15)]; q->da[1] = rndint(0, 8) / 4.0; }
  else if (r < 97) { q->kind = 11; snprintf(q->s, sizeof q->s, "%s", STRS[rndint(0, 7)]); q->da[0] = ES[rndint(0, 15)]; q->da[1] = rndint(-1, 3); }
  else q->kind = r < 99 ? 14 : 12;
  if (q->kind == 14) q->ia[0] = rndint(0, 40);
}
#define NERR 4
static xrl_error *held[NERR]; static FILE *errf; static char cwd0[512];
static void state(void) {
  char cwd[512]; if (!getcwd(cwd, sizeof cwd)) cwd[0] = 0; fflush(stderr);
  fputs(",\"st\":{\"tables\":", OUT); jh(tables_digest()); fputs(",\"builtin\":", OUT); jh(builtin_digest());
  fputs(",\"locale\":", OUT); jstr(setlocale(LC_ALL, NULL)); fprintf(OUT, ",\"cwd\":%d,\"stderr\":%ld,\"errs\":[", strcmp(cwd, cwd0) == 0, errf ? ftell(errf) : -1L);
  for (int i = 0; i < NERR; i++) { if (i) fputc(',', OUT); if (!held[i]) fputs("[-1,0,0]", OUT); else { uint64_t h = fnv(H0, held[i]->message, strlen(held[i]->message)); fprintf(OUT, "[%d,%d,%d]", (int)held[i]->code, (int32_t)(h >> 32), (int32_t)(h & 0xffffffffu)); } }
  fputs("]}", OUT);
}
/* c16 <nhist> <len> */
int cmd_c16(int argc, char **argv) {
  int nh = argc > 0 ? atoi(argv[0]) : 4, len = argc > 1 ? atoi(argv[1]) : 500;
  /* the zygote is forked before the first library call of this process */
  if (pipe(to_srv) || pipe(from_srv)) return 2;
  setlocale(LC_ALL, "C.utf8");
  pid_t srv = fork(); if (srv == 0) { close(to_srv[1]); close(from_srv[0]); server(); }
  close(to_srv[0]); close(from_srv[1]);
  char path[256]; snprintf(path, sizeof path, "%s/xrl-c16-%d.err", getenv("XRL_SCRATCH_DIR") ? getenv("XRL_SCRATCH_DIR") : "/tmp", (int)getpid());
  errf = freopen(path, "w+", stderr); if (!getcwd(cwd0, sizeof cwd0)) cwd0[0] = 0;
  static char iobuf[1 << 16]; setvbuf(OUT, iobuf, _IOFBF, sizeof iobuf);
  for (int h = 0; h < nh; h++) {
    uint64_t seed = rnd64(); fflush(OUT);
    pid_t p = fork();
    if (p == 0) {
      RNG = seed; int with_init = rndint(0, 1);
      fprintf(OUT, "{\"k\":\"reset\",\"hist\":%d,\"xrayinit\":%d", h, with_init); if (with_init) XRayInit(); state(); fputs("}\n", OUT);
      Crystal_Array *ua = NULL;
      for (int s = 0; s < len; s++) {
        int r = rndint(0, 99);
        if (r < 80) { Query q; static Query last; static int have_last = 0;
          /* one query in four is the previous query again, back to back: a result memoised by the first call (a failing one included) must not change the second */
          if (have_last && rndint(0, 3) == 0) q = last; else random_query(&q);
          last = q; have_last = 1;
          /* ambient process state the library does not own, left behind by the application or another library: a stale errno, sticky floating-point flags */
          int amb = rndint(0, 7); if (amb == 1) errno = EDOM; else if (amb == 2) errno = ERANGE; else if (amb == 3) { errno = EINVAL; feraiseexcept(FE_INVALID | FE_DIVBYZERO | FE_OVERFLOW); } else if (amb == 4) { errno = 0; feclearexcept(FE_ALL_EXCEPT); }
          Result a = run_query(&q); Result b = reference(&q);
          fprintf(OUT, "{\"k\":\"q\",\"hist\":%d,\"i\":%d,\"kind\":\"%s\",\"fn\":\"%s\",\"ia\":[%d,%d,%d],\"s\":", h, s, QN[q.kind], q.kind == 0 ? API_TABLE[q.fn].name : QN[q.kind], q.ia[0], q.ia[1], q.ia[2]); jstr(q.s);
          fputs(",\"da\":[", OUT); jd(q.da[0]); fputc(',', OUT); jd(q.da[1]); fputc(',', OUT); jd(q.da[2]);
          fprintf(OUT, "],\"amb\":%d,\"res\":[%d,%d,%d,%d],\"ref\":[%d,%d,%d,%d]", amb, a.ok, a.code, (int32_t)(a.h >> 32), (int32_t)(a.h & 0xffffffffu), b.ok, b.code, (int32_t)(b.h >> 32), (int32_t)(b.h & 0xffffffffu)); state(); fputs("}\n", OUT); }
        else if (r < 86) { /* a failing call whose error object the caller keeps */ int slot = rndint(0, NERR - 1); if (held[slot]) { xrl_error_free(held[slot]); held[slot] = NULL; fprintf(OUT, "{\"k\":\"op\",\"hist\":%d,\"i\":%d,\"op\":\"ReleaseError\",\"slot\":%d", h, s, slot); }
          else { int which = rndint(0, 3); if (which == 0) CS_Total(-1, 1.0, &held[slot]); else if (which == 1) CompoundParser("H2O)", &held[slot]); else if (which == 2) Crystal_GetCrystal("nope", NULL, &held[slot]); else LineEnergy(26, 9999, &held[slot]);
            fprintf(OUT, "{\"k\":\"op\",\"hist\":%d,\"i\":%d,\"op\":\"KeepError\",\"slot\":%d", h, s, slot); }
          state(); fputs("}\n", OUT); }
        else if (r < 90) { /* user crystal arrays: may not touch anything global */ if (!ua) ua = Crystal_ArrayInit(rndint(0, 3), NULL); else { Crystal_Struct *c = Crystal_GetCrystal(rndint(0, 1) ? "Si" : "Diamond", NULL, NULL); Crystal_AddCrystal(c, ua, NULL); Crystal_Free(c); if (rndint(0, 5) == 0) { Crystal_ArrayFree(ua); ua = NULL; } }
          fprintf(OUT, "{\"k\":\"op\",\"hist\":%d,\"i\":%d,\"op\":\"UserArray\"", h, s); state(); fputs("}\n", OUT); }
        else if (r < 93) { /* explicit insertion into the built-in collection: the one documented mutation */ Crystal_Struct *c = Crystal_GetCrystal("Si", NULL, NULL); char nm[24]; snprintf(nm, sizeof nm, "Zz%d", rndint(0, 3)); free(c->name); c->name = strdup(nm); xrl_error *e = NULL; int rv = Crystal_AddCrystal(c, NULL, &e); Crystal_Free(c);
          fprintf(OUT, "{\"k\":\"op\",\"hist\":%d,\"i\":%d,\"op\":\"AddBuiltin\",\"ok\":%d", h, s, rv); xrl_clear_error(&e); state(); fputs("}\n", OUT); }
        else if (r < 96) { /* deprecated no-ops: may only print a diagnostic */ int w = rndint(0, 4); if (w == 0) SetHardExit(1); else if (w == 1) SetExitStatus(0); else if (w == 2) GetExitStatus(); else if (w == 3) SetErrorMessages(1); else GetErrorMessages();
          fprintf(OUT, "{\"k\":\"op\",\"hist\":%d,\"i\":%d,\"op\":\"Deprecated\"", h, s); state(); fputs("}\n", OUT); }
        else { XRayInit(); fprintf(OUT, "{\"k\":\"op\",\"hist\":%d,\"i\":%d,\"op\":\"XRayInit\"", h, s); state(); fputs("}\n", OUT); }
      }
      fflush(OUT); _exit(0);
    }
    int st; waitpid(p, &st, 0);
    if (!(WIFEXITED(st) && WEXITSTATUS(st) == 0)) { fprintf(OUT, "{\"k\":\"abort\",\"hist\":%d}\n", h); fflush(OUT); }
  }
  close(to_srv[1]); int st; waitpid(srv, &st, 0); unlink(path);
  return 0;
}
