/* C04 stage 4 / C14 / C03: a fault at a particular point.  For every scenario (one public call in a prepared state) the call is first
 * made without a fault to count the allocation requests N the library issues inside it; then, for k = 1..N, the same scenario is repeated
 * in a fresh child with the k-th request failing (NULL, errno = ENOMEM -- the interposers of wraps.c).  Logged per (scenario, k): how the call
 * ended (returned / died), its outcome (ok, error code, message), whether the collection it worked on is as it was (failed call) or holds
 * the new entry (successful call), whether the same call succeeds when repeated without a fault, and what is still held after everything
 * the caller owns has been released.  No judgement here: XrlHeap!FaultWhy decides. */
#include "common.h"
#include <unistd.h>
#include <sys/wait.h>
#include <errno.h>
#include <locale.h>
extern Crystal_Array Crystal_arr;
extern long W_live, W_files, W_fail_at, W_reqs, W_failed;
static const char *scratchdir = "/tmp";
typedef struct { int ok, err, code, msg, same, has, after, bi; long d, files, reqs, inj; } Obs;

static Crystal_Struct *mk_crystal(const char *name, int natom) {
  Crystal_Struct *c = Crystal_GetCrystal("Si", NULL, NULL); if (!c) return NULL;
  free(c->name); c->name = strdup(name); if (natom < c->n_atom) c->n_atom = natom; c->a += 0.25; return c;     /* harness objects (not wrapped: this file is not library code -- but the counters see it, so only differences are used) */
}
/* projection of a collection: n_crystal, names in order, volumes */
static uint64_t snap(Crystal_Array *a) {
  uint64_t h = 1469598103934665603ULL; if (!a) a = &(Crystal_Array){0};
  h = (h ^ (uint64_t)a->n_crystal) * 1099511628211ULL;
  for (int i = 0; i < a->n_crystal; i++) { const char *s = a->crystal[i].name; if (!s) { h ^= 0xdead; continue; } for (; *s; s++) h = (h ^ (unsigned char)*s) * 1099511628211ULL;
    uint64_t b; memcpy(&b, &a->crystal[i].volume, 8); h = (h ^ b) * 1099511628211ULL; h = (h ^ (uint64_t)a->crystal[i].n_atom) * 1099511628211ULL; }
  return h;
}
static int sorted_unique(Crystal_Array *a) { for (int i = 1; i < a->n_crystal; i++) if (!a->crystal[i - 1].name || !a->crystal[i].name || strcmp(a->crystal[i - 1].name, a->crystal[i].name) >= 0) return 0; return a->n_alloc >= a->n_crystal; }
static int found(Crystal_Array *a, const char *name) { Crystal_Struct *c = Crystal_GetCrystal(name, a, NULL); if (!c) return 0; int ok = !strcmp(c->name, name) && c->volume > 0; Crystal_Free(c); return ok; }
static void write_file(const char *path, int k) {
  FILE *f = fopen(path, "w"); fputs("#F x\n", f);
  for (int i = 0; i < k; i++) fprintf(f, "#S %d F%d\n#UCELL 4.5 4.5 6.25 90 90 120\n#L Z f x y z\n14 1.0 0 0 0\n8 0.5 0.25 0.25 0.5\n", i, i);
  fclose(f);
}
static void note_err(Obs *o, xrl_error **e) { o->err = *e != NULL; o->code = *e ? (int)(*e)->code : -1; o->msg = *e && (*e)->message && (*e)->message[0]; xrl_clear_error(e); }

enum { S_NIST_NAME, S_NIST_IDX, S_NUC_NAME, S_NUC_IDX, S_NIST_LIST, S_NUC_LIST, S_CRYST_LIST, S_SYMBOL, S_PARSER, S_PARSER_LOCALE, S_GETCRYSTAL, S_MAKECOPY, S_ARRAYINIT,
       S_ADD_ROOM, S_ADD_FULL, S_ADD_EMPTY, S_ADD_BUILTIN, S_READ_USER, S_READ_FULL, S_CP, S_REFR, S_ERRCALL, S_ERRCOPY, NSCEN };
static const char *SN[] = {"nist_by_name", "nist_by_index", "nuclide_by_name", "nuclide_by_index", "nist_list", "nuclide_list", "crystals_list", "symbol", "parser", "parser_locale", "get_crystal", "make_copy", "array_init",
       "add_with_room", "add_at_capacity", "add_to_unallocated", "add_to_builtin", "read_into_user", "read_at_capacity", "cs_total_cp", "refractive_index", "failing_call", "error_copy"};
static const char *FN[] = {"GetCompoundDataNISTByName", "GetCompoundDataNISTByIndex", "GetRadioNuclideDataByName", "GetRadioNuclideDataByIndex", "GetCompoundDataNISTList", "GetRadioNuclideDataList", "Crystal_GetCrystalsList", "AtomicNumberToSymbol", "CompoundParser", "CompoundParser", "Crystal_GetCrystal", "Crystal_MakeCopy", "Crystal_ArrayInit",
       "Crystal_AddCrystal", "Crystal_AddCrystal", "Crystal_AddCrystal", "Crystal_AddCrystal", "Crystal_ReadFile", "Crystal_ReadFile", "CS_Total_CP", "Refractive_Index_Re", "xrl_set_error", "xrl_error_copy"};

/* one scenario with the k-th allocation request failing (k = 0: none) */
static void scen(int s, int k, Obs *o) {
  memset(o, 0, sizeof *o); o->same = o->has = o->after = -1;
  long base = W_live; xrl_error *e = NULL; char path[300]; snprintf(path, sizeof path, "%s/xrl-c04f-%d.dat", scratchdir, (int)getpid());
#define ARM() do { W_reqs = 0; W_failed = 0; W_fail_at = k; } while (0)
#define DISARM() do { W_fail_at = 0; o->reqs = W_reqs; o->inj = W_failed; } while (0)
  switch (s) {
  case S_NIST_NAME: { ARM(); struct compoundDataNIST *c = GetCompoundDataNISTByName("Water, Liquid", &e); DISARM(); o->ok = c != NULL; note_err(o, &e); if (c) FreeCompoundDataNIST(c); break; }
  case S_NIST_IDX: { ARM(); struct compoundDataNIST *c = GetCompoundDataNISTByIndex(5, &e); DISARM(); o->ok = c != NULL; note_err(o, &e); if (c) FreeCompoundDataNIST(c); break; }
  case S_NUC_NAME: { ARM(); struct radioNuclideData *c = GetRadioNuclideDataByName("55Fe", &e); DISARM(); o->ok = c != NULL; note_err(o, &e); if (c) FreeRadioNuclideData(c); break; }
  case S_NUC_IDX: { ARM(); struct radioNuclideData *c = GetRadioNuclideDataByIndex(3, &e); DISARM(); o->ok = c != NULL; note_err(o, &e); if (c) FreeRadioNuclideData(c); break; }
  case S_NIST_LIST: case S_NUC_LIST: case S_CRYST_LIST: { int n = 0; ARM(); char **l = s == S_NIST_LIST ? GetCompoundDataNISTList(&n, &e) : s == S_NUC_LIST ? GetRadioNuclideDataList(&n, &e) : Crystal_GetCrystalsList(NULL, &n, &e); DISARM();
    o->ok = l != NULL; note_err(o, &e); if (l) { int full = 1; for (int i = 0; i < n; i++) { if (!l[i]) full = 0; xrlFree(l[i]); } xrlFree(l); o->has = full; } break; }
  case S_SYMBOL: { ARM(); char *p = AtomicNumberToSymbol(26, &e); DISARM(); o->ok = p != NULL; note_err(o, &e); xrlFree(p); break; }
  case S_PARSER: case S_PARSER_LOCALE: { ARM(); struct compoundData *c = CompoundParser("Ca5(PO4)3OH", &e); DISARM(); o->ok = c != NULL; note_err(o, &e); if (c) { o->has = c->nElements == 4; FreeCompoundData(c); } break; }
  case S_GETCRYSTAL: { ARM(); Crystal_Struct *c = Crystal_GetCrystal("AlphaQuartz", NULL, &e); DISARM(); o->ok = c != NULL; note_err(o, &e); if (c) { o->has = c->name && c->atom; Crystal_Free(c); } break; }
  case S_MAKECOPY: { Crystal_Struct *src = Crystal_GetCrystal("AlphaQuartz", NULL, NULL); ARM(); Crystal_Struct *c = Crystal_MakeCopy(src, &e); DISARM(); o->ok = c != NULL; note_err(o, &e); if (c) { o->has = c->name && c->atom; Crystal_Free(c); } Crystal_Free(src); break; }
  case S_ARRAYINIT: { ARM(); Crystal_Array *a = Crystal_ArrayInit(3, &e); DISARM(); o->ok = a != NULL; note_err(o, &e); if (a) Crystal_ArrayFree(a); break; }
  case S_ADD_ROOM: case S_ADD_FULL: case S_ADD_EMPTY: {
    Crystal_Array *a = Crystal_ArrayInit(s == S_ADD_ROOM ? 4 : s == S_ADD_FULL ? 2 : 0, NULL); Crystal_Struct *c1 = mk_crystal("Bbb", 2), *c2 = mk_crystal("Ddd", 2), *c3 = mk_crystal("Aaa", 3);
    if (s != S_ADD_EMPTY) { Crystal_AddCrystal(c1, a, NULL); Crystal_AddCrystal(c2, a, NULL); }
    uint64_t before = snap(a); int n0 = a->n_crystal;
    ARM(); int rv = Crystal_AddCrystal(c3, a, &e); DISARM(); o->ok = rv; note_err(o, &e);
    if (rv) o->has = a->n_crystal == n0 + 1 && sorted_unique(a) && found(a, "Aaa"); else { o->same = snap(a) == before && sorted_unique(a); o->after = Crystal_AddCrystal(c3, a, NULL) && a->n_crystal == n0 + 1 && sorted_unique(a) && found(a, "Aaa") && (n0 == 0 || found(a, "Ddd")); }
    Crystal_Free(c1); Crystal_Free(c2); Crystal_Free(c3); Crystal_ArrayFree(a); break; }
  case S_ADD_BUILTIN: { Crystal_Struct *c3 = mk_crystal("Aaa", 3); o->bi = 1; int n0 = Crystal_arr.n_crystal; uint64_t before = snap(&Crystal_arr);
    ARM(); int rv = Crystal_AddCrystal(c3, NULL, &e); DISARM(); o->ok = rv; note_err(o, &e);
    if (rv) o->has = Crystal_arr.n_crystal == n0 + 1 && sorted_unique(&Crystal_arr) && found(NULL, "Aaa"); else { o->same = snap(&Crystal_arr) == before && sorted_unique(&Crystal_arr); o->after = Crystal_AddCrystal(c3, NULL, NULL) && found(NULL, "Aaa") && found(NULL, "Si"); }
    Crystal_Free(c3); break; }
  case S_READ_USER: case S_READ_FULL: {
    Crystal_Array *a = Crystal_ArrayInit(s == S_READ_USER ? 8 : 1, NULL); Crystal_Struct *c1 = mk_crystal("Bbb", 2); Crystal_AddCrystal(c1, a, NULL); write_file(path, 2);
    uint64_t before = snap(a);
    ARM(); int rv = Crystal_ReadFile(path, a, &e); DISARM(); o->ok = rv; note_err(o, &e);
    if (rv) o->has = a->n_crystal == 3 && sorted_unique(a) && found(a, "F0") && found(a, "F1") && found(a, "Bbb"); else { o->same = snap(a) == before && sorted_unique(a); o->after = Crystal_ReadFile(path, a, NULL) && a->n_crystal == 3 && sorted_unique(a) && found(a, "F1") && found(a, "Bbb"); }
    unlink(path); Crystal_Free(c1); Crystal_ArrayFree(a); break; }
  case S_CP: { ARM(); double v = CS_Total_CP("SiO2", 10.0, &e); DISARM(); o->ok = e == NULL; o->has = e || v > 0; note_err(o, &e); break; }
  case S_REFR: { ARM(); double v = Refractive_Index_Re("SiO2", 10.0, 2.2, &e); DISARM(); o->ok = e == NULL; o->has = e || v > 0; note_err(o, &e); break; }
  case S_ERRCALL: { ARM(); double v = AtomicWeight(-1, &e); DISARM(); o->ok = 0; o->has = v == 0.0; o->err = e != NULL; o->code = e ? (int)e->code : -1; o->msg = e && e->message && e->message[0]; xrl_clear_error(&e); break; }
  case S_ERRCOPY: { AtomicWeight(-1, &e); ARM(); xrl_error *c = xrl_error_copy(e); DISARM(); o->ok = c != NULL; o->has = !c || (c->message && !strcmp(c->message, e->message)); o->err = 0; o->code = -1; o->msg = 0; xrl_error_free(c); xrl_clear_error(&e); break; }
  }
  o->d = W_live - base; o->files = W_files;
}
static void emit(int s, int k, int n, const Obs *o, int sig, int status) {
  fprintf(OUT, "{\"k\":\"fault\",\"scen\":\"%s\",\"fn\":\"%s\",\"at\":%d,\"n\":%d,\"sig\":%d,\"status\":%d,\"inj\":%ld,\"ok\":%d,\"err\":%d,\"code\":%d,\"msg\":%d,\"same\":%d,\"has\":%d,\"after\":%d,\"bi\":%d,\"d\":%ld,\"files\":%ld}\n",
          SN[s], FN[s], k, n, sig, status, o->inj, o->ok, o->err, o->code, o->msg, o->same, o->has, o->after, o->bi, o->d, o->files);
}
int cmd_c04f(int argc, char **argv) {
  int only_crystal = argc > 0 && !strcmp(argv[0], "crystal"); if (getenv("XRL_SCRATCH_DIR")) scratchdir = getenv("XRL_SCRATCH_DIR");
  static char iobuf[1 << 16]; setvbuf(OUT, iobuf, _IOFBF, sizeof iobuf);
  for (int s = 0; s < NSCEN; s++) {
    if (only_crystal && strncmp(FN[s], "Crystal_", 8)) continue;
    int n = -1;
    for (int k = 0; n < 0 || k <= n; k++) {
      fflush(OUT); int pfd[2]; if (pipe(pfd)) return 3;
      pid_t pid = fork();
      if (pid == 0) { close(pfd[0]); if (s == S_PARSER_LOCALE) setlocale(LC_ALL, "C.utf8"); Obs o; scen(s, k, &o); if (write(pfd[1], &o, sizeof o) != sizeof o) _exit(4); _exit(0); }
      close(pfd[1]); Obs o; memset(&o, 0, sizeof o); ssize_t got = read(pfd[0], &o, sizeof o); close(pfd[0]);
      int status = 0; waitpid(pid, &status, 0); int sig = WIFSIGNALED(status) ? WTERMSIG(status) : 0, st = WIFEXITED(status) ? WEXITSTATUS(status) : -1;
      if (got != (ssize_t)sizeof o) { memset(&o, 0, sizeof o); o.same = o.has = o.after = -1; o.code = -1; if (!sig && st == 0) st = -2; } else if (st != 0 || sig) { /* died after reporting: keep */ }
      if (k == 0) { n = (sig || st) ? 0 : (int)o.reqs; }
      emit(s, k, n, &o, sig, got == (ssize_t)sizeof o && !sig ? st : (st ? st : -3));
    }
  }
  return 0;
}
