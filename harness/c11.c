/* C11: Auger yields and rates.  One composite event per Z: the two accessor rows and the primitives
 * (fluorescence yields, Coster-Kronig probabilities) as the library returns them. */
#include "common.h"
typedef double (*f2)(int, int, xrl_error **);
void emit_row(const char *key, f2 f, int Z, int lo, int hi) {
  fprintf(OUT, "\"%s\":{\"lo\":%d,\"hi\":%d,\"ok\":[", key, lo, hi);
  int n = hi - lo + 1; double *v = malloc(n * sizeof(double));
  for (int m = lo; m <= hi; m++) { xrl_error *e = NULL; v[m - lo] = f(Z, m, &e); fprintf(OUT, "%s%d", m > lo ? "," : "", e == NULL); xrl_clear_error(&e); }
  fputs("],\"v\":[", OUT);
  for (int i = 0; i < n; i++) { if (i) fputc(',', OUT); jd(v[i]); }
  fputs("]}", OUT); free(v);
}
int cmd_c11(int argc, char **argv) {
  int zlo = -1, zhi = 122;
  if (argc >= 2) { zlo = atoi(argv[0]); zhi = atoi(argv[1]); }
  for (int Z = zlo; Z <= zhi; Z++) {
    fprintf(OUT, "{\"k\":\"auger\",\"Z\":%d,", Z);
    emit_row("yield", AugerYield, Z, -3, 12); fputc(',', OUT);
    emit_row("rate", AugerRate, Z, -3, 998); fputc(',', OUT);
    emit_row("fy", FluorYield, Z, 0, 8); fputc(',', OUT);
    emit_row("ck", CosKronTransProb, Z, 1, 14);
    fputs("}\n", OUT);
  }
  return 0;
}
