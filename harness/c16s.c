/* C16, order independence: every cell of the discrete argument grid of every numeric entry point is evaluated three times in one process --
 * in ascending order, in descending order and in a seeded shuffle -- and must give the same outcome each time (value bits, error presence,
 * code, message).  A result that depends on the call made just before (a cache keyed on the last argument, scratch state that is not reset,
 * a memoised failure) shows as a cell whose outcome differs between the passes.  One event per function: number of cells, differing cells. */
#include "common.h"
#include "api.h"
static uint64_t fnv1(uint64_t h, const void *p, size_t n) { const unsigned char *c = p; for (size_t i = 0; i < n; i++) { h ^= c[i]; h *= 1099511628211ULL; } return h; }
typedef struct { int z, m; double e; int s; } Cell;
/* besides four ordinary strings: pairs that differ only after a long common prefix (31, 70 and 300 bytes), where a key that is truncated or hashed carelessly collides */
#define P70 "C1H1N1O1F1Na1Mg1Al1Si1P1S1Cl1K1Ca1Ti1V1Cr1Mn1Fe1Co1Ni1Cu1Zn1Ga1Ge1As1Se1"
#define P300 P70 "Br1Rb1Sr1Y1Zr1Nb1Mo1Ru1Rh1Pd1Ag1Cd1In1Sn1Sb1Te1I1Cs1Ba1La1Ce1Pr1Nd1Sm1Eu1Gd1Tb1Dy1Ho1Er1Tm1Yb1Lu1Hf1Ta1W1Re1Os1Ir1Pt1Au1Hg1Tl1Pb1Bi1Th1U1" "C2H2N2O2F2Na2Mg2Al2Si2P2S2Cl2K2Ca2Ti2V2Cr2Mn2Fe2Co2Ni2Cu2Zn2Ga2Ge2As2Se2"
#define NSS 10
static const char *SS[NSS] = {"H2O", "Water, Liquid", "nope", "Ca5(PO4)3OH",
  "Fe0.70000Cr0.19000Ni0.10000Mo0.09000", "Fe0.70000Cr0.19000Ni0.10000Mo0.01000", P70 "Pb9", P70 "Pb1", P300 "U7", P300 "U3"};
static uint64_t eval(const ApiFn *f, const Cell *c) {
  int ia[2] = {c->z, c->m}; double da[3] = {c->e, 0.7, 0.3}; xrl_error *e = NULL;
  double v = api_call(f, ia, da, SIG_NS[f->sig] ? SS[c->s] : NULL, &e);
  uint64_t h = fnv1(1469598103934665603ULL, &v, 8); int ok = e == NULL; h = fnv1(h, &ok, sizeof ok);
  if (e) { int code = (int)e->code; h = fnv1(h, &code, sizeof code); if (e->message) h = fnv1(h, e->message, strlen(e->message)); }
  xrl_clear_error(&e); return h;
}
uint64_t xrl_tables_digest(void);      /* c16.c: digest of every table of the library */
/* c16s <part> <nparts> */
int cmd_c16s(int argc, char **argv) {
  int part = argc > 0 ? atoi(argv[0]) : 0, nparts = argc > 1 ? atoi(argv[1]) : 1; int idx = 0;
  static const double ES[] = {1.0, 10.0, 100.0};
  /* kept until the end: after every entry point has been swept, the first pass of each is repeated (pass 5) - an entry point that
   * changes what another one reads shows there, and in the digest of the library's tables taken before and after each sweep */
  static struct { ApiFn *f; Cell *cells; uint64_t *r1; long n; } kept[400]; int nkept = 0;
  for (ApiFn *f = API_TABLE; f->name; f++) {
    if (idx++ % nparts != part) continue;
    uint64_t dig0 = xrl_tables_digest();
    int ni = SIG_NI[f->sig], nd = SIG_ND[f->sig], ns = SIG_NS[f->sig];
    long n = (long)(ni ? 102 : 1) * (ni > 1 ? f->mhi - f->mlo + 1 : 1) * (nd ? 3 : 1) * (ns ? NSS : 1);
    Cell *cells = malloc(n * sizeof *cells); uint64_t *r1 = malloc(n * sizeof *r1); long k = 0;
    for (int z = ni ? -1 : 0; z <= (ni ? 100 : 0); z++) for (int m = ni > 1 ? f->mlo : 0; m <= (ni > 1 ? f->mhi : 0); m++) for (int a = 0; a < (nd ? 3 : 1); a++) for (int s = 0; s < (ns ? NSS : 1); s++)
      cells[k++] = (Cell){z, m, ES[a], s};
    long ndiff = 0; long firsts[8]; int passof[8]; int nf = 0;
    for (long i = 0; i < n; i++) r1[i] = eval(f, &cells[i]);
    for (long i = n - 1; i >= 0; i--) if (eval(f, &cells[i]) != r1[i]) { if (nf < 8) { firsts[nf] = i; passof[nf++] = 2; } ndiff++; }
    long *perm = malloc(n * sizeof *perm); for (long i = 0; i < n; i++) perm[i] = i;
    for (long i = n - 1; i > 0; i--) { long j = (long)(rnd64() % (uint64_t)(i + 1)); long t = perm[i]; perm[i] = perm[j]; perm[j] = t; }
    for (long i = 0; i < n; i++) if (eval(f, &cells[perm[i]]) != r1[perm[i]]) { if (nf < 8) { firsts[nf] = perm[i]; passof[nf++] = 3; } ndiff++; }
    /* and each cell twice in a row */
    for (long i = 0; i < n; i += 1) { uint64_t a = eval(f, &cells[i]), b = eval(f, &cells[i]); if (a != r1[i] || b != r1[i]) { if (nf < 8) { firsts[nf] = i; passof[nf++] = 4; } ndiff++; } }
    uint64_t dig1 = xrl_tables_digest();
    fprintf(OUT, "{\"k\":\"sweep\",\"fn\":\"%s\",\"cells\":%ld,\"tables\":%d,\"ndiff\":%ld,\"first\":[", f->name, n, dig0 == dig1, ndiff);
    for (int i = 0; i < nf; i++) { Cell *c = &cells[firsts[i]]; fprintf(OUT, "%s{\"pass\":%d,\"Z\":%d,\"m\":%d,\"E\":\"%g\",\"s\":\"%s\"}", i ? "," : "", passof[i], c->z, c->m, c->e, ns ? SS[c->s] : ""); }
    fputs("]}\n", OUT);
    free(perm);
    if (nkept < 400) { kept[nkept].f = f; kept[nkept].cells = cells; kept[nkept].r1 = r1; kept[nkept++].n = n; } else { free(cells); free(r1); }
  }
  /* soak: the same call many times over (failing and succeeding ones), so that anything that accumulates per call - a counter that is
   * not wound back on a failure path, a table that fills up - has passed its limit before the last pass */
  { static const char *PF[] = {"Ca(Oh)2", "H2O)", "(H2O", "Ca5(PO4)3F", "((((H2O))))", "X", ""};
    for (int r = 0; r < 1500; r++) {
      for (unsigned i = 0; i < sizeof PF / sizeof *PF; i++) { struct compoundData *c = CompoundParser(PF[i], NULL); if (c) FreeCompoundData(c); (void)CS_Total_CP(PF[i], 10.0, NULL); }
      (void)CS_Total(-1, 1.0, NULL); (void)CS_Total(26, -1.0, NULL); (void)LineEnergy(26, 9999, NULL); (void)CS_FluorLine(26, KL3_LINE, 1.0, NULL); (void)EdgeEnergy(200, 0, NULL);
      { char *sy = AtomicNumberToSymbol(-1, NULL); if (sy) xrlFree(sy); (void)SymbolToAtomicNumber("Xx", NULL); }
      { struct compoundDataNIST *d = GetCompoundDataNISTByName("nope", NULL); if (d) FreeCompoundDataNIST(d); d = GetCompoundDataNISTByIndex(-1, NULL); if (d) FreeCompoundDataNIST(d); }
      { struct radioNuclideData *d = GetRadioNuclideDataByName("nope", NULL); if (d) FreeRadioNuclideData(d); }
      { Crystal_Struct *c = Crystal_GetCrystal("nope", NULL, NULL); if (c) Crystal_Free(c); c = Crystal_GetCrystal("Si", NULL, NULL); if (c) { (void)Bragg_angle(c, 0.1, 1, 1, 1, NULL); (void)Crystal_dSpacing(c, 0, 0, 0, NULL); Crystal_Free(c); } }
      { double f0, f1, f2; (void)Atomic_Factors(0, 10.0, 0.5, 1.0, &f0, &f1, &f2, NULL); (void)Refractive_Index_Re("nope", 10.0, 1.0, NULL); }
    } }
  for (int q = 0; q < nkept; q++) {
    long ndiff = 0; long firsts[8]; int nf = 0; ApiFn *f = kept[q].f; int ns = SIG_NS[f->sig];
    for (long i = 0; i < kept[q].n; i++) if (eval(f, &kept[q].cells[i]) != kept[q].r1[i]) { if (nf < 8) firsts[nf++] = i; ndiff++; }
    fprintf(OUT, "{\"k\":\"sweep\",\"fn\":\"%s\",\"cells\":%ld,\"tables\":1,\"ndiff\":%ld,\"first\":[", f->name, kept[q].n, ndiff);
    for (int i = 0; i < nf; i++) { Cell *c = &kept[q].cells[firsts[i]]; fprintf(OUT, "%s{\"pass\":5,\"Z\":%d,\"m\":%d,\"E\":\"%g\",\"s\":\"%s\"}", i ? "," : "", c->z, c->m, c->e, ns ? SS[c->s] : ""); }
    fputs("]}\n", OUT);
    free(kept[q].cells); free(kept[q].r1);
  }
  return 0;
}
