/* C16, order independence: every cell of the discrete argument grid of every numeric entry point is evaluated three times in one process --
 * in ascending order, in descending order and in a seeded shuffle -- and must give the same outcome each time (value bits, error presence,
 * code, message).  A result that depends on the call made just before (a cache keyed on the last argument, scratch state that is not reset,
 * a memoised failure) shows as a cell whose outcome differs between the passes.  One event per function: number of cells, differing cells. */
#include "common.h"
#include "api.h"
static uint64_t fnv1(uint64_t h, const void *p, size_t n) { const unsigned char *c = p; for (size_t i = 0; i < n; i++) { h ^= c[i]; h *= 1099511628211ULL; } return h; }
typedef struct { int z, m; double e; int s; } Cell;
static const char *SS[] = {"H2O", "Water, Liquid", "nope", "Ca5(PO4)3OH"};
static uint64_t eval(const ApiFn *f, const Cell *c) {
  int ia[2] = {c->z, c->m}; double da[3] = {c->e, 0.7, 0.3}; xrl_error *e = NULL;
  double v = api_call(f, ia, da, SIG_NS[f->sig] ? SS[c->s] : NULL, &e);
  uint64_t h = fnv1(1469598103934665603ULL, &v, 8); int ok = e == NULL; h = fnv1(h, &ok, sizeof ok);
  if (e) { int code = (int)e->code; h = fnv1(h, &code, sizeof code); if (e->message) h = fnv1(h, e->message, strlen(e->message)); }
  xrl_clear_error(&e); return h;
}
uint64_t xrl_tables_digest(void);      /* c16.c: digest of every table of the library */
/* c16s <part> <nparts> */
int cmd_c16s(int argc, char **argv) {
  int part = argc > 0 ? atoi(argv[0]) : 0, nparts = argc > 1 ? atoi(argv[1]) : 1; int idx = 0;
  static const double ES[] = {1.0, 10.0, 100.0};
  /* kept until the end: after every entry point has been swept, the first pass of each is repeated (pass 5) - an entry point that
   * changes what another one reads shows there, and in the digest of the library's tables taken before and after each sweep */
  static struct { ApiFn *f; Cell *cells; uint64_t *r1; long n; } kept[400]; int nkept = 0;
  for (ApiFn *f = API_TABLE; f->name; f++) {
    if (idx++ % nparts != part) continue;
    uint64_t dig0 = xrl_tables_digest();
    int ni = SIG_NI[f->sig], nd = SIG_ND[f->sig], ns = SIG_NS[f->sig];
    long n = (long)(ni ? 102 : 1) * (ni > 1 ? f->mhi - f->mlo + 1 : 1) * (nd ? 3 : 1) * (ns ? 4 : 1);
    Cell *cells = malloc(n * sizeof *cells); uint64_t *r1 = malloc(n * sizeof *r1); long k = 0;
    for (int z = ni ? -1 : 0; z <= (ni ? 100 : 0); z++) for (int m = ni > 1 ? f->mlo : 0; m <= (ni > 1 ? f->mhi : 0); m++) for (int a = 0; a < (nd ? 3 : 1); a++) for (int s = 0; s < (ns ? 4 : 1); s++)
      cells[k++] = (Cell){z, m, ES[a], s};
    long ndiff = 0; long firsts[8]; int passof[8]; int nf = 0;
    for (long i = 0; i < n; i++) r1[i] = eval(f, &cells[i]);
    for (long i = n - 1; i >= 0; i--) if (eval(f, &cells[i]) != r1[i]) { if (nf < 8) { firsts[nf] = i; passof[nf++] = 2; } ndiff++; }
    long *perm = malloc(n * sizeof *perm); for (long i = 0; i < n; i++) perm[i] = i;
    for (long i = n - 1; i > 0; i--) { long j = (long)(rnd64() % (uint64_t)(i + 1)); long t = perm[i]; perm[i] = perm[j]; perm[j] = t; }
    for (long i = 0; i < n; i++) if (eval(f, &cells[perm[i]]) != r1[perm[i]]) { if (nf < 8) { firsts[nf] = perm[i]; passof[nf++] = 3; } ndiff++; }
    /* and each cell twice in a row */
    for (long i = 0; i < n; i += 1) { uint64_t a = eval(f, &cells[i]), b = eval(f, &cells[i]); if (a != r1[i] || b != r1[i]) { if (nf < 8) { firsts[nf] = i; passof[nf++] = 4; } ndiff++; } }
    uint64_t dig1 = xrl_tables_digest();
    fprintf(OUT, "{\"k\":\"sweep\",\"fn\":\"%s\",\"cells\":%ld,\"tables\":%d,\"ndiff\":%ld,\"first\":[", f->name, n, dig0 == dig1, ndiff);
    for (int i = 0; i < nf; i++) { Cell *c = &cells[firsts[i]]; fprintf(OUT, "%s{\"pass\":%d,\"Z\":%d,\"m\":%d,\"E\":\"%g\",\"s\":\"%s\"}", i ? "," : "", passof[i], c->z, c->m, c->e, ns ? SS[c->s] : ""); }
    fputs("]}\n", OUT);
    free(perm);
    if (nkept < 400) { kept[nkept].f = f; kept[nkept].cells = cells; kept[nkept].r1 = r1; kept[nkept++].n = n; } else { free(cells); free(r1); }
  }
  for (int q = 0; q < nkept; q++) {
    long ndiff = 0; long firsts[8]; int nf = 0; ApiFn *f = kept[q].f; int ns = SIG_NS[f->sig];
    for (long i = 0; i < kept[q].n; i++) if (eval(f, &kept[q].cells[i]) != kept[q].r1[i]) { if (nf < 8) firsts[nf++] = i; ndiff++; }
    fprintf(OUT, "{\"k\":\"sweep\",\"fn\":\"%s\",\"cells\":%ld,\"tables\":1,\"ndiff\":%ld,\"first\":[", f->name, kept[q].n, ndiff);
    for (int i = 0; i < nf; i++) { Cell *c = &kept[q].cells[firsts[i]]; fprintf(OUT, "%s{\"pass\":5,\"Z\":%d,\"m\":%d,\"E\":\"%g\",\"s\":\"%s\"}", i ? "," : "", c->z, c->m, c->e, ns ? SS[c->s] : ""); }
    fputs("]}\n", OUT);
    free(kept[q].cells); free(kept[q].r1);
  }
  return 0;
}
