/* Link-time interposition (-Wl,--wrap=...) of the library's own calls: the observation instrument of C03/C04/C16.
 * Counters only; no judgement.  Every harness build links with the same wrap set. */
#define _GNU_SOURCE
#include <stdio.h>
#include <stdlib.h>
#include <string.h>
#include <stdarg.h>
#include <locale.h>
#include <errno.h>
#include "xraylib.h"
#include "xraylib-error-private.h"
/* fault injection (C04 stage 4, C14, C18): when W_fail_at > 0 the W_fail_at-th allocation request made by library code from now on returns NULL
 * with errno = ENOMEM (once); 0 = off.  W_reqs counts requests, W_failed the injected failures.  Single-threaded stages only. */
long W_fail_at = 0, W_reqs = 0, W_failed = 0, W_fail_spare_errors = 0;      /* spare_errors: requests made while an error object is built are never refused (random histories: the unchecked error object is a known finding of its own) */
#define FAULT() (__atomic_add_fetch(&W_reqs, 1, __ATOMIC_RELAXED), W_fail_at > 0 && --W_fail_at == 0 ? (W_failed++, errno = ENOMEM, 1) : 0)
long W_live = 0, W_allocs = 0, W_files = 0, W_fopens = 0, W_setlocale = 0, W_over = 0, W_sets = 0, W_sets_null = 0;
void *__real_malloc(size_t); void __real_free(void *); void *__real_realloc(void *, size_t); void *__real_calloc(size_t, size_t);
char *__real_strdup(const char *); char *__real_strndup(const char *, size_t); FILE *__real_fopen(const char *, const char *); int __real_fclose(FILE *);
char *__real_setlocale(int, const char *); int __real_vasprintf(char **, const char *, va_list);
void __real_xrl_set_error_literal(xrl_error **, xrl_error_code, const char *);
void __real_xrl_propagate_error(xrl_error **, xrl_error *);
void *__wrap_malloc(size_t n) { if (FAULT()) return NULL; void *p = __real_malloc(n); if (p) { __atomic_add_fetch(&W_live, 1, __ATOMIC_RELAXED); __atomic_add_fetch(&W_allocs, 1, __ATOMIC_RELAXED); } return p; }
void *__wrap_calloc(size_t a, size_t b) { if (FAULT()) return NULL; void *p = __real_calloc(a, b); if (p) { __atomic_add_fetch(&W_live, 1, __ATOMIC_RELAXED); __atomic_add_fetch(&W_allocs, 1, __ATOMIC_RELAXED); } return p; }
void *__wrap_realloc(void *o, size_t n) { if (FAULT()) return NULL; void *p = __real_realloc(o, n); if (!o && p) { __atomic_add_fetch(&W_live, 1, __ATOMIC_RELAXED); __atomic_add_fetch(&W_allocs, 1, __ATOMIC_RELAXED); } return p; }
void __wrap_free(void *p) { if (p) __atomic_sub_fetch(&W_live, 1, __ATOMIC_RELAXED); __real_free(p); }
char *__wrap_strdup(const char *s) { if (FAULT()) return NULL; char *p = __real_strdup(s); if (p) { __atomic_add_fetch(&W_live, 1, __ATOMIC_RELAXED); __atomic_add_fetch(&W_allocs, 1, __ATOMIC_RELAXED); } return p; }
char *__wrap_strndup(const char *s, size_t n) { if (FAULT()) return NULL; char *p = __real_strndup(s, n); if (p) { __atomic_add_fetch(&W_live, 1, __ATOMIC_RELAXED); __atomic_add_fetch(&W_allocs, 1, __ATOMIC_RELAXED); } return p; }
int __wrap_vasprintf(char **out, const char *fmt, va_list ap) { if (FAULT()) { *out = NULL; return -1; } int r = __real_vasprintf(out, fmt, ap); if (r >= 0) { __atomic_add_fetch(&W_live, 1, __ATOMIC_RELAXED); __atomic_add_fetch(&W_allocs, 1, __ATOMIC_RELAXED); } return r; }
FILE *__wrap_fopen(const char *a, const char *b) { FILE *f = __real_fopen(a, b); if (f) { __atomic_add_fetch(&W_files, 1, __ATOMIC_RELAXED); __atomic_add_fetch(&W_fopens, 1, __ATOMIC_RELAXED); } return f; }
int __wrap_fclose(FILE *f) { __atomic_sub_fetch(&W_files, 1, __ATOMIC_RELAXED); return __real_fclose(f); }
char *__wrap_setlocale(int c, const char *l) { if (l) __atomic_add_fetch(&W_setlocale, 1, __ATOMIC_RELAXED); return __real_setlocale(c, l); }
/* an attempt to store an error over an existing one is what C03 forbids: count it at the three places that store */
void __wrap_xrl_set_error_literal(xrl_error **err, xrl_error_code code, const char *msg) {
  __atomic_add_fetch(&W_sets, 1, __ATOMIC_RELAXED); if (!err) __atomic_add_fetch(&W_sets_null, 1, __ATOMIC_RELAXED); if (err && *err) __atomic_add_fetch(&W_over, 1, __ATOMIC_RELAXED);
  long saved = W_fail_at; if (W_fail_spare_errors) W_fail_at = 0;
  __real_xrl_set_error_literal(err, code, msg);
  if (W_fail_spare_errors) W_fail_at = saved;
}
/* the variadic setter is forwarded untouched (gcc's __builtin_apply re-issues the call with the caller's registers and stack arguments),
 * so the library's own formatting path -- xrl_error_new_valist / xrl_strdup_vprintf -- is what every harness executes */
void __real_xrl_set_error(xrl_error **, xrl_error_code, const char *, ...);
void __wrap_xrl_set_error(xrl_error **err, xrl_error_code code, const char *fmt, ...) {
  void *args = __builtin_apply_args();
  __atomic_add_fetch(&W_sets, 1, __ATOMIC_RELAXED); if (!err) __atomic_add_fetch(&W_sets_null, 1, __ATOMIC_RELAXED); if (err && *err) __atomic_add_fetch(&W_over, 1, __ATOMIC_RELAXED);
  (void)code; (void)fmt;
  long saved = W_fail_at; if (W_fail_spare_errors) W_fail_at = 0;
  __builtin_apply((void (*)())__real_xrl_set_error, args, 256);
  if (W_fail_spare_errors) W_fail_at = saved;
}
void __wrap_xrl_propagate_error(xrl_error **dest, xrl_error *src) {
  if (dest && *dest) __atomic_add_fetch(&W_over, 1, __ATOMIC_RELAXED);
  __real_xrl_propagate_error(dest, src);
}
