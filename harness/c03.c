/* C03 (the enumeration is shared with C04 under ASan and with C18/C19 as the argument grid):
 * every exported function x the discrete argument space x structured continuous samples x strings,
 * each call with an error slot and without one.  Calls are FOLDED into observation classes
 *   (function, argument classes, return class, slot class, code, message present, overwrite attempts, slot/no-slot agreement)
 * with a count and the first witness; TLC judges every distinct class.  The fold is the projection function. */
#include "common.h"
#include "api.h"
#include "xrayglob.h"
#include <unistd.h>
#include <fcntl.h>
extern long W_over, W_live, W_files;

/* ------------------------------------------------------------------ fold table */
typedef struct { char *key; long n; char *wit; } Cls;
#define NCLS (1 << 16)
static Cls table[NCLS]; static long ncls = 0, ncalls = 0;
static unsigned long hstr(const char *s) { unsigned long h = 1469598103934665603UL; for (; *s; s++) { h ^= (unsigned char)*s; h *= 1099511628211UL; } return h; }
static void fold(const char *key, const char *wit) {
  unsigned long i = hstr(key) & (NCLS - 1);
  while (table[i].key && strcmp(table[i].key, key)) i = (i + 1) & (NCLS - 1);
  if (!table[i].key) { table[i].key = strdup(key); table[i].wit = strdup(wit); ncls++; if (ncls > NCLS / 2) { fprintf(stderr, "class table full\n"); exit(3); } }
  table[i].n++; ncalls++;
}
static void dump_classes(void) {
  for (long i = 0; i < NCLS; i++) if (table[i].key) fprintf(OUT, "{\"k\":\"cls\",%s,\"n\":%ld,\"w\":%s}\n", table[i].key, table[i].n, table[i].wit);
  fprintf(OUT, "{\"k\":\"sum\",\"calls\":%ld,\"classes\":%ld}\n", ncalls, ncls);
}
static const char *icls(int v) { return v < 0 ? "neg" : v == 0 ? "zero" : v <= 120 ? "small" : "large"; }
static const char *dcls(double v) { return isnan(v) ? "nan" : isinf(v) ? "inf" : v < 0 ? "neg" : v == 0 ? "zero" : v < 1e-6 ? "tiny" : v > 1e6 ? "huge" : "normal"; }
static const char *rcls(double v) { return isnan(v) ? "nan" : isinf(v) ? "inf" : v < 0 ? "neg" : v == 0 ? "zero" : "pos"; }
static const char *scls(const char *s) { return !s ? "null" : !*s ? "empty" : "text"; }
static int biteq(double a, double b) { return memcmp(&a, &b, 8) == 0; }
static char wbuf[1024];
static void jd_s(char *o, double x) { uint64_t b; memcpy(&b, &x, 8); sprintf(o, "[%d,%d]", (int32_t)(b >> 32), (int32_t)(b & 0xffffffffu)); }
static void jstr_s(char *o, const char *s) {
  if (!s) { strcpy(o, "\"<NULL>\""); return; }
  *o++ = '"'; for (; *s && o - wbuf < 900; s++) { unsigned char c = (unsigned char)*s; if (c == '"' || c == '\\') { *o++ = '\\'; *o++ = c; } else if (c < 0x20 || c >= 0x7f) o += sprintf(o, "\\u%04x", c); else *o++ = c; } *o++ = '"'; *o = 0;
}
/* one observation of a double-valued call: v with slot e, v2 without slot */
/* "no call ever stores an error over an existing one": the call once more with a slot that already holds an error; afterwards the slot
 * must hold the very same object with the same code and text.  The library's warning about the attempted overwrite is not interesting. */
static int KEEP = 1; static int fd_null = -1, fd_err = -1; static xrl_error *occ_e, *occ_before;
static xrl_error **occupied(void) {
  if (fd_null < 0) { fd_null = open("/dev/null", O_WRONLY); fd_err = dup(2); }
  occ_e = NULL; xrl_set_error_literal(&occ_e, XRL_ERROR_IO, "the caller's earlier error"); occ_before = occ_e;
  fflush(stderr); dup2(fd_null, 2); return &occ_e;
}
static void occupied_done(void) {
  fflush(stderr); dup2(fd_err, 2);
  KEEP = occ_e == occ_before && occ_e && occ_e->code == XRL_ERROR_IO && occ_e->message && !strcmp(occ_e->message, "the caller's earlier error");
  if (occ_e == occ_before) xrl_clear_error(&occ_e); else occ_e = NULL;      /* a replaced or freed object is not touched again */
}
static int REP = 1;      /* did a third call (again with a slot) reproduce the first one: value, error presence, code, message */
static void observe(const char *fn, const char *argc, double v, xrl_error *e, double v2, long over, const char *wit) {
  char key[512];
  snprintf(key, sizeof key, "\"fn\":\"%s\",\"argc\":\"%s\",\"kind\":\"double\",\"ret\":\"%s\",\"slot\":\"%s\",\"code\":%d,\"msg\":%d,\"over\":%d,\"same\":%d,\"rep\":%d,\"keep\":%d",
           fn, argc, rcls(v), e ? "err" : "empty", e ? (int)e->code : -1, e ? (e->message && e->message[0]) : 0, over > 0, biteq(v, v2), REP, KEEP);
  fold(key, wit); REP = 1; KEEP = 1;
}
static void observe_ptr(const char *fn, const char *argc, int nonnull, xrl_error *e, int nonnull2, long over, const char *wit) {
  char key[512];
  snprintf(key, sizeof key, "\"fn\":\"%s\",\"argc\":\"%s\",\"kind\":\"ptr\",\"ret\":\"%s\",\"slot\":\"%s\",\"code\":%d,\"msg\":%d,\"over\":%d,\"same\":%d,\"keep\":%d",
           fn, argc, nonnull ? "ptr" : "null", e ? "err" : "empty", e ? (int)e->code : -1, e ? (e->message && e->message[0]) : 0, over > 0, nonnull == nonnull2, KEEP);
  fold(key, wit); KEEP = 1;
}
static void observe_int(const char *fn, const char *argc, int v, xrl_error *e, int v2, long over, const char *wit) {
  char key[512];
  snprintf(key, sizeof key, "\"fn\":\"%s\",\"argc\":\"%s\",\"kind\":\"int\",\"ret\":\"%s\",\"slot\":\"%s\",\"code\":%d,\"msg\":%d,\"over\":%d,\"same\":%d",
           fn, argc, v == 0 ? "zero" : v > 0 ? "pos" : "neg", e ? "err" : "empty", e ? (int)e->code : -1, e ? (e->message && e->message[0]) : 0, over > 0, v == v2);
  fold(key, wit);
}

/* ------------------------------------------------------------------ argument samples */
static double ELIST[64]; static int NE;
static double ALIST[16]; static int NA;
static char LONGNAME[9200];      /* an unknown name long enough to overflow any fixed message buffer */
static const char *SLIST[] = {NULL, "", "H2O", "Ca5(PO4)3OH", "Fe", "U", "Rf", "Water, Liquid", "Gadolinium Oxysulfide", "garbage!", "H2O)", "Unobtainium", "SiO2", "C6H12O6", "Pu", "EsO2", "H2OFm", LONGNAME};
#define NS ((int)(sizeof SLIST / sizeof *SLIST))
static void build_lists(int thorough) {
  memset(LONGNAME, 'q', sizeof LONGNAME - 1); LONGNAME[0] = 'N'; LONGNAME[sizeof LONGNAME - 1] = 0;
  static const double eq[] = {-1.0, 0.0, 1e-300, 1e-6, 0.05, 0.1, 1.0, 8.9789, 8.98, 20.0, 100.0, 799.9, 1000.0, 1e6, 1e300};
  static const double et[] = {-1e300, -1e-300, 1e-10, 0.001, 0.0099, 0.01, 0.0109, 0.5, 1.0000000001, 2.0, 5.0, 10.0, 28.0, 50.0, 88.0, 115.6, 200.0, 500.0, 800.0, 800.1, 1001.0, 1e4, 1e5};
  NE = 0; for (unsigned i = 0; i < sizeof eq / sizeof *eq; i++) ELIST[NE++] = eq[i];
  if (thorough) for (unsigned i = 0; i < sizeof et / sizeof *et; i++) ELIST[NE++] = et[i];
  static const double aq[] = {0.0, 1e-9, 0.7853981633974483, 1.5707963267948966, 3.141592653589793, -1.5707963267948966, 6.783185307179586, 4.0};
  static const double at[] = {100.0, 1e300, -3.141592653589793, 2.0};
  NA = 0; for (unsigned i = 0; i < sizeof aq / sizeof *aq; i++) ALIST[NA++] = aq[i];
  if (thorough) for (unsigned i = 0; i < sizeof at / sizeof *at; i++) ALIST[NA++] = at[i];
}

static void drive_numeric(const ApiFn *f, int thorough) {
  int ni = SIG_NI[f->sig], nd = SIG_ND[f->sig], ns = SIG_NS[f->sig];
  int ia[2] = {0, 0}; double da[3] = {0, 0, 0};
  int zlo = ni ? -3 : 0, zhi = ni ? 125 : 0, mlo = ni > 1 ? f->mlo : 0, mhi = ni > 1 ? f->mhi : 0;
  for (int si = 0; si < (ns ? NS : 1); si++) {
    const char *s = ns ? SLIST[si] : NULL;
    for (int Z = zlo; Z <= zhi; Z++) for (int m = mlo; m <= mhi; m++) {
      ia[0] = Z; ia[1] = m;
      /* element-specific energies: both sides of the K and L3 edges (all K..M5 edges in the thorough tier) */
      double el[128]; int ne = 0;
      for (int i = 0; i < NE; i++) el[ne++] = ELIST[i];
      if (nd && ni && Z >= 1 && Z <= 120 && (m == mlo || ni == 1)) {
        for (int sh = 0; sh <= (thorough ? 8 : 3); sh += (thorough ? 1 : 3)) { double ed = EdgeEnergy(Z, sh, NULL); if (ed > 0) { el[ne++] = ed * (1 - 1e-9); el[ne++] = ed * (1 + 1e-9); } }
        /* the ends of the three component tables (they differ: a total exists only where all three do) and a point between any two distinct ends */
        if (Z <= ZMAX) { double ends[6]; int nn = 0;
          if (NE_Photo[Z] > 0) { ends[nn++] = exp(E_Photo_arr[Z][0]) / 1000.0; ends[nn++] = exp(E_Photo_arr[Z][NE_Photo[Z] - 1]) / 1000.0; }
          if (NE_Rayl[Z] > 0) { ends[nn++] = exp(E_Rayl_arr[Z][0]) / 1000.0; ends[nn++] = exp(E_Rayl_arr[Z][NE_Rayl[Z] - 1]) / 1000.0; }
          if (NE_Compt[Z] > 0) { ends[nn++] = exp(E_Compt_arr[Z][0]) / 1000.0; ends[nn++] = exp(E_Compt_arr[Z][NE_Compt[Z] - 1]) / 1000.0; }
          for (int i = 0; i < nn && ne < 90; i++) { el[ne++] = ends[i] * (1 - 1e-6); el[ne++] = ends[i] * (1 + 1e-6); for (int j = 0; j < i && ne < 90; j++) if (fabs(ends[i] - ends[j]) > 1e-3 * ends[i] && fabs(log(ends[i] / ends[j])) < 3) el[ne++] = 0.5 * (ends[i] + ends[j]); } }
      }
      int n0 = nd >= 1 ? ne : 1, n1 = nd >= 2 ? NA : 1, n2 = nd >= 3 ? NA : 1;
      for (int a = 0; a < n0; a++) for (int b = 0; b < n1; b++) for (int c = 0; c < n2; c++) {
        da[0] = nd >= 1 ? el[a] : 0; da[1] = nd >= 2 ? ALIST[b] : 0; da[2] = nd >= 3 ? ALIST[c] : 0;
        xrl_error *e = NULL; long o0 = W_over;
        double v = api_call(f, ia, da, s, &e); long over = W_over - o0;
        double v2 = api_call(f, ia, da, s, NULL);
        { xrl_error *e3 = NULL; double v3 = api_call(f, ia, da, s, &e3);
          REP = biteq(v, v3) && (e == NULL) == (e3 == NULL) && (!e || (e->code == e3->code && !strcmp(e->message ? e->message : "", e3->message ? e3->message : ""))); xrl_clear_error(&e3); }
        { static unsigned tick; if (ns || (tick++ & 3) == 0) { xrl_error **oe = occupied(); (void)api_call(f, ia, da, s, oe); occupied_done(); } }
        char argc[128]; int o = 0; argc[0] = 0;
        if (ns) o += sprintf(argc + o, "%s,", scls(s));
        for (int i = 0; i < ni; i++) o += sprintf(argc + o, "%s,", icls(ia[i]));
        for (int i = 0; i < nd; i++) o += sprintf(argc + o, "%s,", dcls(da[i]));
        /* witness */
        char *w = wbuf; w += sprintf(w, "{\"s\":"); jstr_s(w, s); w += strlen(w); w += sprintf(w, ",\"i\":[%d,%d],\"d\":[", ia[0], ia[1]);
        for (int i = 0; i < nd; i++) { if (i) *w++ = ','; jd_s(w, da[i]); w += strlen(w); } sprintf(w, "]}");
        observe(f->name, argc, v, e, v2, over, wbuf);
        xrl_clear_error(&e);
      }
    }
  }
}

/* ------------------------------------------------------------------ hand-driven functions */
static const char *FORMULAS[] = {NULL, "", LONGNAME, "EsO2", "H", "He", "H2O", "h2o", "Ca5(PO4)3OH", "Ca5(PO4)3(OH)", "(((H)))", "((H)2O)3", "H2O)", "(H2O", "()", "H0", "H0.0", "H1.5O0.5", "H.5", "H1.", "2O", "13Li",
  "2(NO3)", "H(2)", "CuI2ww", "Au(11(H3PO4))2", "Rf", "Db", "Sg", "Bh", "Uuo", "Xx", "X", "A", "Fe2O3", "Fe 2O3", "Fe2O3 ", " Fe", "Fe\n", "Fe-", "Fe+2", "Fe2.5.5", "Fe1e3", "FeFeFe", "C1000000", "C0.0000001", "H1e-3", "é", "Fe\xc3\xa9", "(", ")", ")(", "(H", "H)", "H((", "O2(", "1", ".", "..", "a", "fe", "FE", "Na2(SO4)(H2O)10", "U238", "PuO2.000001",
  "HHHHHHHHHHHHHHHHHHHHHHHHHHHHHHHHHHHHHHHHHHHHHHHHHHHHHHHHHHHHHHHHHHHHHHHHHHHHHHHHHHHHHHHHHHHHHHHHHHHHHHHHHHHHHHHHHHHHHHHHHHHHHHHHHHHH"};
#define NF ((int)(sizeof FORMULAS / sizeof *FORMULAS))
static void wit_s(const char *s) { char *w = wbuf; w += sprintf(w, "{\"s\":"); jstr_s(w, s); w += strlen(w); sprintf(w, "}"); }
static void wit_i(int a, int b, int c) { sprintf(wbuf, "{\"i\":[%d,%d,%d]}", a, b, c); }

static void drive_other(int thorough) {
  /* parser */
  for (int i = 0; i < NF; i++) {
    xrl_error *e = NULL; long o0 = W_over; struct compoundData *c = CompoundParser(FORMULAS[i], &e); long over = W_over - o0;
    struct compoundData *c2 = CompoundParser(FORMULAS[i], NULL);
    { xrl_error **oe = occupied(); struct compoundData *c4 = CompoundParser(FORMULAS[i], oe); occupied_done(); if (c4) FreeCompoundData(c4); }
    wit_s(FORMULAS[i]); observe_ptr("CompoundParser", scls(FORMULAS[i]), c != NULL, e, c2 != NULL, over, wbuf);
    if (c) {   /* a successful parse must describe a finite, positive composition */
      int fin = isfinite(c->molarMass) && c->molarMass > 0 && isfinite(c->nAtomsAll) && c->nAtomsAll > 0 && c->nElements > 0;
      for (int k = 0; k < c->nElements; k++) fin = fin && isfinite(c->massFractions[k]) && c->massFractions[k] > 0 && isfinite(c->nAtoms[k]) && c->nAtoms[k] > 0;
      char key[256]; snprintf(key, sizeof key, "\"fn\":\"CompoundParser\",\"argc\":\"result\",\"kind\":\"obj\",\"ret\":\"%s\",\"slot\":\"empty\",\"code\":-1,\"msg\":0,\"over\":0,\"same\":1", fin ? "finite" : "nonfinite");
      fold(key, wbuf); FreeCompoundData(c);
    }
    if (c2) FreeCompoundData(c2); xrl_clear_error(&e);
  }
  for (int Z = -3; Z <= 125; Z++) {
    xrl_error *e = NULL; long o0 = W_over; char *s = AtomicNumberToSymbol(Z, &e); long over = W_over - o0; char *s2 = AtomicNumberToSymbol(Z, NULL);
    wit_i(Z, 0, 0); observe_ptr("AtomicNumberToSymbol", icls(Z), s != NULL, e, s2 != NULL, over, wbuf);
    if (s) { xrl_error *e3 = NULL; o0 = W_over; int z = SymbolToAtomicNumber(s, &e3); over = W_over - o0; int z2 = SymbolToAtomicNumber(s, NULL); wit_s(s); observe_int("SymbolToAtomicNumber", "symbol", z, e3, z2, over, wbuf); xrl_clear_error(&e3); }
    xrlFree(s); xrlFree(s2); xrl_clear_error(&e);
  }
  for (int i = 0; i < NF; i++) {
    xrl_error *e = NULL; long o0 = W_over; int z = SymbolToAtomicNumber(FORMULAS[i], &e); long over = W_over - o0; int z2 = SymbolToAtomicNumber(FORMULAS[i], NULL);
    wit_s(FORMULAS[i]); observe_int("SymbolToAtomicNumber", scls(FORMULAS[i]), z, e, z2, over, wbuf); xrl_clear_error(&e);
  }
  /* catalogues */
  for (int i = -3; i <= 190; i++) {
    xrl_error *e = NULL; long o0 = W_over; struct compoundDataNIST *c = GetCompoundDataNISTByIndex(i, &e); long over = W_over - o0; struct compoundDataNIST *c2 = GetCompoundDataNISTByIndex(i, NULL);
    wit_i(i, 0, 0); observe_ptr("GetCompoundDataNISTByIndex", icls(i), c != NULL, e, c2 != NULL, over, wbuf);
    if (c) { xrl_error *e3 = NULL; o0 = W_over; struct compoundDataNIST *d = GetCompoundDataNISTByName(c->name, &e3); over = W_over - o0; struct compoundDataNIST *d2 = GetCompoundDataNISTByName(c->name, NULL);
      wit_s(c->name); observe_ptr("GetCompoundDataNISTByName", "listed", d != NULL, e3, d2 != NULL, over, wbuf); if (d) FreeCompoundDataNIST(d); if (d2) FreeCompoundDataNIST(d2); xrl_clear_error(&e3); FreeCompoundDataNIST(c); }
    if (c2) FreeCompoundDataNIST(c2); xrl_clear_error(&e);
  }
  for (int i = -3; i <= 14; i++) {
    xrl_error *e = NULL; long o0 = W_over; struct radioNuclideData *c = GetRadioNuclideDataByIndex(i, &e); long over = W_over - o0; struct radioNuclideData *c2 = GetRadioNuclideDataByIndex(i, NULL);
    wit_i(i, 0, 0); observe_ptr("GetRadioNuclideDataByIndex", icls(i), c != NULL, e, c2 != NULL, over, wbuf);
    if (c) { xrl_error *e3 = NULL; o0 = W_over; struct radioNuclideData *d = GetRadioNuclideDataByName(c->name, &e3); over = W_over - o0; struct radioNuclideData *d2 = GetRadioNuclideDataByName(c->name, NULL);
      wit_s(c->name); observe_ptr("GetRadioNuclideDataByName", "listed", d != NULL, e3, d2 != NULL, over, wbuf); if (d) FreeRadioNuclideData(d); if (d2) FreeRadioNuclideData(d2); xrl_clear_error(&e3); FreeRadioNuclideData(c); }
    if (c2) FreeRadioNuclideData(c2); xrl_clear_error(&e);
  }
  for (int i = 0; i < NF; i++) {
    xrl_error *e = NULL; long o0 = W_over; struct compoundDataNIST *c = GetCompoundDataNISTByName(FORMULAS[i], &e); long over = W_over - o0; struct compoundDataNIST *c2 = GetCompoundDataNISTByName(FORMULAS[i], NULL);
    { xrl_error **oe = occupied(); struct compoundDataNIST *c4 = GetCompoundDataNISTByName(FORMULAS[i], oe); occupied_done(); if (c4) FreeCompoundDataNIST(c4); }
    wit_s(FORMULAS[i]); observe_ptr("GetCompoundDataNISTByName", scls(FORMULAS[i]), c != NULL, e, c2 != NULL, over, wbuf); if (c) FreeCompoundDataNIST(c); if (c2) FreeCompoundDataNIST(c2); xrl_clear_error(&e);
    e = NULL; o0 = W_over; struct radioNuclideData *r = GetRadioNuclideDataByName(FORMULAS[i], &e); over = W_over - o0; struct radioNuclideData *r2 = GetRadioNuclideDataByName(FORMULAS[i], NULL);
    { xrl_error **oe = occupied(); struct radioNuclideData *r4 = GetRadioNuclideDataByName(FORMULAS[i], oe); occupied_done(); if (r4) FreeRadioNuclideData(r4); }
    observe_ptr("GetRadioNuclideDataByName", scls(FORMULAS[i]), r != NULL, e, r2 != NULL, over, wbuf); if (r) FreeRadioNuclideData(r); if (r2) FreeRadioNuclideData(r2); xrl_clear_error(&e);
  }
  { xrl_error *e = NULL; int n; long o0 = W_over; char **l = GetCompoundDataNISTList(&n, &e); long over = W_over - o0; char **l2 = GetCompoundDataNISTList(NULL, NULL); wit_i(n, 0, 0);
    observe_ptr("GetCompoundDataNISTList", "", l != NULL, e, l2 != NULL, over, wbuf); for (int i = 0; l && l[i]; i++) { xrlFree(l[i]); xrlFree(l2[i]); } xrlFree(l); xrlFree(l2); xrl_clear_error(&e);
    o0 = W_over; l = GetRadioNuclideDataList(&n, &e); over = W_over - o0; l2 = GetRadioNuclideDataList(NULL, NULL);
    observe_ptr("GetRadioNuclideDataList", "", l != NULL, e, l2 != NULL, over, wbuf); for (int i = 0; l && l[i]; i++) { xrlFree(l[i]); xrlFree(l2[i]); } xrlFree(l); xrlFree(l2); xrl_clear_error(&e);
    o0 = W_over; l = Crystal_GetCrystalsList(NULL, &n, &e); over = W_over - o0; l2 = Crystal_GetCrystalsList(NULL, NULL, NULL);
    observe_ptr("Crystal_GetCrystalsList", "", l != NULL, e, l2 != NULL, over, wbuf); for (int i = 0; l && l[i]; i++) { xrlFree(l[i]); xrlFree(l2[i]); } xrlFree(l); xrlFree(l2); xrl_clear_error(&e); }
  /* refractive index (complex) */
  for (int si = 0; si < NS; si++) for (int a = 0; a < NE; a++) for (int b = 0; b < NE; b += 2) {
    xrl_error *e = NULL; long o0 = W_over; xrlComplex z = Refractive_Index(SLIST[si], ELIST[a], ELIST[b], &e); long over = W_over - o0; xrlComplex z2 = Refractive_Index(SLIST[si], ELIST[a], ELIST[b], NULL);
    char argc[96]; snprintf(argc, sizeof argc, "%s,%s,%s,", scls(SLIST[si]), dcls(ELIST[a]), dcls(ELIST[b]));
    char key[512]; const char *rc = (isnan(z.re) || isnan(z.im)) ? "nan" : (isinf(z.re) || isinf(z.im)) ? "inf" : (z.re == 0 && z.im == 0) ? "zero" : "nonzero";
    snprintf(key, sizeof key, "\"fn\":\"Refractive_Index\",\"argc\":\"%s\",\"kind\":\"complex\",\"ret\":\"%s\",\"slot\":\"%s\",\"code\":%d,\"msg\":%d,\"over\":%d,\"same\":%d", argc, rc, e ? "err" : "empty", e ? (int)e->code : -1, e ? (e->message && e->message[0]) : 0, over > 0, biteq(z.re, z2.re) && biteq(z.im, z2.im));
    char *w = wbuf; w += sprintf(w, "{\"s\":"); jstr_s(w, SLIST[si]); w += strlen(w); w += sprintf(w, ",\"d\":["); jd_s(w, ELIST[a]); w += strlen(w); *w++ = ','; jd_s(w, ELIST[b]); w += strlen(w); sprintf(w, "]}");
    fold(key, wbuf); xrl_clear_error(&e);
  }
  /* crystal geometry and structure factors */
  Crystal_Struct *si = Crystal_GetCrystal("Si", NULL, NULL), *bad1 = Crystal_GetCrystal("Si", NULL, NULL), *bad2 = Crystal_GetCrystal("Si", NULL, NULL), *bad3 = Crystal_GetCrystal("Si", NULL, NULL), *quartz = Crystal_GetCrystal("AlphaQuartz", NULL, NULL);
  bad1->atom[3].Zatom = 0; bad2->atom[5].Zatom = 120; bad3->atom[1].Zatom = -7;
  Crystal_Struct *cr[] = {NULL, si, quartz, bad1, bad2, bad3}; const char *crn[] = {"null", "Si", "AlphaQuartz", "atomZ0", "atomZ120", "atomZneg"};
  int hmax = thorough ? 3 : 2;
  for (int ci = 0; ci < 6; ci++) {
    { xrl_error *e = NULL; long o0 = W_over; double v = Crystal_UnitCellVolume(cr[ci], &e); long over = W_over - o0; double v2 = Crystal_UnitCellVolume(cr[ci], NULL); wit_s(crn[ci]); observe("Crystal_UnitCellVolume", ci ? "crystal" : "null", v, e, v2, over, wbuf); xrl_clear_error(&e); }
    { xrl_error *e = NULL; long o0 = W_over; Crystal_Struct *c = Crystal_MakeCopy(cr[ci], &e); long over = W_over - o0; Crystal_Struct *c2 = Crystal_MakeCopy(cr[ci], NULL); wit_s(crn[ci]); observe_ptr("Crystal_MakeCopy", ci ? "crystal" : "null", c != NULL, e, c2 != NULL, over, wbuf); Crystal_Free(c); Crystal_Free(c2); xrl_clear_error(&e); }
    for (int h = -hmax; h <= hmax; h++) for (int k = -hmax; k <= hmax; k++) for (int l = -hmax; l <= hmax; l++) {
      char argc[96]; snprintf(argc, sizeof argc, "%s,%s,", ci ? (ci > 2 ? "badatom" : "crystal") : "null", (h || k || l) ? "hkl" : "000");
      { xrl_error *e = NULL; long o0 = W_over; double v = Crystal_dSpacing(cr[ci], h, k, l, &e); long over = W_over - o0; double v2 = Crystal_dSpacing(cr[ci], h, k, l, NULL);
        snprintf(wbuf, sizeof wbuf, "{\"s\":\"%s\",\"i\":[%d,%d,%d]}", crn[ci], h, k, l); observe("Crystal_dSpacing", argc, v, e, v2, over, wbuf); xrl_clear_error(&e); }
      /* besides the common energy list: the threshold of this reflection, hc/E = 2 d, approached from both sides - where "no reflection" turns into an angle */
      double ee[80]; int ne2 = 0; for (int a = 0; a < NE && ne2 < 64; a++) ee[ne2++] = ELIST[a];
      if (cr[ci] && (h || k || l)) { double d = Crystal_dSpacing(cr[ci], h, k, l, NULL); if (d > 0) { static const double off[] = {-1e-3, -1e-6, -3e-8, -1e-9, 0.0, 1e-9, 3e-8, 1e-6}; for (int q = 0; q < 8; q++) ee[ne2++] = KEV2ANGST / (2 * d) * (1.0 + off[q]); } }
      for (int a = 0; a < ne2; a++) {
        double E = ee[a]; char argc2[128]; snprintf(argc2, sizeof argc2, "%s%s,", argc, dcls(E));
        char *w = wbuf; w += sprintf(w, "{\"s\":\"%s\",\"i\":[%d,%d,%d],\"d\":[", crn[ci], h, k, l); jd_s(w, E); w += strlen(w); sprintf(w, "]}");
        { xrl_error *e = NULL; long o0 = W_over; double v = Bragg_angle(cr[ci], E, h, k, l, &e); long over = W_over - o0; double v2 = Bragg_angle(cr[ci], E, h, k, l, NULL); observe("Bragg_angle", argc2, v, e, v2, over, wbuf); xrl_clear_error(&e); }
        for (int ri = 0; ri < 3; ri++) { double rel = ri == 0 ? 0.0 : ri == 1 ? 1.0 : 2.5;
          { xrl_error *e = NULL; long o0 = W_over; double v = Q_scattering_amplitude(cr[ci], E, h, k, l, rel, &e); long over = W_over - o0; double v2 = Q_scattering_amplitude(cr[ci], E, h, k, l, rel, NULL); observe("Q_scattering_amplitude", argc2, v, e, v2, over, wbuf); xrl_clear_error(&e); }
          if (abs(h) > 1 || abs(k) > 1 || abs(l) > 1 || ci == 0) continue;      /* structure factors: |hkl| <= 1 (NULL crystal dereferences: see C04) */
          for (int di = 0; di < 3; di++) { double dw = di == 0 ? 1.0 : di == 1 ? 0.5 : -1.0;
            for (int f0 = -1; f0 <= 3; f0++) for (int f1 = -1; f1 <= 3; f1 += (thorough ? 1 : 2)) for (int f2 = (thorough ? -1 : 0); f2 <= 3; f2 += (thorough ? 1 : 2)) {
              char argc3[200]; snprintf(argc3, sizeof argc3, "%s%s,flags%s,", argc2, dcls(dw), (f0 >= 0 && f0 <= 2 && (f1 == 0 || f1 == 2) && (f2 == 0 || f2 == 2)) ? "ok" : "bad");
              xrl_error *e = NULL; long o0 = W_over; xrlComplex z = Crystal_F_H_StructureFactor_Partial(cr[ci], E, h, k, l, dw, rel, f0, f1, f2, &e); long over = W_over - o0;
              xrlComplex z2 = Crystal_F_H_StructureFactor_Partial(cr[ci], E, h, k, l, dw, rel, f0, f1, f2, NULL);
              const char *rc = (isnan(z.re) || isnan(z.im)) ? "nan" : (isinf(z.re) || isinf(z.im)) ? "inf" : (z.re == 0 && z.im == 0) ? "zero" : "nonzero"; char key[600];
              snprintf(key, sizeof key, "\"fn\":\"Crystal_F_H_StructureFactor_Partial\",\"argc\":\"%s\",\"kind\":\"complex\",\"ret\":\"%s\",\"slot\":\"%s\",\"code\":%d,\"msg\":%d,\"over\":%d,\"same\":%d", argc3, rc, e ? "err" : "empty", e ? (int)e->code : -1, e ? (e->message && e->message[0]) : 0, over > 0, biteq(z.re, z2.re) && biteq(z.im, z2.im));
              char wb2[400]; snprintf(wb2, sizeof wb2, "{\"s\":\"%s\",\"i\":[%d,%d,%d,%d,%d,%d],\"E\":%g,\"dw\":%g,\"rel\":%g}", crn[ci], h, k, l, f0, f1, f2, E > 1e299 ? 1e299 : E < -1e299 ? -1e299 : E, dw, rel);
              for (char *p = wb2; *p; p++) if (!strncmp(p, "inf", 3) || !strncmp(p, "nan", 3)) { p[0] = '0'; p[1] = ' '; p[2] = ' '; }
              fold(key, wb2); xrl_clear_error(&e);
            }
            if (di == 0 && ri == 1) { xrl_error *e = NULL; long o0 = W_over; xrlComplex z = Crystal_F_H_StructureFactor(cr[ci], E, h, k, l, dw, rel, &e); long over = W_over - o0; xrlComplex z2 = Crystal_F_H_StructureFactor(cr[ci], E, h, k, l, dw, rel, NULL);
              const char *rc = (isnan(z.re) || isnan(z.im)) ? "nan" : (isinf(z.re) || isinf(z.im)) ? "inf" : (z.re == 0 && z.im == 0) ? "zero" : "nonzero"; char key[600];
              snprintf(key, sizeof key, "\"fn\":\"Crystal_F_H_StructureFactor\",\"argc\":\"%s\",\"kind\":\"complex\",\"ret\":\"%s\",\"slot\":\"%s\",\"code\":%d,\"msg\":%d,\"over\":%d,\"same\":%d", argc2, rc, e ? "err" : "empty", e ? (int)e->code : -1, e ? (e->message && e->message[0]) : 0, over > 0, biteq(z.re, z2.re) && biteq(z.im, z2.im));
              fold(key, wbuf); xrl_clear_error(&e); }
          }
        }
      }
    }
  }
  Crystal_Free(si); Crystal_Free(bad1); Crystal_Free(bad2); Crystal_Free(bad3); Crystal_Free(quartz);
  /* atomic factors */
  for (int Z = -3; Z <= 125; Z += (thorough ? 1 : 2)) for (int a = 0; a < NE; a++) for (int b = 0; b < NE; b += 2) for (int di = 0; di < 3; di++) {
    double dw = di == 0 ? 1.0 : di == 1 ? 0.0 : -0.5; double f0 = 7, f1 = 7, f2 = 7, g0 = 7, g1 = 7, g2 = 7;
    xrl_error *e = NULL; long o0 = W_over; int rv = Atomic_Factors(Z, ELIST[a], ELIST[b], dw, &f0, &f1, &f2, &e); long over = W_over - o0; int rv2 = Atomic_Factors(Z, ELIST[a], ELIST[b], dw, &g0, &g1, &g2, NULL);
    char argc[128]; snprintf(argc, sizeof argc, "%s,%s,%s,%s,", icls(Z), dcls(ELIST[a]), dcls(ELIST[b]), dcls(dw));
    int fin = isfinite(f0) && isfinite(f1) && isfinite(f2); int zeroed = (f0 == 0 && f1 == 0 && f2 == 0);
    char key[512]; snprintf(key, sizeof key, "\"fn\":\"Atomic_Factors\",\"argc\":\"%s\",\"kind\":\"status\",\"ret\":\"%s\",\"slot\":\"%s\",\"code\":%d,\"msg\":%d,\"over\":%d,\"same\":%d",
      argc, rv ? (fin ? "ok-finite" : "ok-nonfinite") : (zeroed ? "fail-zeroed" : "fail-dirty"), e ? "err" : "empty", e ? (int)e->code : -1, e ? (e->message && e->message[0]) : 0, over > 0, rv == rv2 && biteq(f0, g0) && biteq(f1, g1) && biteq(f2, g2));
    char *w = wbuf; w += sprintf(w, "{\"i\":[%d],\"d\":[", Z); jd_s(w, ELIST[a]); w += strlen(w); *w++ = ','; jd_s(w, ELIST[b]); w += strlen(w); *w++ = ','; jd_s(w, dw); w += strlen(w); sprintf(w, "]}");
    fold(key, wbuf); xrl_clear_error(&e);
  }
  /* crystal collections: failing and succeeding constructors */
  for (int n = -3; n <= 3; n++) { xrl_error *e = NULL; long o0 = W_over; Crystal_Array *a = Crystal_ArrayInit(n, &e); long over = W_over - o0; Crystal_Array *a2 = Crystal_ArrayInit(n, NULL);
    wit_i(n, 0, 0); observe_ptr("Crystal_ArrayInit", icls(n), a != NULL, e, a2 != NULL, over, wbuf); Crystal_ArrayFree(a); Crystal_ArrayFree(a2); xrl_clear_error(&e); }
  { const char *names[] = {NULL, "", "Si", "si", "Si ", "NoSuchCrystal", "Diamond"};
    Crystal_Array *ua = Crystal_ArrayInit(0, NULL);
    for (int i = 0; i < 7; i++) for (int u = 0; u < 2; u++) { xrl_error *e = NULL; long o0 = W_over; Crystal_Struct *c = Crystal_GetCrystal(names[i], u ? ua : NULL, &e); long over = W_over - o0; Crystal_Struct *c2 = Crystal_GetCrystal(names[i], u ? ua : NULL, NULL);
      wit_s(names[i]); observe_ptr("Crystal_GetCrystal", u ? "user" : "builtin", c != NULL, e, c2 != NULL, over, wbuf); Crystal_Free(c); Crystal_Free(c2); xrl_clear_error(&e); }
    { xrl_error *e = NULL; long o0 = W_over; int rv = Crystal_AddCrystal(NULL, ua, &e); long over = W_over - o0; int rv2 = Crystal_AddCrystal(NULL, ua, NULL); wit_s("NULL crystal"); observe_int("Crystal_AddCrystal", "null", rv, e, rv2, over, wbuf); xrl_clear_error(&e); }
    { const char *files[] = {NULL, "", "/nonexistent/file.dat", "/"};
      for (int i = 0; i < 4; i++) { xrl_error *e = NULL; long o0 = W_over; int rv = Crystal_ReadFile(files[i], ua, &e); long over = W_over - o0; int rv2 = Crystal_ReadFile(files[i], ua, NULL); wit_s(files[i]); observe_int("Crystal_ReadFile", scls(files[i]), rv, e, rv2, over, wbuf); xrl_clear_error(&e); } }
    Crystal_ArrayFree(ua); }
  /* functions without an error slot: finite results on finite arguments */
  { double vs[] = {0.0, -1.5, 2.0, 1e150, -1e-300};
    for (int i = 0; i < 5; i++) for (int j = 0; j < 5; j++) { xrlComplex x = {vs[i], vs[j]}, y = {vs[j], vs[(i + 2) % 5]}; double a = c_abs(x); xrlComplex m = c_mul(x, y);
      char key[300]; snprintf(key, sizeof key, "\"fn\":\"c_abs\",\"argc\":\"%s,%s,\",\"kind\":\"plain\",\"ret\":\"%s\",\"slot\":\"none\",\"code\":-1,\"msg\":0,\"over\":0,\"same\":1", dcls(vs[i]), dcls(vs[j]), rcls(a)); snprintf(wbuf, sizeof wbuf, "{\"i\":[%d,%d]}", i, j); fold(key, wbuf);
      snprintf(key, sizeof key, "\"fn\":\"c_mul\",\"argc\":\"%s,%s,\",\"kind\":\"plain\",\"ret\":\"%s\",\"slot\":\"none\",\"code\":-1,\"msg\":0,\"over\":0,\"same\":1", dcls(vs[i]), dcls(vs[j]), (isnan(m.re) || isnan(m.im)) ? "nan" : (isinf(m.re) || isinf(m.im)) ? "inf" : "finite"); fold(key, wbuf); } }
}

/* c03 <part> <nparts> <quick|thorough> : part p drives the functions with index == p (mod nparts); part 0 also drives the hand-written ones */
int cmd_c03(int argc, char **argv) {
  int part = argc > 0 ? atoi(argv[0]) : 0, nparts = argc > 1 ? atoi(argv[1]) : 1, thorough = argc > 2 && strcmp(argv[2], "thorough") == 0;
  int only_kissel = argc > 3 && strcmp(argv[3], "kissel") == 0;   /* data configuration B: the entry points fed by the Kissel tables */
  build_lists(thorough);
  int idx = 0;
  for (ApiFn *f = API_TABLE; f->name; f++) {
    if (only_kissel && !(strstr(f->name, "Kissel") || strstr(f->name, "Photo_Partial") || strstr(f->name, "Photo_Total") || strstr(f->name, "ElectronConfig"))) continue;
    if (idx++ % nparts == part) { drive_numeric(f, thorough); fprintf(OUT, "{\"k\":\"drove\",\"fn\":\"%s\"}\n", f->name); }
  }
  if (part == 0 && !only_kissel) { drive_other(thorough); for (const char **p = API_OTHER; *p; p++) fprintf(OUT, "{\"k\":\"other\",\"fn\":\"%s\"}\n", *p); }
  dump_classes();
  return 0;
}
