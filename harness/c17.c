/* C17: concurrent queries.  A pool of seeded queries (the C16 generator: numeric entry points incl. failing calls that allocate
 * error objects, compound functions that parse and free, catalogue and crystal lookups that copy) is first answered serially;
 * then T threads each execute a seeded sequence over the pool, every thread with its own error slots.  Results are stored per
 * thread and printed after the join: thread, per-thread sequence number, query, result, serial reference.
 * Built with -fsanitize=thread: a ThreadSanitizer report is the race observation (written to the log the check reads).
 * "control" mode: one thread inserts into the built-in crystal collection while the others look crystals up -- the documented
 * exception -- and MUST be reported by the race detector (positive control). */
#include "common.h"
#include "api.h"
#include <pthread.h>
#include <unistd.h>
#include <sys/wait.h>
#define MAXT 16
static Query *pool; static Result *ref; static int npool_q, ncalls, control;
typedef struct { int t; uint64_t seed; int *idx; Result *res; } Work;
/* positive control of the instrument: in "control" mode every thread also increments this plain variable without synchronisation; the race detector
 * MUST report it (a report that does not depend on any property of the library, so that a library which closes its documented exception with a lock
 * does not break the control) */
long ctl_probe;
static void *worker(void *arg) {
  Work *w = arg; uint64_t s = w->seed;
  for (int i = 0; i < ncalls; i++) {
    if (control) ctl_probe++;
    s = s * 6364136223846793005ULL + 1442695040888963407ULL; int k = (int)((s >> 33) % (uint64_t)npool_q);
    w->idx[i] = k;
    if (control && w->t == 0) {            /* the documented exception: modification of a shared collection without a lock */
      Crystal_Struct *c = Crystal_GetCrystal("Si", NULL, NULL); char nm[24]; snprintf(nm, sizeof nm, "ctl%d", i); free(c->name); c->name = strdup(nm); Crystal_AddCrystal(c, NULL, NULL); Crystal_Free(c);
      w->res[i] = ref[k]; continue;
    }
    if (control) { Crystal_Struct *c = Crystal_GetCrystal("Si", NULL, NULL); Crystal_Free(c); }
    w->res[i] = run_query(&pool[k]);
  }
  return NULL;
}
/* failing queries only: most of their error messages are formatted at run time (name or index embedded), the rest are literals */
static void failing_query(Query *q) {
  static const char *BAD[] = {"nope", "Unobtainium", "H2O", "Xx2O", "H2O)", "h2o", "Fe 2", "Water", "si", "Rf"};
  memset(q, 0, sizeof *q); int r = rndint(0, 9);
  if (r < 3) { q->kind = 2; snprintf(q->s, sizeof q->s, "%s", BAD[rndint(0, 9)]); }
  else if (r < 5) { q->kind = 3; q->ia[0] = (int[]){-1, -7, 180, 181, 500, 99999}[rndint(0, 5)]; }
  else if (r < 6) { q->kind = 4; q->ia[0] = (int[]){-1, 10, 11, 99, 123456}[rndint(0, 4)]; }
  else if (r < 8) { q->kind = 7; snprintf(q->s, sizeof q->s, "%s", BAD[rndint(0, 9)]); }
  else if (r < 9) { q->kind = 1; snprintf(q->s, sizeof q->s, "%s", BAD[rndint(3, 6)]); }
  else { q->kind = rndint(5, 6); q->ia[0] = (int[]){0, -3, 120, 4000}[rndint(0, 3)]; snprintf(q->s, sizeof q->s, "%s", BAD[rndint(0, 1)]); }
}
/* c17 <threads> <calls per thread> <pool size> [control | errors | files | groups | family <first fn> <step>] */
int cmd_c17(int argc, char **argv) {
  int T = argc > 0 ? atoi(argv[0]) : 8; ncalls = argc > 1 ? atoi(argv[1]) : 1000; npool_q = argc > 2 ? atoi(argv[2]) : 400; control = argc > 3 && !strcmp(argv[3], "control");
  if (T > MAXT) T = MAXT;
  pool = calloc(npool_q, sizeof *pool); ref = calloc(npool_q, sizeof *ref);
  int errors_only = argc > 3 && !strcmp(argv[3], "errors"), family = argc > 5 && !strcmp(argv[3], "family"), files_only = argc > 3 && !strcmp(argv[3], "files");
  int nf = 0; while (API_TABLE[nf].name) nf++;
  int f_first = family ? atoi(argv[4]) : 0, f_step = family ? atoi(argv[5]) : nf + 1; long total = 0;
  /* "family" mode: one phase per API function (first, first+step, ...): every thread hammers the same function with a small pool of argument tuples,
   * half of the macro arguments taken from the two ends of the function's macro range (the grouped lines and other special cases live there) */
  /* "groups" mode: one phase per (line function, grouped-line macro 0..mhi): every thread is inside the same function with the same macro - the
   * composite code paths (weighted means, sums over member lines) - and only the element differs between the calls */
  int groups = argc > 3 && !strcmp(argv[3], "groups"); static int ph_fn[4096], ph_m[4096]; int nph = 0;
  if (groups) { for (int f = 0; f < nf; f++) { const ApiFn *a = &API_TABLE[f]; if ((a->sig != SIG_II && a->sig != SIG_IID) || a->mhi < 0 || a->mlo > -100 || strstr(a->name, "Kissel")) continue; for (int m = 0; m <= a->mhi && nph < 4096; m++) { ph_fn[nph] = f; ph_m[nph++] = m; } } }
  else for (int fsel = f_first; fsel < (family ? nf : 1) && nph < 4096; fsel += f_step) { ph_fn[nph] = fsel; ph_m[nph++] = 0; }
  for (int ph = 0; ph < nph; ph++) { int fsel = ph_fn[ph];
  for (int i = 0; i < npool_q; i++) {
    if (groups) { static const int ZG[] = {29, 50, 82, 92, 26, 47, 79, 64}; Query *q = &pool[i]; memset(q, 0, sizeof *q); q->kind = 0; q->fn = fsel; q->ia[0] = ZG[i % 8]; q->ia[1] = ph_m[ph]; q->da[0] = i < 8 ? 100.0 : 20.0; continue; }
    if (errors_only) failing_query(&pool[i]); else random_query(&pool[i]);
    if (files_only) { memset(&pool[i], 0, sizeof pool[i]); pool[i].kind = 14; pool[i].ia[0] = i; }      /* every thread reads the same crystal file into an array of its own */
    if (family) { Query *q = &pool[i]; const ApiFn *f = &API_TABLE[fsel]; int r = rndint(0, 2); q->kind = 0; q->fn = fsel; q->ia[0] = rndint(0, 11) ? rndint(1, 98) : rndint(-1, 121);
      q->ia[1] = r == 0 ? rndint(f->mlo, f->mhi) : r == 1 ? f->mhi - rndint(0, 7) : f->mlo + rndint(0, 7); }
  }
  /* the serial reference is computed in a forked child: the threads below start on a library that has not answered a single call in this process */
  { int fd[2]; if (pipe(fd)) return 2; fflush(OUT); pid_t p = fork();
    if (p == 0) { for (int i = 0; i < npool_q; i++) { Result r = run_query(&pool[i]); if (write(fd[1], &r, sizeof r) != (ssize_t)sizeof r) _exit(1); } _exit(0); }
    close(fd[1]); for (int i = 0; i < npool_q; i++) { ref[i].ok = -8; ref[i].code = -8; ref[i].h = 0; if (read(fd[0], &ref[i], sizeof(Result)) != (ssize_t)sizeof(Result)) ref[i].ok = -8; }
    close(fd[0]); int st; waitpid(p, &st, 0); }
  pthread_t th[MAXT]; Work w[MAXT];
  for (int t = 0; t < T; t++) { w[t].t = t; w[t].seed = rnd64(); w[t].idx = calloc(ncalls, sizeof(int)); w[t].res = calloc(ncalls, sizeof(Result)); pthread_create(&th[t], NULL, worker, &w[t]); }
  for (int t = 0; t < T; t++) pthread_join(th[t], NULL);
  total += (long)T * ncalls;
  /* events are folded per (thread, query): count, and whether every execution agreed with the serial reference bit for bit */
  for (int t = 0; t < T; t++) {
    int *cnt = calloc(npool_q, sizeof(int)), *bad = calloc(npool_q, sizeof(int)); Result *first = calloc(npool_q, sizeof(Result));
    for (int i = 0; i < ncalls; i++) { int k = w[t].idx[i]; Result r = w[t].res[i]; if (!cnt[k]) first[k] = r; cnt[k]++; if (r.ok != ref[k].ok || r.code != ref[k].code || r.h != ref[k].h) { bad[k]++; first[k] = r; } }
    for (int k = 0; k < npool_q; k++) if (cnt[k]) {
      const Query *q = &pool[k];
      fprintf(OUT, "{\"k\":\"thr\",\"t\":%d,\"q\":%d,\"n\":%d,\"bad\":%d,\"kind\":\"%s\",\"fn\":\"%s\",\"ia\":[%d,%d,%d],\"s\":", t, k, cnt[k], bad[k], QN[q->kind], q->kind == 0 ? API_TABLE[q->fn].name : QN[q->kind], q->ia[0], q->ia[1], q->ia[2]); jstr(q->s);
      fprintf(OUT, ",\"res\":[%d,%d,%d,%d],\"ref\":[%d,%d,%d,%d]}\n", first[k].ok, first[k].code, (int32_t)(first[k].h >> 32), (int32_t)(first[k].h & 0xffffffffu), ref[k].ok, ref[k].code, (int32_t)(ref[k].h >> 32), (int32_t)(ref[k].h & 0xffffffffu));
    }
    free(cnt); free(bad); free(first); free(w[t].idx); free(w[t].res);
  }
  }
  fprintf(OUT, "{\"k\":\"sum\",\"threads\":%d,\"calls\":%ld,\"pool\":%d,\"control\":%d}\n", T, total, npool_q, control);
  return 0;
}
