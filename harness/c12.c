/* C12: closed-form scattering functions.  One event per energy with the grids of values the library returns:
 * theta grid (incl. 0, pi/2, pi), mirrored and 2pi-shifted angles, 8 azimuths, and the 48 quadrature angles
 * theta_i = acos(1 - (e^{w_i} - 1)/a), w_i = W (1 + x_i)/2, W = ln(1 + 2a), a = E/mc2 (x_i: Gauss-Legendre nodes read from a file). */
#include "common.h"
static void arr(const char *name, int n, const double *v) { fprintf(OUT, ",\"%s\":[", name); for (int i = 0; i < n; i++) { if (i) fputc(',', OUT); jd(v[i]); } fputc(']', OUT); }
int cmd_c12(int argc, char **argv) {
  if (argc < 2) return 2;
  int ne = atoi(argv[1]); double nodes[48];
  FILE *f = fopen(argv[0], "r"); if (!f) return 2; for (int i = 0; i < 48; i++) if (fscanf(f, "%lf", &nodes[i]) != 1) return 2; fclose(f);
  double th[25]; for (int i = 0; i < 25; i++) th[i] = PI * i / 24.0; th[12] = PI / 2; th[24] = PI;
  /* the forward and backward cones, where series expansions and cancellation live (ascending order is kept) */
  th[1] = 1e-3; th[2] = 0.02; th[3] = 0.049; th[4] = 0.3; th[21] = PI - 0.3; th[22] = PI - 0.03; th[23] = PI - 1e-3;
  double ph[8]; for (int j = 0; j < 8; j++) ph[j] = PI * j / 4.0;
  /* non-positive energies: every function of E must fail */
  { double bad[] = {0.0, -1.0, -1e-300}; double bth[] = {1.0, 0.0, PI, 4.0}; for (int b = 0; b < 12; b++) { double E = bad[b % 3], t = bth[b / 3]; xrl_error *e[6] = {0}; double v[6];
      v[0] = CS_KN(E, &e[0]); v[1] = DCS_KN(E, t, &e[1]); v[2] = ComptonEnergy(E, t, &e[2]); v[3] = DCSP_KN(E, t, 0.5, &e[3]); v[4] = MomentTransf(E, t, &e[4]); v[5] = DCS_Thoms(t, &e[5]);
      fputs("{\"k\":\"cfbad\",\"E\":", OUT); jd(E); fputs(",\"t\":", OUT); jd(t); fputs(",\"err\":[", OUT); for (int i = 0; i < 6; i++) { fprintf(OUT, "%s%d", i ? "," : "", e[i] != NULL); xrl_clear_error(&e[i]); } fputc(']', OUT); arr("v", 6, v); fputs("}\n", OUT); } }
  for (int k = 0; k < ne; k++) {
    double E = pow(10.0, -6.0 + 15.0 * k / (ne - 1));
    double a = E / MEC2, W = log1p(2 * a);
    double Th[25], KN[25], CE[25], MT[25], KNm[25], KNp[25], Thm[25], Thp[25], CEm[25], CEp[25], ThP[25 * 8], KNP[25 * 8], KNPm[25 * 8], gth[48], gKN[48];
    for (int i = 0; i < 25; i++) {
      Th[i] = DCS_Thoms(th[i], NULL); KN[i] = DCS_KN(E, th[i], NULL); CE[i] = ComptonEnergy(E, th[i], NULL); MT[i] = MomentTransf(E, th[i], NULL);
      KNm[i] = DCS_KN(E, -th[i], NULL); KNp[i] = DCS_KN(E, th[i] + 2 * PI, NULL); Thm[i] = DCS_Thoms(-th[i], NULL); Thp[i] = DCS_Thoms(th[i] + 2 * PI, NULL);
      CEm[i] = ComptonEnergy(E, -th[i], NULL); CEp[i] = ComptonEnergy(E, th[i] + 2 * PI, NULL);
      for (int j = 0; j < 8; j++) { ThP[i * 8 + j] = DCSP_Thoms(th[i], ph[j], NULL); KNP[i * 8 + j] = DCSP_KN(E, th[i], ph[j], NULL); KNPm[i * 8 + j] = DCSP_KN(E, -th[i], -ph[j] + 2 * PI, NULL); }
    }
    for (int i = 0; i < 48; i++) { double w = 0.5 * W * (1.0 + nodes[i]); double c = 1.0 - expm1(w) / a; if (c < -1.0) c = -1.0; if (c > 1.0) c = 1.0; gth[i] = acos(c); gKN[i] = DCS_KN(E, gth[i], NULL); }
    xrl_error *e = NULL; double cs = CS_KN(E, &e);
    fputs("{\"k\":\"cf\",\"E\":", OUT); jd(E); fprintf(OUT, ",\"CS_KN\":[%d,", e == NULL); jd(cs); fputc(']', OUT); xrl_clear_error(&e);
    arr("th", 25, th); arr("ph", 8, ph); arr("Th", 25, Th); arr("KN", 25, KN); arr("CE", 25, CE); arr("MT", 25, MT); arr("KNm", 25, KNm); arr("KNp", 25, KNp); arr("Thm", 25, Thm); arr("Thp", 25, Thp);
    arr("CEm", 25, CEm); arr("CEp", 25, CEp); arr("ThP", 200, ThP); arr("KNP", 200, KNP); arr("KNPm", 200, KNPm); arr("gth", 48, gth); arr("gKN", 48, gKN);
    /* angles of many turns: the library's trigonometry must stay exact there too (no home-made argument reduction) */
    { static const double hth[6] = {1e3, 1e6, 1e9, 1e12, 1e15, -1e15}; double hTh[6], hKN[6], hCE[6], hKNP[6];
      for (int i = 0; i < 6; i++) { hTh[i] = DCS_Thoms(hth[i], NULL); hKN[i] = DCS_KN(E, hth[i], NULL); hCE[i] = ComptonEnergy(E, hth[i], NULL); hKNP[i] = DCSP_KN(E, hth[i], ph[1], NULL); }
      arr("hth", 6, hth); arr("hTh", 6, hTh); arr("hKN", 6, hKN); arr("hCE", 6, hCE); arr("hKNP", 6, hKNP); }
    fputs("}\n", OUT);
  }
  return 0;
}
