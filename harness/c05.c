/* C05: aggregates and their parts as returned by the library for the same arguments.
 *  "aggE": per (Z, E): totals, barn twins, Kissel totals, all sub-shell partial cross sections and occupancies.
 *  "aggA": per (Z, E, theta, phi): differential cross sections (polarised and not), barn twins, and their factors. */
#include "common.h"
#include "xrayglob.h"
#include "api.h"
static int bitsame(double a, double b) { return memcmp(&a, &b, 8) == 0; }
/* third element: did the same call without an error slot return the same bits (on failure: the 0 sentinel, not a partial sum) */
static void r1(const char *name, double v, xrl_error **e, int *firstp, double vnull) {
  fprintf(OUT, "%s\"%s\":[%d,", *firstp ? "" : ",", name, *e == NULL); jd(v); fprintf(OUT, ",%d]", bitsame(v, vnull)); *firstp = 0; xrl_clear_error(e);
}
#define R(name, call) do { xrl_error *e_ = NULL; xrl_error **E_ = &e_; double v_ = call; E_ = NULL; double w_ = call; r1(name, v_, &e_, &first, w_); } while (0)
static void aggE(int Z, double E) {
  int first = 1; xrl_error *e = NULL; (void)e;
  fprintf(OUT, "{\"k\":\"aggE\",\"Z\":%d,\"E\":", Z); jd(E); fputs(",\"r\":{", OUT);
  R("AtomicWeight", AtomicWeight(Z, E_));
  R("CS_Total", CS_Total(Z, E, E_)); R("CS_Photo", CS_Photo(Z, E, E_)); R("CS_Rayl", CS_Rayl(Z, E, E_)); R("CS_Compt", CS_Compt(Z, E, E_));
  R("CSb_Total", CSb_Total(Z, E, E_)); R("CSb_Photo", CSb_Photo(Z, E, E_)); R("CSb_Rayl", CSb_Rayl(Z, E, E_)); R("CSb_Compt", CSb_Compt(Z, E, E_));
  R("CS_Total_Kissel", CS_Total_Kissel(Z, E, E_)); R("CSb_Total_Kissel", CSb_Total_Kissel(Z, E, E_));
  R("CS_Photo_Total", CS_Photo_Total(Z, E, E_)); R("CSb_Photo_Total", CSb_Photo_Total(Z, E, E_));
  R("CS_Energy", CS_Energy(Z, E, E_));
  fputs("},\"occ\":[", OUT);
  for (int s = 0; s < 31; s++) { xrl_error *e2 = NULL; double v = ElectronConfig(Z, s, &e2); fprintf(OUT, "%s[%d,", s ? "," : "", e2 == NULL); jd(v); fputc(']', OUT); xrl_clear_error(&e2); }
  fputs("],\"pb\":[", OUT);
  for (int s = 0; s < 31; s++) { xrl_error *e2 = NULL; double v = CSb_Photo_Partial(Z, s, E, &e2); fprintf(OUT, "%s[%d,", s ? "," : "", e2 == NULL); jd(v); fputc(']', OUT); xrl_clear_error(&e2); }
  fputs("],\"p\":[", OUT);
  for (int s = 0; s < 31; s++) { xrl_error *e2 = NULL; double v = CS_Photo_Partial(Z, s, E, &e2); fprintf(OUT, "%s[%d,", s ? "," : "", e2 == NULL); jd(v); fputc(']', OUT); xrl_clear_error(&e2); }
  /* every other barn/atom function of the API with arguments (Z, shell or line, E) - found by name in the table generated from the headers -
   * next to its cm2/g twin: fluorescence shells and lines (jump-ratio and Kissel variants) */
  fputs("],\"tw\":[", OUT);
  { static const int SH[] = {-1, 0, 1, 2, 3, 4, 6, 8, 9, 30}; static const int LN[] = {KL3_LINE, KL2_LINE, KM3_LINE, L1M3_LINE, L2M4_LINE, L3M5_LINE, L3N5_LINE, M5N7_LINE, M4N6_LINE, KA_LINE, KB_LINE, LA_LINE, LB_LINE, 0, -2000};
    int firstt = 1;
    for (ApiFn *f = API_TABLE; f->name; f++) {
      if (f->sig != SIG_IID || strncmp(f->name, "CSb_", 4) || !strcmp(f->name, "CSb_Photo_Partial")) continue;
      char twin[96]; snprintf(twin, sizeof twin, "CS_%s", f->name + 4); ApiFn *g = NULL; for (ApiFn *t = API_TABLE; t->name; t++) if (!strcmp(t->name, twin) && t->sig == SIG_IID) g = t;
      if (!g) continue;
      int isline = f->mlo < -100; int nm = isline ? (int)(sizeof LN / sizeof *LN) : (int)(sizeof SH / sizeof *SH);
      for (int k = 0; k < nm; k++) { int ia[2] = {Z, isline ? LN[k] : SH[k]}; double da[1] = {E}; xrl_error *eb = NULL, *ec = NULL;
        double b = api_call(f, ia, da, NULL, &eb), c = api_call(g, ia, da, NULL, &ec);
        fprintf(OUT, "%s{\"n\":\"%s\",\"m\":%d,\"b\":[%d,", firstt ? "" : ",", f->name, ia[1], eb == NULL); jd(b); fprintf(OUT, "],\"c\":[%d,", ec == NULL); jd(c); fputs("]}", OUT); firstt = 0;
        xrl_clear_error(&eb); xrl_clear_error(&ec); }
    } }
  fputs("]}\n", OUT);
}
static void aggA(int Z, double E, double th, double ph) {
  int first = 1;
  fprintf(OUT, "{\"k\":\"aggA\",\"Z\":%d,\"E\":", Z); jd(E); fputs(",\"th\":", OUT); jd(th); fputs(",\"ph\":", OUT); jd(ph); fputs(",\"r\":{", OUT);
  double q = MomentTransf(E, th, NULL);
  R("AtomicWeight", AtomicWeight(Z, E_)); R("MomentTransf", MomentTransf(E, th, E_)); R("FF_Rayl", FF_Rayl(Z, q, E_)); R("SF_Compt", SF_Compt(Z, q, E_));
  R("DCS_Thoms", DCS_Thoms(th, E_)); R("DCS_KN", DCS_KN(E, th, E_)); R("DCSP_Thoms", DCSP_Thoms(th, ph, E_)); R("DCSP_KN", DCSP_KN(E, th, ph, E_));
  R("DCS_Rayl", DCS_Rayl(Z, E, th, E_)); R("DCS_Compt", DCS_Compt(Z, E, th, E_)); R("DCSb_Rayl", DCSb_Rayl(Z, E, th, E_)); R("DCSb_Compt", DCSb_Compt(Z, E, th, E_));
  R("DCSP_Rayl", DCSP_Rayl(Z, E, th, ph, E_)); R("DCSP_Compt", DCSP_Compt(Z, E, th, ph, E_)); R("DCSPb_Rayl", DCSPb_Rayl(Z, E, th, ph, E_)); R("DCSPb_Compt", DCSPb_Compt(Z, E, th, ph, E_));
  fputs("}}\n", OUT);
}
/* c05 <zlo> <zhi> <quick|thorough> */
int cmd_c05(int argc, char **argv) {
  int zlo = argc > 0 ? atoi(argv[0]) : 0, zhi = argc > 1 ? atoi(argv[1]) : 121; int thorough = argc > 2 && !strcmp(argv[2], "thorough");
  static const double TH[] = {0.0, 1e-6, 0.2617993877991494, 0.5235987755982988, 0.7853981633974483, 1.0471975511965976, 1.5707963267948966, 2.0943951023931953, 2.356194490192345, 2.6179938779914944, 3.141592653589793, -0.5, 7.0, 4.0, 4.71238898038469, 6.283185307179586};
  static const double PH[] = {0.0, 0.7853981633974483, 1.5707963267948966, 3.141592653589793, -1.0, 6.5, 4.0};
  /* quick tier: the special angles (0, a micro-radian, pi/2, pi, negative, beyond 2 pi, the third quadrant, 2 pi: one per region of the period) rather than an even subsample */
  static const int QTH[] = {0, 1, 4, 6, 10, 11, 12, 3, 13, 15}; static const int QPH[] = {0, 1, 4, 5, 6};
  uint64_t seed0 = RNG;
  for (int Z = zlo; Z <= zhi; Z++) {
    RNG = seed0 * 7919ULL + (uint64_t)Z;
    double el[600]; int ne = 0;
    el[ne++] = 0.0; el[ne++] = -1.0;
    int in = Z >= 1 && Z <= ZMAX;
    if (in && NE_Photo[Z] > 0) {
      int n = NE_Photo[Z]; double lo = exp(E_Photo_arr[Z][0]) / 1000.0, hi = exp(E_Photo_arr[Z][n - 1]) / 1000.0;
      el[ne++] = lo * (1 - 1e-6); el[ne++] = lo; el[ne++] = lo * (1 + 1e-6); el[ne++] = hi * (1 - 1e-6); el[ne++] = hi * (1 + 1e-3);
      int stepk = thorough ? 1 : (n / 6 > 0 ? n / 6 : 1);
      for (int k = rndint(0, stepk - 1); k < n && ne < 500; k += stepk) el[ne++] = exp(E_Photo_arr[Z][k]) / 1000.0 * (1 + 1e-7);
      for (int s = 0; s < (thorough ? 28 : 9) && ne < 590; s++) { double ed = EdgeEnergy(Z, s, NULL); if (ed > 0) { el[ne++] = ed * (1 - 1e-9); el[ne++] = ed * (1 + 1e-9); if (thorough) { el[ne++] = ed * (1 - 1e-3); el[ne++] = ed * (1 + 1e-3); } } }
    } else { el[ne++] = 1.0; el[ne++] = 10.0; el[ne++] = 100.0; }
    /* energies where the three component tables have different ranges */
    if (in && NE_Rayl[Z] > 0) { el[ne++] = exp(E_Rayl_arr[Z][0]) / 1000.0 * (1 - 1e-6); el[ne++] = exp(E_Rayl_arr[Z][NE_Rayl[Z] - 1]) / 1000.0 * (1 + 1e-6); }
    if (in && NE_Compt[Z] > 0) { el[ne++] = exp(E_Compt_arr[Z][0]) / 1000.0 * (1 - 1e-6); el[ne++] = exp(E_Compt_arr[Z][NE_Compt[Z] - 1]) / 1000.0 * (1 + 1e-6); }
    for (int i = 0; i < ne; i++) aggE(Z, el[i]);
    int nth = thorough ? 16 : 10, nph = thorough ? 7 : 5; int estep = thorough ? 3 : (ne / 7 > 0 ? ne / 7 : 1);
    for (int i = 0; i < ne; i += estep) for (int a = 0; a < nth; a++) for (int b = 0; b < nph; b++)
      aggA(Z, el[i], TH[thorough ? a : QTH[a]], PH[thorough ? b : QPH[b]]);
  }
  return 0;
}
