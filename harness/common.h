/* Shared helpers of the conformance harness: ndjson emission.  Doubles are [hi,lo] (signed 32-bit halves of
 * the IEEE bit pattern), never JSON floats.  No property logic lives here. */
#ifndef XRL_VERIF_COMMON_H
#define XRL_VERIF_COMMON_H
#include <stdio.h>
#include <stdlib.h>
#include <string.h>
#include <stdint.h>
#include <math.h>
#include "xraylib.h"
#include "xraylib-error-private.h"

extern FILE *OUT;
static inline void jd(double x) { uint64_t b; memcpy(&b, &x, 8); fprintf(OUT, "[%d,%d]", (int32_t)(b >> 32), (int32_t)(b & 0xffffffffu)); }
static inline void jstr(const char *s) {
  if (!s) { fputs("null", OUT); return; }
  fputc('"', OUT);
  for (; *s; s++) {
    unsigned char c = (unsigned char)*s;
    if (c == '"' || c == '\\') { fputc('\\', OUT); fputc(c, OUT); }
    else if (c < 0x20 || c >= 0x7f) fprintf(OUT, "\\u%04x", c);
    else fputc(c, OUT);
  }
  fputc('"', OUT);
}
/* deterministic PRNG (splitmix64) so that VERIF_SEED reproduces every choice */
extern uint64_t RNG;
static inline uint64_t rnd64(void) { uint64_t z = (RNG += 0x9e3779b97f4a7c15ULL); z = (z ^ (z >> 30)) * 0xbf58476d1ce4e5b9ULL; z = (z ^ (z >> 27)) * 0x94d049bb133111ebULL; return z ^ (z >> 31); }
static inline double rnd01(void) { return (rnd64() >> 11) * (1.0 / 9007199254740992.0); }
static inline int rndint(int lo, int hi) { return lo + (int)(rnd64() % (uint64_t)(hi - lo + 1)); }

int cmd_c01(int argc, char **argv);
int cmd_c11(int argc, char **argv);
int cmd_c10(int argc, char **argv);
int cmd_c15(int argc, char **argv);
int cmd_c14(int argc, char **argv);
int cmd_c03(int argc, char **argv);
int cmd_c03e(int argc, char **argv);
int cmd_c04(int argc, char **argv);
int cmd_c04f(int argc, char **argv);
int cmd_c02(int argc, char **argv);
int cmd_c05(int argc, char **argv);
int cmd_c12(int argc, char **argv);
int cmd_c09(int argc, char **argv);
int cmd_c13(int argc, char **argv);
int cmd_c07(int argc, char **argv);
int cmd_c06(int argc, char **argv);
int cmd_c08(int argc, char **argv);
int cmd_c16(int argc, char **argv);
int cmd_c16s(int argc, char **argv);
int cmd_c17(int argc, char **argv);
int cmd_c19(int argc, char **argv);
typedef struct { int kind; int fn; int ia[3]; double da[3]; char s[64]; } Query;   /* kind 0: numeric API_TABLE[fn]; 1..: see run_query in c16.c */
typedef struct { int ok; int code; uint64_t h; } Result;
Result run_query(const Query *q);
void random_query(Query *q);
extern const char *QN[];
void j_crystal(Crystal_Struct *c);
typedef double (*xrl_f2)(int, int, xrl_error **);
void emit_row(const char *key, xrl_f2 f, int Z, int lo, int hi);
#endif
