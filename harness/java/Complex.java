package org.apache.commons.math3.complex;
/** Minimal stand-in for the only external class java/Xraylib.java uses (commons-math3 is not available offline). */
public class Complex {
  private final double re, im;
  public Complex(double re, double im) { this.re = re; this.im = im; }
  public Complex(double re) { this(re, 0); }
  public double getReal() { return re; }
  public double getImaginary() { return im; }
  public double abs() { return Math.hypot(re, im); }
  public Complex multiply(Complex o) { return new Complex(re * o.re - im * o.im, re * o.im + im * o.re); }
  public Complex multiply(double f) { return new Complex(re * f, im * f); }
  public Complex add(Complex o) { return new Complex(re + o.re, im + o.im); }
  public Complex subtract(Complex o) { return new Complex(re - o.re, im - o.im); }
}
