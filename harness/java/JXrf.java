import java.io.*;
import java.util.*;
import java.util.regex.*;
import com.github.tschoonj.xraylib.*;

/** C19, second binding: the jump-ratio XRF specification (XrlXRFJump, property C09) is also validated against the JAVA implementation.
 *  Reads the trace that `xrl_drive c09` wrote for the C library, takes from each event only the element and the energies, adds the Java
 *  implementation's own edge energies (bit-exact), evaluates the same primitives and results with the Java methods and writes events of
 *  the same shape.  TLC then judges them with the same module that judges the C events: where C conforms and Java does not, the two
 *  implementations differ - also at arguments where a pairwise comparison has to allow for round-off (exactly at an edge). */
public class JXrf {
  interface F1 { double f(int a) throws Exception; }
  interface F2 { double f(int a, int b) throws Exception; }
  interface F3 { double f(int a, int b, double c) throws Exception; }
  static String bits(double x) { long b = Double.doubleToRawLongBits(x); return "[" + (int) (b >> 32) + "," + (int) b + "]"; }
  static String pv(F1 f, int a) { try { double v = f.f(a); return "[1," + bits(v) + "]"; } catch (Exception e) { return "[0," + bits(0.0) + "]"; } }
  static String pv2(F2 f, int a, int b) { try { double v = f.f(a, b); return "[1," + bits(v) + "]"; } catch (Exception e) { return "[0," + bits(0.0) + "]"; } }
  static String row2(String key, F2 f, int Z, int lo, int hi) {
    StringBuilder ok = new StringBuilder(), v = new StringBuilder();
    for (int m = lo; m <= hi; m++) { double x = 0; int o = 1; try { x = f.f(Z, m); } catch (Exception e) { o = 0; x = 0; } if (m > lo) { ok.append(','); v.append(','); } ok.append(o); v.append(bits(x)); }
    return "\"" + key + "\":{\"lo\":" + lo + ",\"hi\":" + hi + ",\"ok\":[" + ok + "],\"v\":[" + v + "]}";
  }
  static String row3(String key, F3 f, int Z, double E, int lo, int hi) {
    StringBuilder ok = new StringBuilder(), v = new StringBuilder();
    for (int m = lo; m <= hi; m++) { double x = 0; int o = 1; try { x = f.f(Z, m, E); } catch (Exception e) { o = 0; x = 0; } if (m > lo) { ok.append(','); v.append(','); } ok.append(o); v.append(bits(x)); }
    return ",\"" + key + "\":{\"lo\":" + lo + ",\"hi\":" + hi + ",\"ok\":[" + ok + "],\"v\":[" + v + "],\"nd\":0,\"ndm\":0}";
  }
  public static void main(String[] argv) throws Exception {
    BufferedReader in = new BufferedReader(new InputStreamReader(new FileInputStream(argv[0]), "ISO-8859-1"));
    PrintStream out = new PrintStream(new BufferedOutputStream(new FileOutputStream(argv[1]), 1 << 16), false, "ISO-8859-1");
    Pattern pz = Pattern.compile("\"Z\":(-?\\d+)"), pe = Pattern.compile("\\{\"E\":\\[(-?\\d+),(-?\\d+)\\]");
    String line;
    while ((line = in.readLine()) != null) {
      Matcher m = pz.matcher(line); if (!m.find()) continue; final int Z = Integer.parseInt(m.group(1));
      List<Double> es = new ArrayList<>(); Matcher me = pe.matcher(line);
      while (me.find()) es.add(Double.longBitsToDouble(((long) Integer.parseInt(me.group(1)) << 32) | (Integer.parseInt(me.group(2)) & 0xffffffffL)));
      for (int s = 0; s < 4; s++) { try { double ed = Xraylib.EdgeEnergy(Z, s); if (ed > 0) { es.add(ed); es.add(Math.nextUp(ed)); es.add(Math.nextDown(ed)); } } catch (Exception e) { } }
      StringBuilder sb = new StringBuilder();
      sb.append("{\"k\":\"xrf\",\"impl\":\"java\",\"Z\":").append(Z).append(",\"aw\":").append(pv(Xraylib::AtomicWeight, Z));
      sb.append(",\"edge\":["); for (int s = 0; s < 4; s++) sb.append(s > 0 ? "," : "").append(pv2(Xraylib::EdgeEnergy, Z, s));
      sb.append("],\"jump\":["); for (int s = 0; s < 4; s++) sb.append(s > 0 ? "," : "").append(pv2(Xraylib::JumpFactor, Z, s));
      sb.append("],\"yield\":["); for (int s = 0; s < 4; s++) sb.append(s > 0 ? "," : "").append(pv2(Xraylib::FluorYield, Z, s));
      int[] t = {Xraylib.FL12_TRANS, Xraylib.FL13_TRANS, Xraylib.FLP13_TRANS, Xraylib.FL23_TRANS};
      sb.append("],\"ck\":["); for (int i = 0; i < 4; i++) sb.append(i > 0 ? "," : "").append(pv2(Xraylib::CosKronTransProb, Z, t[i]));
      sb.append("],").append(row2("RR", Xraylib::RadRate, Z, -386, 6)).append(",\"at\":[");
      boolean first = true;
      for (double E : es) {
        sb.append(first ? "" : ",").append("{\"E\":").append(bits(E)).append(",\"photo\":"); first = false;
        try { double v = Xraylib.CS_Photo(Z, E); sb.append("[1,").append(bits(v)).append("]"); } catch (Exception e) { sb.append("[0,").append(bits(0.0)).append("]"); }
        sb.append(row3("shell", Xraylib::CS_FluorShell, Z, E, -1, 5)).append(row3("shellb", Xraylib::CSb_FluorShell, Z, E, -1, 5));
        sb.append(row3("line", Xraylib::CS_FluorLine, Z, E, -386, 6)).append(row3("lineb", Xraylib::CSb_FluorLine, Z, E, -386, 6)).append("}");
      }
      sb.append("]}"); out.println(sb);
    }
    out.flush(); out.close();
  }
}
