import java.io.*;
import java.lang.reflect.*;
import java.util.*;
import com.github.tschoonj.xraylib.*;
import org.apache.commons.math3.complex.Complex;

/** C19: reads the query file written by `xrl_drive c19` (one call per line with the C outcome), performs the same call on the Java
 *  implementation through reflection (method of the same name and argument types), and prints one "jrow" event per (function, Z):
 *  how many tuples, how many are bit-identical on both sides, and the list of the others (C outcome, Java outcome, arguments).
 *  Bit-identical pairs trivially satisfy the equivalence; everything else is left to the specification. */
public class JDrive {
  static String bits(double x) { long b = Double.doubleToRawLongBits(x); return "[" + (int) (b >> 32) + "," + (int) b + "]"; }
  static String esc(String s) { StringBuilder o = new StringBuilder(); for (char c : s.toCharArray()) { if (c == '"' || c == '\\') { o.append('\\').append(c); } else if (c < 0x20 || c >= 0x7f) o.append(String.format("\\u%04x", (int) c)); else o.append(c); } return o.toString(); }
  static String dl(String d) { return d.isEmpty() ? "[]" : "[[" + d.replace(";", "],[") + "]]"; }
  /** "ok,hi,lo/ok,hi,lo" -> [[ok,0,[[hi,lo]]],...]: the C outcomes at the two neighbouring arguments, in the shape of the "c" field */
  // is x bit-equal to one of this implementation's own edge energies of element Z?  (then a comparison of x with that edge is exact on both sides)
  static boolean jedge(int Z, double x) { for (int sh = 0; sh < 31; sh++) { try { if (Xraylib.EdgeEnergy(Z, sh) == x) return true; } catch (RuntimeException e) { } } return false; }
  static String alts(String a) { if (a.isEmpty()) return "[]"; StringBuilder sb = new StringBuilder("["); for (String p : a.split("/")) { String[] q = p.split(","); if (sb.length() > 1) sb.append(",");
      sb.append("[").append(q[0]).append(",0,").append(q[0].equals("1") ? "[[" + q[1] + "," + q[2] + "]]" : "[]").append("]"); } return sb.append("]").toString(); }
  static List<Method> mtM = new ArrayList<>(); static List<Object[]> mtA = new ArrayList<>(); static List<String> mtR = new ArrayList<>();     // scalar calls and their serial outcomes, for the threaded pass
  static Map<String, Method> cache = new HashMap<>();
  static Method find(String fn, Class<?>[] types) { String key = fn + Arrays.toString(types); if (cache.containsKey(key)) return cache.get(key); Method m = null; try { m = Xraylib.class.getMethod(fn, types); } catch (Exception e) { } cache.put(key, m); return m; }
  static long hashObj(Object o) throws Exception {   // field-wise digest of result objects, same recipe as the C side (c19.c)
    if (o == null) return 7;
    StringBuilder sb = new StringBuilder();
    if (o instanceof compoundData) { compoundData c = (compoundData) o; sb.append(c.nElements); for (int i = 0; i < c.nElements; i++) sb.append(",").append(c.Elements[i]); return sb.toString().hashCode(); }
    if (o instanceof compoundDataNIST) { compoundDataNIST c = (compoundDataNIST) o; sb.append(c.name).append(c.nElements); for (int i = 0; i < c.nElements; i++) sb.append(",").append(c.Elements[i]); return sb.toString().hashCode(); }
    if (o instanceof radioNuclideData) { radioNuclideData c = (radioNuclideData) o; sb.append(c.name).append(c.Z).append(",").append(c.A).append(",").append(c.N).append(",").append(c.Z_xray).append(",").append(c.nXrays).append(",").append(c.nGammas); for (int i = 0; i < c.nXrays; i++) sb.append(",").append(c.XrayLines[i]); return sb.toString().hashCode(); }
    if (o instanceof Crystal_Struct) { Crystal_Struct c = (Crystal_Struct) o; sb.append(c.name).append(c.n_atom); for (int i = 0; i < c.n_atom; i++) sb.append(",").append(c.atom[i].Zatom); return sb.toString().hashCode(); }
    if (o instanceof String[]) { String[] a = (String[]) o; sb.append(a.length); for (String x : a) sb.append(",").append(x); return sb.toString().hashCode(); }
    if (o instanceof double[]) return 0;
    if (o instanceof String) return ((String) o).hashCode();
    if (o instanceof Integer) return (Integer) o;
    return o.toString().hashCode();
  }
  static double[] doubles(Object o) {                  // the double-valued fields of a result, in the order the C side prints them
    if (o instanceof Double) return new double[] {(Double) o};
    if (o instanceof Complex) return new double[] {((Complex) o).getReal(), ((Complex) o).getImaginary()};
    if (o instanceof compoundData) { compoundData c = (compoundData) o; double[] r = new double[2 * c.nElements + 2]; for (int i = 0; i < c.nElements; i++) { r[i] = c.massFractions[i]; r[c.nElements + i] = c.nAtoms[i]; } r[2 * c.nElements] = c.nAtomsAll; r[2 * c.nElements + 1] = c.molarMass; return r; }
    if (o instanceof compoundDataNIST) { compoundDataNIST c = (compoundDataNIST) o; double[] r = new double[c.nElements + 1]; for (int i = 0; i < c.nElements; i++) r[i] = c.massFractions[i]; r[c.nElements] = c.density; return r; }
    if (o instanceof radioNuclideData) { radioNuclideData c = (radioNuclideData) o; double[] r = new double[c.nXrays + 2 * c.nGammas]; for (int i = 0; i < c.nXrays; i++) r[i] = c.XrayIntensities[i]; for (int i = 0; i < c.nGammas; i++) { r[c.nXrays + i] = c.GammaEnergies[i]; r[c.nXrays + c.nGammas + i] = c.GammaIntensities[i]; } return r; }
    if (o instanceof double[]) return (double[]) o;
    if (o instanceof Crystal_Struct) { Crystal_Struct c = (Crystal_Struct) o; double[] r = new double[7 + 4 * c.n_atom]; r[0] = c.a; r[1] = c.b; r[2] = c.c; r[3] = c.alpha; r[4] = c.beta; r[5] = c.gamma; r[6] = c.volume;
      for (int i = 0; i < c.n_atom; i++) { r[7 + 4 * i] = c.atom[i].fraction; r[8 + 4 * i] = c.atom[i].x; r[9 + 4 * i] = c.atom[i].y; r[10 + 4 * i] = c.atom[i].z; } return r; }
    return new double[0];
  }
  static Map<String, Crystal_Struct> defs = new HashMap<>();
  
  /** a Crystal_Struct with exactly the C side's field values: the library's own copy of the built-in crystal of that name, its public (final) fields
   *  overwritten one by one through reflection -- no assumption about constructors or about the layout of the data file */
  static void setField(Object o, String name, Object v) throws Exception { Field f = o.getClass().getField(name); f.setAccessible(true); f.set(o, v); }
  static void define(String name, String cd, String zl) throws Exception {
    String[] dv = cd.split(";"); String[] zs = zl.isEmpty() ? new String[0] : zl.split(",");
    double[] v = new double[dv.length]; for (int i = 0; i < dv.length; i++) { String[] hl = dv[i].split(","); v[i] = Double.longBitsToDouble(((long) Integer.parseInt(hl[0]) << 32) | (Integer.parseInt(hl[1]) & 0xffffffffL)); }
    Crystal_Struct cs = Xraylib.Crystal_GetCrystal(name);
    if (cs.n_atom != zs.length) throw new IllegalStateException("crystal " + name + ": " + cs.n_atom + " atoms in Java, " + zs.length + " in C");
    String[] fn = {"a", "b", "c", "alpha", "beta", "gamma", "volume"}; for (int i = 0; i < 7; i++) setField(cs, fn[i], v[i]);
    for (int i = 0; i < zs.length; i++) { Object at = cs.atom[i]; setField(at, "Zatom", Integer.parseInt(zs[i])); setField(at, "fraction", v[7 + 4 * i]); setField(at, "x", v[8 + 4 * i]); setField(at, "y", v[9 + 4 * i]); setField(at, "z", v[10 + 4 * i]); }
    defs.put(name, cs);
  }
  static final String[] SH = {"", "L1", "L2", "L3", "M1", "M2", "M3", "M4", "M5"};
  static Method byName(String fn) { for (Method m : Xraylib.class.getMethods()) if (m.getName().equals(fn)) return m; return null; }
  /** P<shell>_<variant>_kissel(Z, E, [PK, PL1..] | [PM1..]) with the inputs p[0..7] = PK PL1 PL2 PL3 PM1..PM4; the "pure" variants take only the
   *  preceding shells of their own family */
  static double pcall(int s, String variant, int Z, double E, double[] p) throws Exception {
    Method m = byName("P" + SH[s] + "_" + variant + "_kissel"); if (m == null) throw new NoSuchMethodException("P" + SH[s] + "_" + variant + "_kissel");
    List<Object> a = new ArrayList<>(); a.add(Z); a.add(E);
    if (variant.equals("pure")) { int first = s <= 3 ? 1 : 4; for (int k = first; k < s; k++) a.add(p[k]); }
    else for (int k = 0; k < s; k++) a.add(p[k]);
    if (a.size() != m.getParameterCount()) throw new NoSuchMethodException(m.toString());
    return (Double) m.invoke(null, a.toArray());
  }
  static double pquiet(int s, String variant, int Z, double E, double[] p) throws Exception { try { return pcall(s, variant, Z, E, p); } catch (InvocationTargetException e) { return 0.0; } }
  static Object pspecial(String fn, int Z, int mode, double E) throws Exception {
    int s = Arrays.asList(SH).indexOf(fn.substring(1, 3)); String variant = fn.substring(4, fn.length() - 7); double[] p = new double[8];
    if (mode == 1) Arrays.fill(p, 1.0);
    if (mode == 0) { try { p[0] = Xraylib.CS_Photo_Partial(Z, Xraylib.K_SHELL, E); } catch (RuntimeException e) { p[0] = 0.0; } for (int k = 1; k < s; k++) p[k] = pquiet(k, variant, Z, E, p); }
    return pcall(s, variant, Z, E, p);
  }
  /** the crystal functions and the lists: dispatched by name ("X" lines of c19.c) */
  static Object special(String fn, int i0, int i1, double[] d, String s) throws Exception {
    if (fn.equals("Crystal_GetCrystalsList")) return Xraylib.Crystal_GetCrystalsList();
    if (fn.equals("GetCompoundDataNISTList")) return Xraylib.GetCompoundDataNISTList();
    if (fn.equals("GetRadioNuclideDataList")) return Xraylib.GetRadioNuclideDataList();
    if (fn.equals("Crystal_GetCrystal")) return Xraylib.Crystal_GetCrystal(s);
    Crystal_Struct cs = s.equals("<null>") ? null : defs.get(s);
    if (cs == null && !s.equals("<null>")) throw new NoSuchMethodException("crystal not defined: " + s);
    int i = i0 / 10201 - 50, j = (i0 / 101) % 101 - 50, k = i0 % 101 - 50;
    if (fn.equals("Crystal_UnitCellVolume")) return Xraylib.Crystal_UnitCellVolume(cs);
    if (fn.equals("Crystal_dSpacing")) return Xraylib.Crystal_dSpacing(cs, i, j, k);
    if (fn.equals("Bragg_angle")) return Xraylib.Bragg_angle(cs, d[0], i, j, k);
    if (fn.equals("Q_scattering_amplitude")) return Xraylib.Q_scattering_amplitude(cs, d[0], i, j, k, d[2]);
    if (fn.equals("Crystal_F_H_StructureFactor")) return Xraylib.Crystal_F_H_StructureFactor(cs, d[0], i, j, k, d[1], d[2]);
    if (fn.equals("Crystal_F_H_StructureFactor_Partial")) return Xraylib.Crystal_F_H_StructureFactor_Partial(cs, d[0], i, j, k, d[1], d[2], i1 / 100 - 1, (i1 / 10) % 10 - 1, i1 % 10 - 1);
    throw new NoSuchMethodException(fn);
  }
  /** overwrite every int[] / double[] of an object the library handed out: if it was not an independent copy, later lookups show it */
  static void scribble(Object o) throws Exception {
    if (o == null || o instanceof String || o instanceof Double || o instanceof Integer || o instanceof Complex || o.getClass().isArray()) return;
    for (Field f : o.getClass().getFields()) { Object v = f.get(o); if (v instanceof int[]) Arrays.fill((int[]) v, -7); else if (v instanceof double[]) Arrays.fill((double[]) v, -7.0); }
  }
  public static void main(String[] argv) throws Exception {
    BufferedReader in = new BufferedReader(new InputStreamReader(new FileInputStream(argv[0]), "ISO-8859-1"));
    PrintStream out = new PrintStream(new BufferedOutputStream(new FileOutputStream(argv[1]), 1 << 16), false, "ISO-8859-1");
    String line; String curKey = null; long n = 0, same = 0; StringBuilder diffs = new StringBuilder(); int nd = 0; Set<String> missing = new TreeSet<>();
    while (true) {
      line = in.readLine();
      String key = null; String[] t = null;
      if (line != null) { t = line.split("\\|", -1); key = t[0] + "|" + t[2]; }
      if (curKey != null && !curKey.equals(key)) {
        String[] kk = curKey.split("\\|"); if (n > 0) out.println("{\"k\":\"jrow\",\"fn\":\"" + kk[0] + "\",\"Z\":" + kk[1] + ",\"n\":" + n + ",\"identical\":" + same + ",\"diff\":[" + diffs + "]}");
        n = 0; same = 0; diffs.setLength(0); nd = 0;
      }
      if (line == null) break;
      curKey = key;
      // fn | sig | i0 | i1 | d0 | d1 | d2 | s | c_ok | c_hash | c_doubles(;-separated bit pairs)
      String fn = t[0], sig = t[1]; int i0 = Integer.parseInt(t[2]), i1 = Integer.parseInt(t[3]);
      double[] d = new double[3]; for (int k = 0; k < 3; k++) d[k] = Double.longBitsToDouble(Long.parseLong(t[4 + k]));
      String s = t[7]; int cok = Integer.parseInt(t[8]); long chash = Long.parseLong(t[9]); String cd = t[10]; String extra = t.length > 11 ? t[11] : ""; String alt = t.length > 12 ? t[12] : ""; boolean cedge = t.length > 13 && t[13].equals("1");
      if (fn.equals("CrystalDef")) { define(s, cd, extra); continue; }
      List<Class<?>> types = new ArrayList<>(); List<Object> args = new ArrayList<>(); int ii = 0, di = 0;
      for (char ch : sig.toCharArray()) { if (ch == 'I') { types.add(int.class); args.add(ii++ == 0 ? i0 : i1); } else if (ch == 'D') { types.add(double.class); args.add(d[di++]); } else { types.add(String.class); args.add(s); } }
      boolean sp = sig.startsWith("X");
      Method m = sp ? null : find(fn, types.toArray(new Class<?>[0]));
      if (m == null && !sp) { missing.add(fn + "(" + sig + ")"); continue; }
      n++;
      int jok; long jhash = 0; String jd = ""; String exc = ""; boolean r_isScalar = false;
      try { Object r; try { r = sig.equals("XP") ? pspecial(fn, i0, i1, d[0]) : m == null ? special(fn, i0, i1, d, s) : m.invoke(null, args.toArray()); } catch (InvocationTargetException e) { throw e; } catch (NoSuchMethodException e) { missing.add(fn + "(X)"); n--; continue; } catch (RuntimeException e) { throw new InvocationTargetException(e); }
        r_isScalar = r instanceof Double; jok = 1; jhash = (r instanceof Double || r instanceof Complex) ? 0 : hashObj(r); double[] v = doubles(r); StringBuilder sb = new StringBuilder(); for (int k = 0; k < v.length; k++) { if (k > 0) sb.append(";"); long b = Double.doubleToRawLongBits(v[k]); sb.append((int) (b >> 32)).append(",").append((int) b); } jd = sb.toString(); scribble(r); }
      catch (InvocationTargetException e) { jok = 0; exc = e.getCause().getClass().getSimpleName(); }
      if (m != null && mtM.size() < 24000 && (r_isScalar || jok == 0)) { mtM.add(m); mtA.add(args.toArray()); mtR.add(jok == 0 ? "!" : jd); }
      if (jok == cok && (cok == 0 || (jhash == chash && jd.equals(cd)))) { same++; continue; }
      { if (diffs.length() > 0) diffs.append(",");
        diffs.append("{\"a\":[" + i0 + "," + i1 + "],\"d\":[" + bits(d[0]) + "," + bits(d[1]) + "," + bits(d[2]) + "],\"s\":\"" + esc(s) + "\",\"c\":[" + cok + "," + chash + "," + dl(cd) + "],\"j\":[" + jok + "," + jhash + "," + dl(jd) + "],\"sc\":" + (extra.isEmpty() ? "[0,0]" : "[" + extra + "]") + ",\"alt\":" + alts(alt) + ",\"xe\":" + (cedge && jedge(i0, d[0]) ? 1 : 0) + ",\"exc\":\"" + exc + "\"}"); }
    }
    // the recorded scalar calls once more from four threads at once, all walking the same list a few entries apart (so that they sit in the
    // same method with different arguments): every outcome must be the one the call gave alone
    if (mtM.size() > 100) {
      final int NT = 4; final java.util.concurrent.atomic.AtomicLong bad = new java.util.concurrent.atomic.AtomicLong(), done = new java.util.concurrent.atomic.AtomicLong(); final String[] firstBad = {""};
      Thread[] th = new Thread[NT];
      for (int t = 0; t < NT; t++) { final int off = t * 13; th[t] = new Thread(() -> {
          int n2 = mtM.size();
          for (int rep = 0; rep < 2; rep++) for (int i = 0; i < n2; i++) { int k = (i + off) % n2; String got;
            try { Object r = mtM.get(k).invoke(null, mtA.get(k)); long b = Double.doubleToRawLongBits((Double) r); got = (int) (b >> 32) + "," + (int) b; }
            catch (InvocationTargetException e) { got = "!"; } catch (Exception e) { got = "?"; }
            if (!got.equals(mtR.get(k))) { if (bad.incrementAndGet() == 1) firstBad[0] = mtM.get(k).getName() + Arrays.toString(mtA.get(k)); }
            done.incrementAndGet(); } }); th[t].start(); }
      for (Thread x : th) x.join();
      out.println("{\"k\":\"jmt\",\"threads\":" + NT + ",\"calls\":" + done.get() + ",\"mismatch\":" + bad.get() + ",\"first\":\"" + esc(firstBad[0]) + "\"}");
    }
    for (String m : missing) out.println("{\"k\":\"jmissing\",\"fn\":\"" + m + "\"}");
    Set<String> all = new TreeSet<>(); for (Method m : Xraylib.class.getDeclaredMethods()) if (Modifier.isPublic(m.getModifiers()) && Modifier.isStatic(m.getModifiers())) all.add(m.getName());
    StringBuilder sb = new StringBuilder(); for (String m : all) sb.append(sb.length() > 0 ? "," : "").append("\"").append(m).append("\"");
    out.println("{\"k\":\"jmethods\",\"names\":[" + sb + "]}");
    out.flush(); out.close();
  }
}
