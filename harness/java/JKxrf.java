import java.io.*;
import java.lang.reflect.*;
import java.util.*;
import java.util.regex.*;
import com.github.tschoonj.xraylib.*;

/** C19, second binding for the cascade: the Kissel XRF specification (XrlXRFKissel, property C08) is also validated against the JAVA
 *  implementation.  Reads the trace that `xrl_drive c08` wrote for the C library (data configuration B), takes from each event the element
 *  and the energies, adds the Java implementation's own K..M5 edge energies (bit-exact and one ulp to either side), evaluates the same
 *  primitives, helper chains and results with the Java methods and writes events of the same shape (see harness/c08.c). */
public class JKxrf {
  interface F2 { double f(int a, int b) throws Exception; }
  interface F3 { double f(int a, int b, double c) throws Exception; }
  static String bits(double x) { long b = Double.doubleToRawLongBits(x); return "[" + (int) (b >> 32) + "," + (int) b + "]"; }
  static String pv(boolean ok, double v) { return "[" + (ok ? 1 : 0) + "," + bits(ok ? v : 0.0) + "]"; }
  static String pv2(F2 f, int a, int b) { try { return pv(true, f.f(a, b)); } catch (Exception e) { return pv(false, 0); } }
  static String pv3(F3 f, int a, int b, double c) { try { return pv(true, f.f(a, b, c)); } catch (Exception e) { return pv(false, 0); } }
  static String row2(String key, F2 f, int Z, int lo, int hi) {
    StringBuilder ok = new StringBuilder(), v = new StringBuilder();
    for (int m = lo; m <= hi; m++) { double x = 0; int o = 1; try { x = f.f(Z, m); } catch (Exception e) { o = 0; x = 0; } if (m > lo) { ok.append(','); v.append(','); } ok.append(o); v.append(bits(x)); }
    return "\"" + key + "\":{\"lo\":" + lo + ",\"hi\":" + hi + ",\"ok\":[" + ok + "],\"v\":[" + v + "]}";
  }
  static String row3(String key, F3 f, int Z, double E, int lo, int hi) {
    StringBuilder ok = new StringBuilder(), v = new StringBuilder();
    for (int m = lo; m <= hi; m++) { double x = 0; int o = 1; try { x = f.f(Z, m, E); } catch (Exception e) { o = 0; x = 0; } if (m > lo) { ok.append(','); v.append(','); } ok.append(o); v.append(bits(x)); }
    return ",\"" + key + "\":{\"lo\":" + lo + ",\"hi\":" + hi + ",\"ok\":[" + ok + "],\"v\":[" + v + "]}";
  }
  static final String[] SH = {"", "L1", "L2", "L3", "M1", "M2", "M3", "M4", "M5"};
  static Map<String, Method> cache = new HashMap<>();
  static Method byName(String fn) { if (cache.containsKey(fn)) return cache.get(fn); Method r = null; for (Method m : Xraylib.class.getMethods()) if (m.getName().equals(fn)) r = m; cache.put(fn, r); return r; }
  /** P[s] of one variant through the exported helpers, each fed with the values computed before it (0 where a step failed), as harness/c08.c does */
  static void chain(int Z, double E, String variant, double[] P, boolean[] ok) throws Exception {
    try { P[0] = Xraylib.CS_Photo_Partial(Z, Xraylib.K_SHELL, E); ok[0] = true; } catch (RuntimeException e) { P[0] = 0; ok[0] = false; }
    for (int s = 1; s <= 8; s++) {
      String fn = "P" + SH[s] + "_" + (variant.equals("pure") ? "pure" : variant + "_cascade") + "_kissel"; Method m = byName(fn); if (m == null) throw new NoSuchMethodException(fn);
      List<Object> a = new ArrayList<>(); a.add(Z); a.add(E);
      if (variant.equals("pure")) { int first = s <= 3 ? 1 : 4; for (int k = first; k < s; k++) a.add(P[k]); } else for (int k = 0; k < s; k++) a.add(P[k]);
      if (a.size() != m.getParameterCount()) throw new NoSuchMethodException(m.toString());
      try { P[s] = (Double) m.invoke(null, a.toArray()); ok[s] = true; } catch (InvocationTargetException e) { P[s] = 0; ok[s] = false; }
    }
  }
  public static void main(String[] argv) throws Exception {
    BufferedReader in = new BufferedReader(new InputStreamReader(new FileInputStream(argv[0]), "ISO-8859-1"));
    PrintStream out = new PrintStream(new BufferedOutputStream(new FileOutputStream(argv[1]), 1 << 16), false, "ISO-8859-1");
    Pattern pz = Pattern.compile("\"Z\":(-?\\d+)"), pe = Pattern.compile("\\{\"E\":\\[(-?\\d+),(-?\\d+)\\]");
    F3[] SHF = {Xraylib::CS_FluorShell_Kissel, Xraylib::CS_FluorShell_Kissel_Cascade, Xraylib::CS_FluorShell_Kissel_Nonradiative_Cascade, Xraylib::CS_FluorShell_Kissel_Radiative_Cascade, Xraylib::CS_FluorShell_Kissel_no_Cascade,
                Xraylib::CSb_FluorShell_Kissel, Xraylib::CSb_FluorShell_Kissel_Cascade, Xraylib::CSb_FluorShell_Kissel_Nonradiative_Cascade, Xraylib::CSb_FluorShell_Kissel_Radiative_Cascade, Xraylib::CSb_FluorShell_Kissel_no_Cascade};
    F3[] LNF = {Xraylib::CS_FluorLine_Kissel, Xraylib::CS_FluorLine_Kissel_Cascade, Xraylib::CS_FluorLine_Kissel_Nonradiative_Cascade, Xraylib::CS_FluorLine_Kissel_Radiative_Cascade, Xraylib::CS_FluorLine_Kissel_no_Cascade,
                Xraylib::CSb_FluorLine_Kissel, Xraylib::CSb_FluorLine_Kissel_Cascade, Xraylib::CSb_FluorLine_Kissel_Nonradiative_Cascade, Xraylib::CSb_FluorLine_Kissel_Radiative_Cascade, Xraylib::CSb_FluorLine_Kissel_no_Cascade};
    String[] FN = {"plain", "full", "auger", "rad", "none", "b_plain", "b_full", "b_auger", "b_rad", "b_none"}; String[] VN = {"pure", "rad", "auger", "full"};
    String line;
    while ((line = in.readLine()) != null) {
      Matcher m = pz.matcher(line); if (!m.find()) continue; final int Z = Integer.parseInt(m.group(1));
      List<Double> es = new ArrayList<>(); Set<Double> exact = new HashSet<>(); Matcher me = pe.matcher(line);
      while (me.find()) es.add(Double.longBitsToDouble(((long) Integer.parseInt(me.group(1)) << 32) | (Integer.parseInt(me.group(2)) & 0xffffffffL)));
      for (int s = 0; s < 9; s++) { try { double ed = Xraylib.EdgeEnergy(Z, s); if (ed > 0) { es.add(ed); es.add(Math.nextUp(ed)); es.add(Math.nextDown(ed)); if (s == 0 || s == 3) exact.add(ed); } } catch (Exception e) { } }
      StringBuilder sb = new StringBuilder();
      sb.append("{\"k\":\"kxrf\",\"impl\":\"java\",\"Z\":").append(Z).append(",\"aw\":"); try { sb.append(pv(true, Xraylib.AtomicWeight(Z))); } catch (Exception e) { sb.append(pv(false, 0)); }
      sb.append(",\"yield\":["); for (int s = 0; s < 9; s++) sb.append(s > 0 ? "," : "").append(pv2(Xraylib::FluorYield, Z, s));
      sb.append("],\"ay\":["); for (int s = 0; s < 9; s++) sb.append(s > 0 ? "," : "").append(pv2(Xraylib::AugerYield, Z, s));
      sb.append("],").append(row2("ck", Xraylib::CosKronTransProb, Z, 1, 14)).append(",").append(row2("RR", Xraylib::RadRate, Z, -386, 6)).append(",").append(row2("AR", Xraylib::AugerRate, Z, 0, 995));
      sb.append(",\"at\":[");
      int i = 0;
      for (double E : es) {
        sb.append(i > 0 ? "," : "").append("{\"E\":").append(bits(E));
        sb.append(",\"sig\":["); for (int s = 0; s < 9; s++) sb.append(s > 0 ? "," : "").append(pv3(Xraylib::CS_Photo_Partial, Z, s, E));
        sb.append("],\"P\":{");
        for (int v = 0; v < 4; v++) { double[] P = new double[9]; boolean[] ok = new boolean[9]; chain(Z, E, VN[v], P, ok); sb.append(v > 0 ? "," : "").append("\"").append(VN[v]).append("\":["); for (int s = 0; s < 9; s++) sb.append(s > 0 ? "," : "").append(pv(ok[s], P[s])); sb.append("]"); }
        sb.append("},\"sh\":{");
        for (int k = 0; k < 10; k++) { sb.append(k > 0 ? "," : "").append("\"").append(FN[k]).append("\":["); for (int s = -1; s <= 10; s++) sb.append(s > -1 ? "," : "").append(pv3(SHF[k], Z, s, E)); sb.append("]"); }
        sb.append("}");
        boolean lines = (i >= 2 && (i - 2) % 9 == 0) || exact.contains(E);
        sb.append(",\"haslines\":").append(lines ? 1 : 0);
        if (lines) for (int k = 0; k < 10; k++) sb.append(row3("ln_" + FN[k], LNF[k], Z, E, -386, 6));
        sb.append("}"); i++;
      }
      sb.append("]}"); out.println(sb);
    }
    out.flush(); out.close();
  }
}
