import java.lang.reflect.*;
import com.github.tschoonj.xraylib.*;

/** C20: the constants the Java binding PUBLISHES at run time - every public static int / double field of Xraylib after class
 *  initialisation (several are not literals in the source but are read from the generated data file) - as a JSON list of
 *  [name, literal] pairs; doubles in Java's shortest round-trip notation. */
public class JConsts {
  public static void main(String[] argv) throws Exception {
    StringBuilder sb = new StringBuilder("[");
    for (Field f : Xraylib.class.getDeclaredFields()) {
      int m = f.getModifiers(); if (!Modifier.isPublic(m) || !Modifier.isStatic(m)) continue;
      String lit;
      if (f.getType() == int.class) lit = Integer.toString(f.getInt(null));
      else if (f.getType() == double.class) lit = Double.toString(f.getDouble(null));
      else continue;
      if (sb.length() > 1) sb.append(","); sb.append("[\"").append(f.getName()).append("\",\"").append(lit).append("\"]");
    }
    System.out.println(sb.append("]"));
  }
}
