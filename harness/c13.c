/* C13: crystal diffraction.  One event per (crystal, hkl, E, Debye factor, relative angle): the crystal as given,
 * every returned quantity, the atomic factors the library reports for each distinct Z, and the structure factor for
 * all flag combinations (valid and a few invalid), for -h, and for the (000) reflection. */
#include "common.h"
static void pv(double v, xrl_error **e) { fprintf(OUT, "[%d,", *e == NULL); jd(v); fputc(']', OUT); xrl_clear_error(e); }
static void pc(xrlComplex z, xrl_error **e) { fprintf(OUT, "[%d,", *e == NULL); jd(z.re); fputc(',', OUT); jd(z.im); fputc(']', OUT); xrl_clear_error(e); }
/* the pointer-returning twins that the Fortran / .NET / scripting bindings call (exported, not declared in the headers) */
extern void Crystal_F_H_StructureFactor2(Crystal_Struct *, double, int, int, int, double, double, xrlComplex *, xrl_error **) __attribute__((weak));
extern void Crystal_F_H_StructureFactor_Partial2(Crystal_Struct *, double, int, int, int, double, double, int, int, int, xrlComplex *, xrl_error **) __attribute__((weak));
static void event(Crystal_Struct *c, int builtin, int h, int k, int l, double E, double dw, double rel) {
  xrl_error *e = NULL;
  fprintf(OUT, "{\"k\":\"xtal\",\"builtin\":%d,\"hkl\":[%d,%d,%d],\"E\":", builtin, h, k, l); jd(E); fputs(",\"dw\":", OUT); jd(dw); fputs(",\"rel\":", OUT); jd(rel);
  fputs(",\"c\":", OUT); j_crystal(c);
  fputs(",\"vol\":", OUT); pv(Crystal_UnitCellVolume(c, &e), &e);
  fputs(",\"d\":", OUT); pv(Crystal_dSpacing(c, h, k, l, &e), &e);
  fputs(",\"dneg\":", OUT); pv(Crystal_dSpacing(c, -h, -k, -l, &e), &e);
  fputs(",\"d3\":", OUT); pv(Crystal_dSpacing(c, 3 * h, 3 * k, 3 * l, &e), &e);
  fputs(",\"bragg\":", OUT); pv(Bragg_angle(c, E, h, k, l, &e), &e);
  double q = Q_scattering_amplitude(c, E, h, k, l, rel, NULL);
  fputs(",\"Q\":", OUT); pv(Q_scattering_amplitude(c, E, h, k, l, rel, &e), &e);
  /* atomic factors for each distinct Z of the crystal, at (E, q, dw) and at q = 0 */
  fputs(",\"af\":[", OUT); { int seen[200] = {0}, first = 1;
    for (int i = 0; i < c->n_atom; i++) { int Z = c->atom[i].Zatom; if (Z < 0 || Z >= 200 || seen[Z]) continue; seen[Z] = 1;
      double f0, f1, f2, g0, g1, g2; xrl_error *e1 = NULL, *e2 = NULL; int r1 = Atomic_Factors(Z, E, q, dw, &f0, &f1, &f2, &e1), r2 = Atomic_Factors(Z, E, 0.0, dw, &g0, &g1, &g2, &e2);
      fprintf(OUT, "%s{\"Z\":%d,\"ok\":%d,\"f\":[", first ? "" : ",", Z, r1 && !e1); jd(f0); fputc(',', OUT); jd(f1); fputc(',', OUT); jd(f2);
      fprintf(OUT, "],\"ok0\":%d,\"g\":[", r2 && !e2); jd(g0); fputc(',', OUT); jd(g1); fputc(',', OUT); jd(g2); fputs("]}", OUT); first = 0; xrl_clear_error(&e1); xrl_clear_error(&e2); } }
  fputs("],\"F\":[", OUT);
  for (int f0 = -1; f0 <= 3; f0++) for (int f1 = 0; f1 <= 3; f1++) for (int f2 = 0; f2 <= 2; f2++) {
    if (f0 == -1 && (f1 || f2)) continue; if (f0 == 3 && (f1 != 2 || f2 != 2)) continue; if (f1 == 1 && !(f0 == 2 && f2 == 2)) continue; if (f1 == 3 && !(f0 == 2 && f2 == 0)) continue; if (f2 == 1 && !(f0 == 2 && f1 == 2)) continue;
    fprintf(OUT, "%s{\"fl\":[%d,%d,%d],\"v\":", (f0 == -1) ? "" : ",", f0, f1, f2); pc(Crystal_F_H_StructureFactor_Partial(c, E, h, k, l, dw, rel, f0, f1, f2, &e), &e);
    fputs(",\"m\":", OUT); pc(Crystal_F_H_StructureFactor_Partial(c, E, -h, -k, -l, dw, rel, f0, f1, f2, &e), &e); fputc('}', OUT);
  }
  fputs("],\"Ffull\":", OUT); pc(Crystal_F_H_StructureFactor(c, E, h, k, l, dw, rel, &e), &e);
  { xrlComplex a = Crystal_F_H_StructureFactor(c, E, h, k, l, dw, rel, &e), b = {0, 0}; int oka = e == NULL; xrl_clear_error(&e);
    if (Crystal_F_H_StructureFactor2) Crystal_F_H_StructureFactor2(c, E, h, k, l, dw, rel, &b, &e); else b = a; int okb = Crystal_F_H_StructureFactor2 ? e == NULL : oka; xrl_clear_error(&e);
    xrlComplex p = Crystal_F_H_StructureFactor_Partial(c, E, h, k, l, dw, rel, 1, 2, 0, &e), q = {0, 0}; int okp = e == NULL; xrl_clear_error(&e);
    if (Crystal_F_H_StructureFactor_Partial2) Crystal_F_H_StructureFactor_Partial2(c, E, h, k, l, dw, rel, 1, 2, 0, &q, &e); else q = p; int okq = Crystal_F_H_StructureFactor_Partial2 ? e == NULL : okp; xrl_clear_error(&e);
    fprintf(OUT, ",\"twin\":[[%d,", oka); jd(a.re); fputc(',', OUT); jd(a.im); fprintf(OUT, "],[%d,", okb); jd(b.re); fputc(',', OUT); jd(b.im);
    fprintf(OUT, "],[%d,", okp); jd(p.re); fputc(',', OUT); jd(p.im); fprintf(OUT, "],[%d,", okq); jd(q.re); fputc(',', OUT); jd(q.im); fputs("]]", OUT); }
  fputs(",\"F000\":", OUT); pc(Crystal_F_H_StructureFactor_Partial(c, E, 0, 0, 0, dw, rel, 2, 0, 0, &e), &e);
  fputs("}\n", OUT);
}
/* c13 <part> <nparts> <quick|thorough> */
int cmd_c13(int argc, char **argv) {
  int part = argc > 0 ? atoi(argv[0]) : 0, nparts = argc > 1 ? atoi(argv[1]) : 1, thorough = argc > 2 && !strcmp(argv[2], "thorough");
  int n; char **names = Crystal_GetCrystalsList(NULL, &n, NULL);
  int ncr = n + (thorough ? 40 : 8); int hm = thorough ? 6 : 3; long idx = 0;
  static const double EQ[] = {0.1, 1.0, 3.0, 8.048, 17.44, 40.0, 100.0, 200.0, 0.0, -1.0};
  for (int ci = 0; ci < ncr; ci++) {
    Crystal_Struct *c; Crystal_Struct gen; Crystal_Atom atoms[5]; char nm[16]; Crystal_Array *uarr = NULL; int looked_up = 0;
    if (ci < n) c = Crystal_GetCrystal(names[ci], NULL, NULL);
    else { RNG = 777 + ci; snprintf(nm, sizeof nm, "tri%d", ci); gen.name = nm; gen.a = 3 + 6 * rnd01(); gen.b = 3 + 6 * rnd01(); gen.c = 3 + 8 * rnd01(); gen.alpha = 70 + 40 * rnd01(); gen.beta = 70 + 40 * rnd01(); gen.gamma = 70 + 40 * rnd01();
      gen.n_atom = rndint(1, 5); for (int i = 0; i < gen.n_atom; i++) { atoms[i].Zatom = rndint(1, 92); atoms[i].fraction = rndint(0, 2) ? 1.0 : 0.5; atoms[i].x = rnd01(); atoms[i].y = rnd01(); atoms[i].z = rnd01(); }
      /* one cell per crystal system before the triclinic ones: equal edges and equal angles are where shortcuts live */
      switch (ci - n) {
        case 0: gen.b = gen.c = gen.a; gen.alpha = gen.beta = gen.gamma = 90; break;                       /* cubic */
        case 1: gen.b = gen.a; gen.alpha = gen.beta = gen.gamma = 90; break;                               /* tetragonal */
        case 2: gen.alpha = gen.beta = gen.gamma = 90; break;                                              /* orthorhombic */
        case 3: gen.b = gen.a; gen.alpha = gen.beta = 90; gen.gamma = 120; break;                          /* hexagonal */
        case 4: gen.b = gen.c = gen.a; gen.alpha = gen.beta = gen.gamma = 57.237; break;                   /* rhombohedral */
        case 5: gen.alpha = gen.gamma = 90; break;                                                         /* monoclinic */
        default: break; }
      gen.atom = atoms; gen.volume = Crystal_UnitCellVolume(&gen, NULL); c = &gen;
      /* every other generated cell reaches the functions the way a user's crystal does: edited in place (so its volume field is stale),
       * added to a private collection, and looked up again */
      if ((ci - n) % 2 == 1) { gen.volume = 123.456; uarr = Crystal_ArrayInit(2, NULL); if (uarr && Crystal_AddCrystal(&gen, uarr, NULL) == 1) { Crystal_Struct *g = Crystal_GetCrystal(nm, uarr, NULL); if (g) { c = g; looked_up = 1; } }
        if (!looked_up) gen.volume = Crystal_UnitCellVolume(&gen, NULL); } }
    RNG = 4242 + ci;
    for (int h = -hm; h <= hm; h++) for (int k = -hm; k <= hm; k++) for (int l = -hm; l <= hm; l++) {
      /* quick: every hkl with |.|<=3 on one seeded (E, dw, rel) tuple; thorough: |.|<=6 */
      if (thorough && (abs(h) > 3 || abs(k) > 3 || abs(l) > 3) && rnd01() > 0.2) continue;     /* thorough: all |hkl| <= 3, a seeded 20% of the rest up to 6 */
      if (idx++ % nparts != part) continue;
      for (int rep = 0; rep < (thorough ? 3 : 1); rep++) {
      double E = (thorough ? 0.1 * pow(2000.0, rnd01()) : EQ[rndint(0, 7)]); if (rndint(0, 60) == 0) E = EQ[8 + rndint(0, 1)];
      /* one event in four sits at the threshold of the reflection, hc/E = 2 d, approached from both sides */
      if ((h || k || l) && rndint(0, 3) == 0) { double d = Crystal_dSpacing(c, h, k, l, NULL); if (d > 0) E = KEV2ANGST / (2 * d) * (1.0 + (double[]){-1e-3, -1e-6, -1e-9, 1e-9, 1e-6, 1e-3}[rndint(0, 5)]); }
      double dw = (double[]){1.0, 0.5, 0.9}[rndint(0, 2)]; if (rndint(0, 50) == 0) dw = -0.5;
      double rel = (double[]){1.0, 0.5, 1.2}[rndint(0, 2)];
      event(c, ci < n, h, k, l, E, dw, rel);
      }
    }
    if (ci < n || looked_up) Crystal_Free(c);
    if (uarr) Crystal_ArrayFree(uarr);
  }
  for (int i = 0; i < n; i++) xrlFree(names[i]); xrlFree(names);
  return 0;
}
