/* C15: the four built-in catalogues as observed through every documented way of addressing them,
 * plus copy-independence histories (two copies, one mutated, frees in both orders). */
#include "common.h"
#include <ctype.h>

static void j_nist(struct compoundDataNIST *c) {
  if (!c) { fputs("{\"ok\":false}", OUT); return; }
  fputs("{\"ok\":true,\"name\":", OUT); jstr(c->name);
  fprintf(OUT, ",\"n\":%d,\"el\":[", c->nElements);
  for (int i = 0; i < c->nElements; i++) fprintf(OUT, "%s%d", i ? "," : "", c->Elements[i]);
  fputs("],\"mf\":[", OUT);
  for (int i = 0; i < c->nElements; i++) { if (i) fputc(',', OUT); jd(c->massFractions[i]); }
  fputs("],\"rho\":", OUT); jd(c->density); fputc('}', OUT);
}
static void j_nuc(struct radioNuclideData *c) {
  if (!c) { fputs("{\"ok\":false}", OUT); return; }
  fputs("{\"ok\":true,\"name\":", OUT); jstr(c->name);
  fprintf(OUT, ",\"Z\":%d,\"A\":%d,\"N\":%d,\"Zx\":%d,\"nx\":%d,\"ng\":%d,\"lines\":[", c->Z, c->A, c->N, c->Z_xray, c->nXrays, c->nGammas);
  for (int i = 0; i < c->nXrays; i++) fprintf(OUT, "%s%d", i ? "," : "", c->XrayLines[i]);
  fputs("],\"xi\":[", OUT);
  for (int i = 0; i < c->nXrays; i++) { if (i) fputc(',', OUT); jd(c->XrayIntensities[i]); }
  fputs("],\"ge\":[", OUT);
  for (int i = 0; i < c->nGammas; i++) { if (i) fputc(',', OUT); jd(c->GammaEnergies[i]); }
  fputs("],\"gi\":[", OUT);
  for (int i = 0; i < c->nGammas; i++) { if (i) fputc(',', OUT); jd(c->GammaIntensities[i]); }
  fputs("],\"lineE\":[", OUT);     /* does every listed line have an energy for the daughter element? */
  for (int i = 0; i < c->nXrays; i++) { xrl_error *e = NULL; LineEnergy(c->Z_xray, c->XrayLines[i], &e); fprintf(OUT, "%s%d", i ? "," : "", e == NULL); xrl_clear_error(&e); }
  fputs("]}", OUT);
}
void j_crystal(Crystal_Struct *c) {
  if (!c) { fputs("{\"ok\":false}", OUT); return; }
  fputs("{\"ok\":true,\"name\":", OUT); jstr(c->name);
  fputs(",\"cell\":[", OUT); jd(c->a); fputc(',', OUT); jd(c->b); fputc(',', OUT); jd(c->c); fputc(',', OUT);
  jd(c->alpha); fputc(',', OUT); jd(c->beta); fputc(',', OUT); jd(c->gamma);
  fputs("],\"vol\":", OUT); jd(c->volume);
  fprintf(OUT, ",\"n\":%d,\"atoms\":[", c->n_atom);
  for (int i = 0; i < c->n_atom; i++) {
    Crystal_Atom *a = &c->atom[i];
    fprintf(OUT, "%s{\"Z\":%d,\"f\":", i ? "," : "", a->Zatom); jd(a->fraction);
    fputs(",\"x\":", OUT); jd(a->x); fputs(",\"y\":", OUT); jd(a->y); fputs(",\"z\":", OUT); jd(a->z);
    { xrl_error *e = NULL; FF_Rayl(a->Zatom, 0.1, &e); fprintf(OUT, ",\"ff\":%d}", e == NULL); xrl_clear_error(&e); }
  }
  fputs("]}", OUT);
}
#define NMISS 10
static void near_miss(const char *name, char out[NMISS][256]) {
  snprintf(out[0], 256, "%s ", name);
  snprintf(out[1], 256, " %s", name);
  snprintf(out[2], 256, "%s", name); out[2][strlen(name) - 1] = 0;
  snprintf(out[3], 256, "%s", name); for (char *p = out[3]; *p; p++) *p = isupper((unsigned char)*p) ? tolower((unsigned char)*p) : toupper((unsigned char)*p);
  /* respellings a lenient matcher would let through: numerically equal prefixes (leading zeros, a sign), a trailing digit, a doubled character, trailing blank space of another kind */
  snprintf(out[4], 256, "0%s", name); snprintf(out[5], 256, "00%s", name); snprintf(out[6], 256, "+%s", name); snprintf(out[7], 256, "%s0", name);
  { size_t l = strlen(name), m = l / 2; snprintf(out[8], 256, "%.*s%c%s", (int)m, name, name[m], name + m); }
  snprintf(out[9], 256, "%s\t", name);
}
static void free_list(char **l) { if (!l) return; for (char **p = l; *p; p++) xrlFree(*p); xrlFree(l); }

int cmd_c15(int argc, char **argv) {
  xrl_error *e = NULL; int n; char **list; char nm[NMISS][256];
  /* ---------------- NIST compounds */
  n = -1; list = GetCompoundDataNISTList(&n, &e);
  fprintf(OUT, "{\"k\":\"cat\",\"cat\":\"nist\",\"n\":%d,\"list\":[", n);
  for (int i = 0; list && list[i]; i++) { if (i) fputc(',', OUT); jstr(list[i]); }
  fputs("],\"byidx\":[", OUT);
  for (int i = -2; i <= n + 1; i++) {
    xrl_error *e2 = NULL; struct compoundDataNIST *c = GetCompoundDataNISTByIndex(i, &e2);
    fprintf(OUT, "%s{\"i\":%d,\"err\":%d,\"r\":", i > -2 ? "," : "", i, e2 != NULL); j_nist(c); fputc('}', OUT);
    if (c) FreeCompoundDataNIST(c); xrl_clear_error(&e2);
  }
  fputs("],\"byname\":[", OUT);
  for (int i = 0; i < n; i++) {
    for (int k = -1; k < NMISS; k++) {
      const char *q = list[i]; if (k >= 0) { near_miss(list[i], nm); q = nm[k]; }
      xrl_error *e2 = NULL; struct compoundDataNIST *c = GetCompoundDataNISTByName(q, &e2);
      fprintf(OUT, "%s{\"q\":", (i || k >= 0) ? "," : ""); jstr(q); fprintf(OUT, ",\"i\":%d,\"exact\":%s,\"err\":%d,\"r\":", i, k < 0 ? "true" : "false", e2 != NULL); j_nist(c); fputc('}', OUT);
      if (c) FreeCompoundDataNIST(c); xrl_clear_error(&e2);
    }
  }
  fputs("]}\n", OUT); free_list(list);
  /* ---------------- radionuclides */
  n = -1; list = GetRadioNuclideDataList(&n, &e);
  fprintf(OUT, "{\"k\":\"cat\",\"cat\":\"nuclide\",\"n\":%d,\"list\":[", n);
  for (int i = 0; list && list[i]; i++) { if (i) fputc(',', OUT); jstr(list[i]); }
  fputs("],\"byidx\":[", OUT);
  for (int i = -2; i <= n + 1; i++) {
    xrl_error *e2 = NULL; struct radioNuclideData *c = GetRadioNuclideDataByIndex(i, &e2);
    fprintf(OUT, "%s{\"i\":%d,\"err\":%d,\"r\":", i > -2 ? "," : "", i, e2 != NULL); j_nuc(c); fputc('}', OUT);
    if (c) FreeRadioNuclideData(c); xrl_clear_error(&e2);
  }
  fputs("],\"byname\":[", OUT);
  for (int i = 0; i < n; i++) {
    for (int k = -1; k < NMISS; k++) {
      const char *q = list[i]; if (k >= 0) { near_miss(list[i], nm); q = nm[k]; }
      xrl_error *e2 = NULL; struct radioNuclideData *c = GetRadioNuclideDataByName(q, &e2);
      fprintf(OUT, "%s{\"q\":", (i || k >= 0) ? "," : ""); jstr(q); fprintf(OUT, ",\"i\":%d,\"exact\":%s,\"err\":%d,\"r\":", i, k < 0 ? "true" : "false", e2 != NULL); j_nuc(c); fputc('}', OUT);
      if (c) FreeRadioNuclideData(c); xrl_clear_error(&e2);
    }
  }
  fputs("]}\n", OUT); free_list(list);
  /* ---------------- element table */
  fputs("{\"k\":\"cat\",\"cat\":\"mendel\",\"byZ\":[", OUT);
  for (int Z = -2; Z <= 112; Z++) {
    xrl_error *e2 = NULL; char *s = AtomicNumberToSymbol(Z, &e2);
    fprintf(OUT, "%s{\"Z\":%d,\"err\":%d,\"isnull\":%d,\"sym\":", Z > -2 ? "," : "", Z, e2 != NULL, s == NULL); jstr(s ? s : "");
    if (s) { xrl_error *e3 = NULL; int back = SymbolToAtomicNumber(s, &e3); fprintf(OUT, ",\"back\":%d,\"backerr\":%d", back, e3 != NULL); xrl_clear_error(&e3); }
    else fputs(",\"back\":-1,\"backerr\":-1", OUT);
    fputc('}', OUT); xrlFree(s); xrl_clear_error(&e2);
  }
  fputs("],\"bad\":[", OUT);
  { const char *bad[] = {"", "h", "HE", "Xx", "Uuo", "H ", " H", "Fe2", "D", "J", "A", "Zz", "fe", "CL", "Og", "Nh"};
    for (unsigned i = 0; i < sizeof bad / sizeof *bad; i++) { xrl_error *e2 = NULL; int z = SymbolToAtomicNumber(bad[i], &e2);
      fprintf(OUT, "%s{\"q\":", i ? "," : ""); jstr(bad[i]); fprintf(OUT, ",\"Z\":%d,\"err\":%d}", z, e2 != NULL); xrl_clear_error(&e2); } }
  fputs("]}\n", OUT);
  /* ---------------- built-in crystals */
  n = -1; list = Crystal_GetCrystalsList(NULL, &n, &e);
  fprintf(OUT, "{\"k\":\"cat\",\"cat\":\"crystal\",\"n\":%d,\"list\":[", n);
  for (int i = 0; list && list[i]; i++) { if (i) fputc(',', OUT); jstr(list[i]); }
  fputs("],\"byname\":[", OUT);
  for (int i = 0; i < n; i++) {
    for (int k = -1; k < NMISS; k++) {
      const char *q = list[i]; if (k >= 0) { near_miss(list[i], nm); q = nm[k]; }
      xrl_error *e2 = NULL; Crystal_Struct *c = Crystal_GetCrystal(q, NULL, &e2);
      fprintf(OUT, "%s{\"q\":", (i || k >= 0) ? "," : ""); jstr(q); fprintf(OUT, ",\"i\":%d,\"exact\":%s,\"err\":%d,\"r\":", i, k < 0 ? "true" : "false", e2 != NULL); j_crystal(c); fputc('}', OUT);
      if (c) Crystal_Free(c); xrl_clear_error(&e2);
    }
  }
  fputs("]}\n", OUT); free_list(list);
  /* ---------------- copy independence: two copies, mutate the first, observe the second and a fresh lookup, free in both orders */
  for (int order = 0; order < 2; order++) {
    int nn; char **l = GetCompoundDataNISTList(&nn, NULL);
    for (int i = 0; i < nn; i++) {
      struct compoundDataNIST *a = GetCompoundDataNISTByIndex(i, NULL), *b = GetCompoundDataNISTByName(l[i], NULL);
      fprintf(OUT, "{\"k\":\"copy\",\"cat\":\"nist\",\"i\":%d,\"order\":%d,\"distinct\":%d,\"before\":", i, order,
              a != b && a->name != b->name && a->Elements != b->Elements && a->massFractions != b->massFractions); j_nist(b);
      a->name[0] = '#'; a->Elements[0] = 77; a->massFractions[0] = -1.5; a->density = -2.0; a->nElements = 1;
      fputs(",\"after\":", OUT); j_nist(b);
      struct compoundDataNIST *c = GetCompoundDataNISTByIndex(i, NULL); fputs(",\"fresh\":", OUT); j_nist(c); fputs("}\n", OUT);
      if (order) { FreeCompoundDataNIST(b); FreeCompoundDataNIST(a); } else { FreeCompoundDataNIST(a); FreeCompoundDataNIST(b); }
      FreeCompoundDataNIST(c);
    }
    free_list(l);
    l = GetRadioNuclideDataList(&nn, NULL);
    for (int i = 0; i < nn; i++) {
      struct radioNuclideData *a = GetRadioNuclideDataByIndex(i, NULL), *b = GetRadioNuclideDataByName(l[i], NULL);
      fprintf(OUT, "{\"k\":\"copy\",\"cat\":\"nuclide\",\"i\":%d,\"order\":%d,\"distinct\":%d,\"before\":", i, order,
              a != b && a->name != b->name && a->XrayLines != b->XrayLines && a->XrayIntensities != b->XrayIntensities && a->GammaEnergies != b->GammaEnergies && a->GammaIntensities != b->GammaIntensities); j_nuc(b);
      a->name[0] = '#'; a->XrayLines[0] = 77; a->XrayIntensities[0] = -1.5; a->GammaEnergies[0] = -2.0; a->GammaIntensities[0] = -3; a->Z = 1; a->nXrays = 1;
      fputs(",\"after\":", OUT); j_nuc(b);
      struct radioNuclideData *c = GetRadioNuclideDataByIndex(i, NULL); fputs(",\"fresh\":", OUT); j_nuc(c); fputs("}\n", OUT);
      if (order) { FreeRadioNuclideData(b); FreeRadioNuclideData(a); } else { FreeRadioNuclideData(a); FreeRadioNuclideData(b); }
      FreeRadioNuclideData(c);
    }
    free_list(l);
    l = Crystal_GetCrystalsList(NULL, &nn, NULL);
    for (int i = 0; i < nn; i++) {
      Crystal_Struct *a = Crystal_GetCrystal(l[i], NULL, NULL), *b = Crystal_GetCrystal(l[i], NULL, NULL);
      fprintf(OUT, "{\"k\":\"copy\",\"cat\":\"crystal\",\"i\":%d,\"order\":%d,\"distinct\":%d,\"before\":", i, order, a != b && a->name != b->name && a->atom != b->atom); j_crystal(b);
      a->name[0] = '#'; a->a = -1; a->volume = -5; a->atom[0].Zatom = 77; a->atom[0].x = 9.5; a->n_atom = 1;
      fputs(",\"after\":", OUT); j_crystal(b);
      Crystal_Struct *c = Crystal_GetCrystal(l[i], NULL, NULL); fputs(",\"fresh\":", OUT); j_crystal(c);
      Crystal_Struct *d = Crystal_MakeCopy(b, NULL); b->atom[0].y = 7.25; fputs(",\"mk\":", OUT); j_crystal(d); b->atom[0].y = c->atom[0].y; fputs("}\n", OUT);
      if (order) { Crystal_Free(b); Crystal_Free(a); } else { Crystal_Free(a); Crystal_Free(b); }
      Crystal_Free(c); Crystal_Free(d);
    }
    free_list(l);
    for (int Z = 1; Z <= 107; Z++) {
      char *a = AtomicNumberToSymbol(Z, NULL), *b = AtomicNumberToSymbol(Z, NULL);
      fprintf(OUT, "{\"k\":\"copy\",\"cat\":\"mendel\",\"i\":%d,\"order\":%d,\"distinct\":%d,\"before\":{\"ok\":true,\"name\":", Z, order, a != b); jstr(b);
      a[0] = '#'; fputs("},\"after\":{\"ok\":true,\"name\":", OUT); jstr(b);
      char *c = AtomicNumberToSymbol(Z, NULL); fputs("},\"fresh\":{\"ok\":true,\"name\":", OUT); jstr(c); fputs("}}\n", OUT);
      if (order) { xrlFree(b); xrlFree(a); } else { xrlFree(a); xrlFree(b); } xrlFree(c);
    }
  }
  xrl_clear_error(&e);
  return 0;
}
