import tlc2.overrides.ITLCOverrides;
public class XrlOverrides implements ITLCOverrides {
  @SuppressWarnings("rawtypes")
  public Class[] get() { return new Class[] { FPImpl.class }; }
}
