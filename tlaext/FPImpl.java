import tlc2.overrides.TLAPlusOperator;
import tlc2.value.impl.*;
import java.math.BigDecimal;
import java.math.MathContext;
import java.math.RoundingMode;

/** IEEE-754 primitives for module FP.  Only primitives live here: no formula of the specification. */
public class FPImpl {
  static double d(Value v) {
    TupleValue t = (TupleValue) v.toTuple();
    long hi = ((IntValue) t.elems[0]).val; long lo = ((IntValue) t.elems[1]).val;
    return Double.longBitsToDouble((hi << 32) | (lo & 0xffffffffL));
  }
  static Value v(double x) {
    long b = Double.doubleToRawLongBits(x);
    return new TupleValue(IntValue.gen((int) (b >> 32)), IntValue.gen((int) b));
  }
  static Value b(boolean x) { return x ? BoolValue.ValTrue : BoolValue.ValFalse; }

  @TLAPlusOperator(identifier="F", module="FP", warn=false) public static Value F(StringValue s) { return v(Double.parseDouble(s.val.toString().trim())); }
  @TLAPlusOperator(identifier="FI", module="FP", warn=false) public static Value FI(IntValue n) { return v((double) n.val); }
  @TLAPlusOperator(identifier="FAdd", module="FP", warn=false) public static Value FAdd(Value a, Value c) { return v(d(a) + d(c)); }
  @TLAPlusOperator(identifier="FSub", module="FP", warn=false) public static Value FSub(Value a, Value c) { return v(d(a) - d(c)); }
  @TLAPlusOperator(identifier="FMul", module="FP", warn=false) public static Value FMul(Value a, Value c) { return v(d(a) * d(c)); }
  @TLAPlusOperator(identifier="FDiv", module="FP", warn=false) public static Value FDiv(Value a, Value c) { return v(d(a) / d(c)); }
  @TLAPlusOperator(identifier="FNeg", module="FP", warn=false) public static Value FNeg(Value a) { return v(-d(a)); }
  @TLAPlusOperator(identifier="FAbs", module="FP", warn=false) public static Value FAbs(Value a) { return v(Math.abs(d(a))); }
  @TLAPlusOperator(identifier="FSqrt", module="FP", warn=false) public static Value FSqrt(Value a) { return v(Math.sqrt(d(a))); }
  @TLAPlusOperator(identifier="FExp", module="FP", warn=false) public static Value FExp(Value a) { return v(StrictMath.exp(d(a))); }
  @TLAPlusOperator(identifier="FLog", module="FP", warn=false) public static Value FLog(Value a) { return v(StrictMath.log(d(a))); }
  @TLAPlusOperator(identifier="FExpm1", module="FP", warn=false) public static Value FExpm1(Value a) { return v(StrictMath.expm1(d(a))); }
  @TLAPlusOperator(identifier="FLog1p", module="FP", warn=false) public static Value FLog1p(Value a) { return v(StrictMath.log1p(d(a))); }
  @TLAPlusOperator(identifier="FSin", module="FP", warn=false) public static Value FSin(Value a) { return v(StrictMath.sin(d(a))); }
  @TLAPlusOperator(identifier="FCos", module="FP", warn=false) public static Value FCos(Value a) { return v(StrictMath.cos(d(a))); }
  @TLAPlusOperator(identifier="FTan", module="FP", warn=false) public static Value FTan(Value a) { return v(StrictMath.tan(d(a))); }
  @TLAPlusOperator(identifier="FAsin", module="FP", warn=false) public static Value FAsin(Value a) { return v(StrictMath.asin(d(a))); }
  @TLAPlusOperator(identifier="FAcos", module="FP", warn=false) public static Value FAcos(Value a) { return v(StrictMath.acos(d(a))); }
  @TLAPlusOperator(identifier="FAtan", module="FP", warn=false) public static Value FAtan(Value a) { return v(StrictMath.atan(d(a))); }
  @TLAPlusOperator(identifier="FPow", module="FP", warn=false) public static Value FPow(Value a, Value c) { return v(StrictMath.pow(d(a), d(c))); }
  @TLAPlusOperator(identifier="FMax", module="FP", warn=false) public static Value FMax(Value a, Value c) { return v(Math.max(d(a), d(c))); }
  @TLAPlusOperator(identifier="FMin", module="FP", warn=false) public static Value FMin(Value a, Value c) { return v(Math.min(d(a), d(c))); }
  @TLAPlusOperator(identifier="FSum", module="FP", warn=false) public static Value FSum(Value s) {
    TupleValue t = (TupleValue) s.toTuple(); double acc = 0.0;
    for (int i = 0; i < t.elems.length; i++) acc += d(t.elems[i]);
    return v(acc);
  }
  @TLAPlusOperator(identifier="FLt", module="FP", warn=false) public static Value FLt(Value a, Value c) { return b(d(a) < d(c)); }
  @TLAPlusOperator(identifier="FLe", module="FP", warn=false) public static Value FLe(Value a, Value c) { return b(d(a) <= d(c)); }
  @TLAPlusOperator(identifier="FEq", module="FP", warn=false) public static Value FEq(Value a, Value c) { return b(d(a) == d(c)); }
  @TLAPlusOperator(identifier="FIsFinite", module="FP", warn=false) public static Value FIsFinite(Value a) { double x = d(a); return b(!Double.isNaN(x) && !Double.isInfinite(x)); }
  @TLAPlusOperator(identifier="FIsNaN", module="FP", warn=false) public static Value FIsNaN(Value a) { return b(Double.isNaN(d(a))); }
  @TLAPlusOperator(identifier="FClose", module="FP", warn=false) public static Value FClose(Value a, Value c, Value rel, Value abs) {
    double x = d(a), y = d(c);
    if (Double.isNaN(x) || Double.isNaN(y) || Double.isInfinite(x) || Double.isInfinite(y)) return b(false);
    return b(Math.abs(x - y) <= d(rel) * Math.max(Math.abs(x), Math.abs(y)) + d(abs));
  }
  static final MathContext MC11 = new MathContext(11, RoundingMode.HALF_EVEN);
  @TLAPlusOperator(identifier="FRound11", module="FP", warn=false) public static Value FRound11(Value a) {
    double x = d(a);
    if (Double.isNaN(x) || Double.isInfinite(x) || x == 0.0) return v(x);
    return v(new BigDecimal(x).round(MC11).doubleValue());
  }
  @TLAPlusOperator(identifier="FRoundF6", module="FP", warn=false) public static Value FRoundF6(Value a) {
    double x = d(a);
    if (Double.isNaN(x) || Double.isInfinite(x) || x == 0.0) return v(x);
    return v(new BigDecimal(x).setScale(6, RoundingMode.HALF_EVEN).doubleValue());
  }
  @TLAPlusOperator(identifier="FRound32", module="FP", warn=false) public static Value FRound32(Value a) { return v((double) (float) d(a)); }
  @TLAPlusOperator(identifier="FStr", module="FP", warn=false) public static Value FStr(Value a) { return new StringValue(Double.toString(d(a))); }
  @TLAPlusOperator(identifier="FUlps", module="FP", warn=false) public static Value FUlps(Value a, Value c) {
    double x = d(a), y = d(c);
    if (Double.isNaN(x) || Double.isNaN(y)) return IntValue.gen(1000000);
    long bx = Double.doubleToLongBits(x), by = Double.doubleToLongBits(y);
    if (bx < 0) bx = Long.MIN_VALUE - bx; if (by < 0) by = Long.MIN_VALUE - by;
    long dd = Math.abs(bx - by); if (dd < 0 || dd > 1000000) dd = 1000000;
    return IntValue.gen((int) dd);
  }
  @TLAPlusOperator(identifier="FToInt", module="FP", warn=false) public static Value FToInt(Value a) { return IntValue.gen((int) d(a)); }
}
