----------------------------- MODULE XrlXRFJump -----------------------------
(***************************************************************************)
(* C09.  Jump-ratio XRF cross sections:                                    *)
(*    shell = photo cross section x share of the sub-shell x yield         *)
(*    line  = shell(line) x radiative rate;  L-beta = sum over its members *)
(* The share is derived from the jump ratios J of the edges lying below E  *)
(* and the Coster-Kronig feeding from the higher L sub-shells.  All        *)
(* primitives are the values the library itself returns.                   *)
(***************************************************************************)
EXTENDS XrlLines
NA == F(DecMacro.AVOGNUM)
Tol9 == F("1e-11")
PVal(p) == p[2]
POk(p) == p[1] = 1
Val_(x) == [ok |-> TRUE, v |-> x]
Fail == [ok |-> FALSE]
\* tau(J) = (J - 1)/J : the fraction of the absorption above an edge that belongs to that edge
Tau(J) == FDiv(FSub(J, One), J)
Opt(p) == IF p[1] = 1 THEN p[2] ELSE FI(0)       \* an unavailable quantity multiplies a vanishing tau
\* ev: the per-Z event; shell s in 0..3 (K, L1, L2, L3); E a double.  Returns Val_(share * yield) or Fail.
ShareYield(ev, s, E) ==
  LET edge(i) == ev.edge[i + 1] jump(i) == ev.jump[i + 1] yld(i) == ev.yield[i + 1]
      above(i) == POk(edge(i)) /\ FGt(E, PVal(edge(i)))
      f12 == ev.ck[1] f13 == ev.ck[2] fp13 == ev.ck[3] f23 == ev.ck[4]
      J(i) == PVal(jump(i))
      \* photo-absorption above the K edge is shared with K: everything below gets 1/J_K
      kfac == IF above(0) THEN (IF POk(jump(0)) THEN Val_(FDiv(One, J(0))) ELSE Fail) ELSE Val_(One)
      finish(k, share, i) == IF ~k.ok \/ ~POk(yld(i)) THEN Fail
                             ELSE LET r == FMul(FMul(k.v, share), PVal(yld(i))) IN IF FPos(r) THEN Val_(r) ELSE Fail    \* a vanishing share is "unavailable"
  IN CASE s = 0 -> IF ~above(0) \/ ~POk(jump(0)) \/ ~POk(yld(0)) THEN Fail
                   ELSE LET r == FMul(Tau(J(0)), PVal(yld(0))) IN IF FPos(r) THEN Val_(r) ELSE Fail
       [] s = 1 -> IF ~above(1) \/ ~POk(jump(1)) THEN Fail ELSE finish(kfac, Tau(J(1)), 1)
       \* a Coster-Kronig probability is REQUIRED only where the vacancies it would transfer exist (its tau is positive)
       [] s = 2 -> IF above(1) THEN (IF ~POk(jump(1)) \/ ~POk(jump(2)) THEN Fail
                                     ELSE LET t1 == Tau(J(1)) t2 == FDiv(FSub(J(2), One), FMul(J(2), J(1))) IN
                                          IF FPos(t1) /\ ~POk(f12) THEN Fail
                                          ELSE finish(kfac, FAdd(t2, FMul(t1, Opt(f12))), 2))
                   ELSE IF above(2) THEN (IF ~POk(jump(2)) THEN Fail ELSE finish(kfac, Tau(J(2)), 2))
                   ELSE Fail
       [] s = 3 -> IF above(1) THEN (IF ~POk(jump(1)) \/ ~POk(jump(2)) \/ ~POk(jump(3)) THEN Fail
                                     ELSE LET t1 == Tau(J(1)) t2 == FDiv(FSub(J(2), One), FMul(J(2), J(1))) t3 == FDiv(FSub(J(3), One), FMul(FMul(J(3), J(2)), J(1)))
                                              f13s == FAdd(Opt(f13), Opt(fp13))
                                          IN IF (FPos(t2) /\ ~POk(f23)) \/ (FPos(t1) /\ (~POk(f12) \/ ~POk(f23) \/ ~(POk(f13) \/ POk(fp13)))) THEN Fail
                                             ELSE finish(kfac, FAdd(FAdd(t3, FMul(t2, Opt(f23))), FMul(t1, FAdd(f13s, FMul(Opt(f12), Opt(f23))))), 3))
                   ELSE IF above(2) THEN (IF ~POk(jump(2)) \/ ~POk(jump(3)) THEN Fail
                                          ELSE LET t2 == Tau(J(2)) IN
                                               IF FPos(t2) /\ ~POk(f23) THEN Fail
                                               ELSE finish(kfac, FAdd(FDiv(FSub(J(3), One), FMul(J(3), J(2))), FMul(t2, Opt(f23))), 3))
                   ELSE IF above(3) THEN (IF ~POk(jump(3)) THEN Fail ELSE finish(kfac, Tau(J(3)), 3))
                   ELSE Fail
ShellWant(ev, at, s) ==
  IF s \notin 0..3 \/ ~FPos(at.E) \/ ~POk(at.photo) THEN Fail
  ELSE LET sy == ShareYield(ev, s, at.E) IN IF sy.ok THEN Val_(FMul(PVal(at.photo), sy.v)) ELSE Fail
\* ---- lines: the shell a line belongs to, from its NAME
LineShell(n) == LET st == Stem(n) IN
                IF SubSeq(st, 1, 1) = "K" THEN 0
                ELSE IF Len(st) >= 2 /\ SubSeq(st, 1, 2) = "L1" THEN 1 ELSE IF Len(st) >= 2 /\ SubSeq(st, 1, 2) = "L2" THEN 2
                ELSE IF Len(st) >= 2 /\ SubSeq(st, 1, 2) = "L3" THEN 3 ELSE 0 - 1
RowOk(row, m) == m >= row.lo /\ m <= row.hi /\ row.ok[m - row.lo + 1] = 1
RowVal(row, m) == row.v[m - row.lo + 1]
\* the shell cross section as the library returns it at this energy
LibShell(at, s) == IF s \in 0..3 /\ RowOk(at.shell, s) THEN Val_(RowVal(at.shell, s)) ELSE Fail
LBSum(at, M) == LET s == SetToSeq(M) oks == { i \in 1..Len(s) : RowOk(at.line, LineMacro[s[i]]) } IN
                IF oks = {} THEN Fail ELSE Val_(FSum([i \in 1..Len(s) |-> IF i \in oks THEN RowVal(at.line, LineMacro[s[i]]) ELSE Zero]))
\* expected outcomes (a set: L-beta membership admits two readings) of CS_FluorLine(Z, m, E)
LineWant(ev, at, m) ==
  IF m \notin LineValues \cup {0, 1, 2, 3} THEN {Fail}
  ELSE IF m = 3 THEN (IF POk(at.photo) THEN { LBSum(at, LBMembers11), LBSum(at, LBMembers13) } ELSE {Fail})
  ELSE LET sh == IF m = 0 \/ m = 1 THEN 0 ELSE IF m = 2 THEN 3 ELSE LineShell(LineNameOf[m])
           ls == LibShell(at, sh)
       IN IF sh < 0 \/ ~RowOk(ev.RR, m) \/ ~ls.ok THEN {Fail} ELSE { Val_(FMul(RowVal(ev.RR, m), ls.v)) }
Barn(ev, r) == IF r.ok /\ POk(ev.aw) THEN Val_(FDiv(FMul(r.v, PVal(ev.aw)), NA)) ELSE Fail
Agree9(want, ok, v) == IF want.ok THEN ok /\ FClose(v, want.v, Tol9, Zero) ELSE ~ok
=============================================================================
