CONSTANTS
 Emit = FALSE
 MaxOps = 6
SPECIFICATION Spec
VIEW View
PROPERTY FirstErrorWins
PROPERTY OnlyClearEmpties
PROPERTY OverCounted
PROPERTY PropagateMoves
CHECK_DEADLOCK FALSE
