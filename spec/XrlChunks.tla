----------------------------- MODULE XrlChunks -----------------------------
(***************************************************************************)
(* Trace validation of INDEPENDENT events (pure queries): the recorded     *)
(* events are cut into chunks; the state graph is root -> one state per    *)
(* chunk; the invariant judges every event of the chunk.  Judgement is     *)
(* total: a rejected event prints one line "MISMATCH {json}" and the run   *)
(* goes on, so that one finding never hides the events behind it.          *)
(* B(i, ev) is the set of mismatch records of event number i; a trace      *)
(* module EXTENDS this one and states  Judged == JudgedWith(BadOf).        *)
(***************************************************************************)
EXTENDS Integers, Sequences, FiniteSets, TLC, Json, IOUtils
VARIABLE c
Tr  == ndJsonDeserialize(IOEnv.XRL_TRACE)
CH  == 50
NCH == (Len(Tr) + CH - 1) \div CH
ChunkLines(k) == ((k - 1) * CH + 1)..(IF k * CH < Len(Tr) THEN k * CH ELSE Len(Tr))
Init == c = 0
Next == c = 0 /\ \E k \in 1..NCH : c' = k
ReportWith(B(_, _), k) == \A i \in ChunkLines(k) :
               LET b == B(i, Tr[i]) IN
               \A r \in b : PrintT("MISMATCH " \o ToJson(r))
JudgedWith(B(_, _)) == c > 0 => ReportWith(B, c)
Done == TLCGet("stats").distinct = NCH + 1 /\ PrintT("JUDGED " \o ToString(Len(Tr)) \o " events in " \o ToString(NCH) \o " chunks")
============================================================================
