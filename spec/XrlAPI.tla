------------------------------- MODULE XrlAPI -------------------------------
(***************************************************************************)
(* The signature table of the public API: for every exported entry point   *)
(* the kind of its result, which fixes the sentinel returned on failure    *)
(* and the values allowed on success (C03), whether the caller owns the    *)
(* result (C04) and whether it is a query (C16, C17).  A function declared *)
(* in a header and absent from this table is itself reported.              *)
(***************************************************************************)
EXTENDS Integers, Sequences, FiniteSets
\* strictly positive physical quantities: 0 only together with an error
KindP == {
  "AtomicWeight", "ElementDensity", "EdgeEnergy", "LineEnergy", "FluorYield", "JumpFactor", "CosKronTransProb", "RadRate",
  "AtomicLevelWidth", "AugerRate", "AugerYield", "ElectronConfig", "ElectronConfig_Biggs",
  "CS_Total", "CS_Photo", "CS_Rayl", "CS_Compt", "CS_Energy", "CSb_Total", "CSb_Photo", "CSb_Rayl", "CSb_Compt", "CS_KN",
  "DCS_Thoms", "DCS_KN", "ComptonEnergy", "DCS_Rayl", "DCS_Compt", "DCSb_Rayl", "DCSb_Compt",
  "SF_Compt", "ComptonProfile", "ComptonProfile_Partial",
  "CS_Photo_Total", "CSb_Photo_Total", "CS_Photo_Partial", "CSb_Photo_Partial", "CS_Total_Kissel", "CSb_Total_Kissel",
  "CS_FluorLine", "CSb_FluorLine", "CS_FluorShell", "CSb_FluorShell",
  "CS_FluorLine_Kissel", "CSb_FluorLine_Kissel", "CS_FluorLine_Kissel_Cascade", "CSb_FluorLine_Kissel_Cascade",
  "CS_FluorLine_Kissel_Nonradiative_Cascade", "CSb_FluorLine_Kissel_Nonradiative_Cascade",
  "CS_FluorLine_Kissel_Radiative_Cascade", "CSb_FluorLine_Kissel_Radiative_Cascade",
  "CS_FluorLine_Kissel_no_Cascade", "CSb_FluorLine_Kissel_no_Cascade",
  "CS_FluorShell_Kissel", "CSb_FluorShell_Kissel", "CS_FluorShell_Kissel_Cascade", "CSb_FluorShell_Kissel_Cascade",
  "CS_FluorShell_Kissel_Nonradiative_Cascade", "CSb_FluorShell_Kissel_Nonradiative_Cascade",
  "CS_FluorShell_Kissel_Radiative_Cascade", "CSb_FluorShell_Kissel_Radiative_Cascade",
  "CS_FluorShell_Kissel_no_Cascade", "CSb_FluorShell_Kissel_no_Cascade",
  "CS_Total_CP", "CS_Photo_CP", "CS_Rayl_CP", "CS_Compt_CP", "CSb_Total_CP", "CSb_Photo_CP", "CSb_Rayl_CP", "CSb_Compt_CP", "CS_Energy_CP",
  "DCS_Rayl_CP", "DCS_Compt_CP", "DCSb_Rayl_CP", "DCSb_Compt_CP",
  "CS_Photo_Total_CP", "CSb_Photo_Total_CP", "CS_Total_Kissel_CP", "CSb_Total_Kissel_CP",
  "Refractive_Index_Im", "Crystal_dSpacing", "Crystal_UnitCellVolume", "Bragg_angle" }
\* non-negative quantities: 0 is a legitimate value (polarised terms vanish at theta = pi/2, phi = 0; form factors at large q; (000))
KindN == {
  "DCSP_Thoms", "DCSP_KN", "DCSP_Rayl", "DCSP_Compt", "DCSPb_Rayl", "DCSPb_Compt",
  "DCSP_Rayl_CP", "DCSP_Compt_CP", "DCSPb_Rayl_CP", "DCSPb_Compt_CP", "FF_Rayl", "Q_scattering_amplitude", "c_abs" }
\* signed quantities
KindS == { "Fi", "Fii", "MomentTransf", "Refractive_Index_Re" }
\* complex results
KindC == { "Refractive_Index", "Crystal_F_H_StructureFactor", "Crystal_F_H_StructureFactor_Partial", "c_mul" }
\* integer status / value: 0 on failure
KindI == { "SymbolToAtomicNumber", "Atomic_Factors", "Crystal_AddCrystal", "Crystal_ReadFile", "xrl_error_matches", "GetExitStatus", "GetErrorMessages" }
\* constructors: the caller owns the result; NULL on failure
KindO == {
  "CompoundParser", "add_compound_data", "AtomicNumberToSymbol", "GetCompoundDataNISTByName", "GetCompoundDataNISTByIndex",
  "GetCompoundDataNISTList", "GetRadioNuclideDataByName", "GetRadioNuclideDataByIndex", "GetRadioNuclideDataList",
  "Crystal_ArrayInit", "Crystal_MakeCopy", "Crystal_GetCrystal", "Crystal_GetCrystalsList",
  "xrl_error_new", "xrl_error_new_literal", "xrl_error_new_valist", "xrl_error_copy", "xrl_strdup", "xrl_strndup", "xrl_malloc" }
\* release functions and functions without a result
KindV == {
  "FreeCompoundData", "FreeCompoundDataNIST", "FreeRadioNuclideData", "Crystal_Free", "Crystal_ArrayFree", "xrlFree", "xrl_error_free",
  "xrl_clear_error", "xrl_propagate_error", "xrl_set_error", "xrl_set_error_literal", "XRayInit", "SetHardExit", "SetExitStatus", "SetErrorMessages" }
Classified == KindP \cup KindN \cup KindS \cup KindC \cup KindI \cup KindO \cup KindV
KindOf(fn) == CASE fn \in KindP -> "P" [] fn \in KindN -> "N" [] fn \in KindS -> "S" [] fn \in KindC -> "C"
                [] fn \in KindI -> "I" [] fn \in KindO -> "O" [] fn \in KindV -> "V" [] OTHER -> "?"
KindsDisjoint == Cardinality(Classified) = Cardinality(KindP) + Cardinality(KindN) + Cardinality(KindS) + Cardinality(KindC)
                                            + Cardinality(KindI) + Cardinality(KindO) + Cardinality(KindV)
\* entry points that change library state or hand out ownership are not queries
Mutators == { "Crystal_AddCrystal", "Crystal_ReadFile", "Crystal_ArrayFree", "Crystal_Free", "FreeCompoundData", "FreeCompoundDataNIST",
              "FreeRadioNuclideData", "xrlFree", "xrl_error_free", "xrl_clear_error", "xrl_propagate_error", "xrl_set_error", "xrl_set_error_literal" }
IsQuery(fn) == fn \in Classified \ (Mutators \cup KindO \cup KindV)
=============================================================================
