------------------------------ MODULE MC_C14 ------------------------------
(***************************************************************************)
(* C14, specification side: exhaustive exploration of XrlCrystalArrays     *)
(* with small constants.  Two configurations share this module:            *)
(*   MC_C14.cfg      invariants + action properties, larger bounds;        *)
(*   MC_C14_emit.cfg smaller bounds, and every transition of the graph is  *)
(*                   printed as a program ("EDGE" lines: the path to the   *)
(*                   source state, then the operation) that the harness    *)
(*                   replays into the real library.                        *)
(***************************************************************************)
EXTENDS Integers, Sequences, FiniteSets, TLC, Json
CONSTANTS NH, NamePool, Geoms, NC, MaxOps, Delta, MCCAP, MaxFile, Emit
VARIABLES st, hist, room
MCVol(g) == 10 * g + 7
RECURSIVE MCGrow(_, _)
MCGrow(alloc, need) == IF alloc >= need THEN alloc ELSE MCGrow(alloc + Delta, need)
MCMutated(c) == [c EXCEPT !.geom = 0 - 1, !.name = "#", !.vol = 0 - 7]
CA == INSTANCE XrlCrystalArrays WITH VolOf <- MCVol, Grow <- MCGrow, CAP <- MCCAP, Mutated <- MCMutated
Handles == 1..NH
CopyIds == 1..NC
Crystal(n, g) == [name |-> n, geom |-> g, atoms |-> <<>>, vol |-> 0 - 1]
Crystals == { Crystal(n, g) : n \in NamePool, g \in Geoms }
FileCrystals == { Crystal(n, 1) : n \in NamePool }
Files == UNION { [1..k -> FileCrystals] : k \in 1..MaxFile }
BadKinds == {"none", "noname", "noucell", "badatom", "eof", "nofile"}
Ops ==
  [op : {"ArrayInit"}, h : Handles, n : {0 - 1, 0, 1, 2}]
  \cup [op : {"Add"}, h : {0} \cup Handles, c : Crystals]
  \cup [op : {"ReadFile"}, h : {0} \cup Handles, entries : Files, bad : BadKinds]
  \cup [op : {"Get"}, h : {0} \cup Handles, name : NamePool, id : CopyIds]
  \cup [op : {"List", "Audit"}, h : {0} \cup Handles]
  \cup [op : {"MakeCopy"}, src : CopyIds, id : CopyIds]
  \cup [op : {"Mutate", "FreeCopy"}, id : CopyIds]
  \cup [op : {"ArrayFree"}, h : Handles]
\* the built-in collection starts with some entries of its own and `room` free places
Fixed(k) == { CA!Stored(Crystal("zz" \o ToString(i), 1)) : i \in 1..k }
Init == /\ room \in 0..2
        /\ st = [arr |-> [h \in Handles |-> CA!Dead], bi |-> [alloc |-> MCCAP, dict |-> Fixed(MCCAP - room)], cp |-> [i \in CopyIds |-> CA!Dead]]
        /\ hist = <<>>
Next == /\ Len(hist) < MaxOps
        /\ \E op \in Ops :
             /\ CA!Legal(st, op)
             /\ \E o \in CA!Outcomes(st, op) :
                  /\ st' = o.st /\ hist' = Append(hist, op) /\ room' = room
                  /\ (Emit => PrintT("EDGE " \o ToJson([room |-> room, pre |-> hist, op |-> op, ok |-> o.res.ok])))
View == <<st, room>>
Consistent == CA!Consistent(st)
ActionProps == \A op \in Ops : CA!Legal(st, op) => CA!FailureLeavesUnchanged(st, op) /\ CA!QueriesArePure(st, op) /\ CA!BuiltinDiscipline(st, op)
\* copies never alias a collection: whatever is done to copies, a later lookup returns the stored crystal
CopiesIndependent == \A h \in Handles : st.arr[h].live => \A c \in st.arr[h].dict : c.name # "#" /\ c.geom # 0 - 1
===========================================================================
