------------------------------ MODULE XrlWrapCxx ------------------------------
(***************************************************************************)
(* C18.  The C++ wrappers as a refinement mapping of the C API:            *)
(*   Wrap(fn)(args) = IF C.ok THEN Return(C.value)                         *)
(*                    ELSE Throw(Class(C.code), C.message)                 *)
(*   Class(MEMORY) = bad_alloc, Class(INVALID_ARGUMENT) = invalid_argument,*)
(*   every other code = runtime_error;                                     *)
(* objects are converted field by field; neither path leaves a C object or *)
(* a C error behind (ledger of XrlHeap: change of live blocks = 0).        *)
(* Judged on folded observation classes of (C outcome, C++ outcome).       *)
(***************************************************************************)
EXTENDS Integers, Sequences, TLC
Class(code) == CASE code = 0 -> "bad_alloc" [] code = 1 -> "invalid_argument" [] OTHER -> "runtime_error"
ClassWhy(ev) ==
  IF ev.leak_c # 0 THEN "the C call itself left memory behind (see C04)"
  ELSE IF ev.c_ok = 1 THEN
         (IF ev.thrown # "none" THEN "C succeeded but the wrapper threw " \o ev.thrown
          ELSE IF ev.same_value # 1 THEN "wrapper returned a different value / object than the C function"
          ELSE IF ev.leak_cxx # 0 THEN "wrapper leaked library memory on the return path" ELSE "")
  ELSE (IF ev.thrown = "none" THEN "C reported an error but the wrapper did not throw"
        ELSE IF ev.thrown # Class(ev.c_code) THEN "wrong exception class: " \o ev.thrown \o " for error code " \o ToString(ev.c_code)
        ELSE IF ev.same_msg # 1 THEN "exception does not carry the C message"
        ELSE IF ev.leak_cxx # 0 THEN "wrapper leaked the C error (or object) on the throw path" ELSE "")
===============================================================================
