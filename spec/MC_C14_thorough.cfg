CONSTANTS
 NH = 2
 NamePool = {"A", "B", "C"}
 Geoms = {1, 2}
 NC = 2
 MaxOps = 6
 Delta = 2
 MCCAP = 3
 MaxFile = 2
 Emit = FALSE
INIT Init
NEXT Next
VIEW View
INVARIANT Consistent
INVARIANT ActionProps
INVARIANT CopiesIndependent
CHECK_DEADLOCK FALSE
