----------------------------- MODULE Trace_C03 -----------------------------
(* C03 conformance, part 2: every distinct observation class of every exported function is judged. *)
EXTENDS XrlErr, XrlChunks
BadOf(i, ev) ==
  IF ev.k = "cls" THEN (IF ClassWhy(ev) = "" THEN {} ELSE {[prop |-> "C03", line |-> i, fn |-> ev.fn, why |-> ClassWhy(ev), argc |-> ev.argc, ret |-> ev.ret, slot |-> ev.slot, code |-> ev.code, n |-> ev.n, witness |-> ev.w]})
  ELSE IF ev.k \in {"drove", "other"} THEN (IF ev.fn \in Classified THEN {} ELSE {[prop |-> "C03", note |-> TRUE, line |-> i, fn |-> ev.fn, why |-> "function declared in a public header is not in the XrlAPI table: judged by the rules every function obeys (finite result, error iff sentinel), not by a kind of its own"]})
  ELSE {}
Judged == JudgedWith(BadOf)
Static == c = 0 => (KindsDisjoint \/ PrintT("MISMATCH " \o ToJson([prop |-> "C03", layer |-> "spec", why |-> "XrlAPI kinds overlap"])))
============================================================================
