--------------------------- MODULE XrlCrystalMath ---------------------------
(***************************************************************************)
(* C13 / C14.  Crystal geometry from the metric tensor of the cell         *)
(* (a, b, c in Angstrom; alpha, beta, gamma in degrees): an independent    *)
(* form, not the library's closed expression.                              *)
(***************************************************************************)
EXTENDS XrlFacts, FP
Pi == F(DecMacro.PI)
DegRad == FDiv(Pi, F("180.0"))
CosD(x) == FCos(FMul(x, DegRad))
SinD(x) == FSin(FMul(x, DegRad))
Det3(m) == FSub(FAdd(FAdd(FMul(m[1][1], FMul(m[2][2], m[3][3])), FMul(m[1][2], FMul(m[2][3], m[3][1]))), FMul(m[1][3], FMul(m[2][1], m[3][2]))),
                FAdd(FAdd(FMul(m[1][3], FMul(m[2][2], m[3][1])), FMul(m[1][2], FMul(m[2][1], m[3][3]))), FMul(m[1][1], FMul(m[2][3], m[3][2]))))
\* metric tensor G_ij = a_i . a_j of cell <<a, b, c, alpha, beta, gamma>>
Metric(cell) ==
  LET a == cell[1] b == cell[2] c == cell[3]
      ca == CosD(cell[4]) cb == CosD(cell[5]) cg == CosD(cell[6])
  IN << <<FMul(a, a), FMul(FMul(a, b), cg), FMul(FMul(a, c), cb)>>,
        <<FMul(FMul(a, b), cg), FMul(b, b), FMul(FMul(b, c), ca)>>,
        <<FMul(FMul(a, c), cb), FMul(FMul(b, c), ca), FMul(c, c)>> >>
CellVolume(cell) == FSqrt(Det3(Metric(cell)))
\* ---- reciprocal metric: 1/d^2 = h^T G^-1 h  with  G^-1 = adj(G)/det(G)
Cof(m, i, j) == LET r == IF i = 1 THEN <<2, 3>> ELSE IF i = 2 THEN <<1, 3>> ELSE <<1, 2>>
                    c == IF j = 1 THEN <<2, 3>> ELSE IF j = 2 THEN <<1, 3>> ELSE <<1, 2>>
                    minor == FSub(FMul(m[r[1]][c[1]], m[r[2]][c[2]]), FMul(m[r[1]][c[2]], m[r[2]][c[1]]))
                IN IF (i + j) % 2 = 0 THEN minor ELSE FNeg(minor)
InvD2(cell, hkl) == LET G == Metric(cell)
                        hv == <<FI(hkl[1]), FI(hkl[2]), FI(hkl[3])>>
                    IN FDiv(FSum([n \in 1..9 |-> LET i == ((n - 1) \div 3) + 1 j == ((n - 1) % 3) + 1 IN FMul(FMul(hv[i], hv[j]), Cof(G, i, j))]), Det3(G))
DSpacing(cell, hkl) == FDiv(One, FSqrt(InvD2(cell, hkl)))
=============================================================================
