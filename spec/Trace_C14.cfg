INIT Init
NEXT Next
INVARIANT Consistent
POSTCONDITION Done
CHECK_DEADLOCK FALSE
