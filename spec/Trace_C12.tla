----------------------------- MODULE Trace_C12 -----------------------------
EXTENDS XrlClosedForm, XrlChunks
BadOf(i, ev) == { [prop |-> "C12", line |-> i, E |-> FStr(ev.E), why |-> m] : m \in IF ev.k = "cf" THEN Relations(ev) ELSE IF ev.k = "cfbad" THEN BadEnergy(ev) ELSE {"unexpected event"} }
Judged == JudgedWith(BadOf)
Static == c = 0 => (GLExact \/ PrintT("MISMATCH " \o ToJson([prop |-> "C12", layer |-> "spec", why |-> "the 48-point Gauss-Legendre rule is not exact on the monomials up to degree 95"])))
============================================================================
