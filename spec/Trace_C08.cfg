INIT Init
NEXT Next
INVARIANT Judged
INVARIANT Static
POSTCONDITION Done
CHECK_DEADLOCK FALSE
