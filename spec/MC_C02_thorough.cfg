CONSTANT MaxN = 4
INIT Init
NEXT Next
INVARIANT OperatorOK
CHECK_DEADLOCK FALSE
