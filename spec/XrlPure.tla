------------------------------- MODULE XrlPure -------------------------------
(***************************************************************************)
(* C16.  Frame conditions of the API as a state machine.                   *)
(* State projected from the real process after every call:                 *)
(*   tables  digest of every data table        (nobody may change it)      *)
(*   builtin digest of the built-in crystals   (only AddBuiltin may)       *)
(*   locale, cwd                               (nobody may change them)    *)
(*   stderr  bytes written                     (only deprecation notes)    *)
(*   errs    error objects the caller holds    (only KeepError/Release)    *)
(* and every query returns what the same query returns in a fresh process. *)
(***************************************************************************)
EXTENDS Integers, Sequences, TLC
\* which variables an operation may change
MayChange(op) ==
  CASE op = "AddBuiltin" -> {"builtin"}
    [] op = "Deprecated" -> {"stderr"}
    [] op \in {"KeepError", "ReleaseError"} -> {"errs"}
    [] OTHER -> {}                               \* queries, XRayInit, user-array operations: nothing
Vars == {"tables", "builtin", "locale", "cwd", "stderr", "errs"}
\* frame condition between two consecutive projections
Changed(a, b) == { v \in Vars : a[v] # b[v] }
FrameOK(op, a, b) == Changed(a, b) \subseteq MayChange(op)
\* the error objects: an op on slot k only touches slot k; a kept error has a code and a message
ErrsOK(op, slot, a, b) ==
  CASE op = "KeepError" -> /\ \A k \in 1..Len(a.errs) : k # slot + 1 => b.errs[k] = a.errs[k]
                           /\ a.errs[slot + 1][1] = 0 - 1 /\ b.errs[slot + 1][1] \in 0..5
    [] op = "ReleaseError" -> /\ \A k \in 1..Len(a.errs) : k # slot + 1 => b.errs[k] = a.errs[k]
                              /\ b.errs[slot + 1][1] = 0 - 1
    [] OTHER -> b.errs = a.errs
\* a query is a function of its arguments alone: bit-identical result (status, code, value digest incl. message) in a pristine process
QueryPure(res, ref) == ref[1] \in {0, 1} /\ res = ref
==============================================================================
