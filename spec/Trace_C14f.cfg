INIT Init
NEXT Next
INVARIANT Judged
POSTCONDITION Done
CHECK_DEADLOCK FALSE
