---- MODULE MC_C17_TTrace_1790560569 ----
EXTENDS MC_C17, Sequences, TLCExt, Toolbox, Naturals, TLC

_expression ==
    LET MC_C17_TEExpression == INSTANCE MC_C17_TEExpression
    IN MC_C17_TEExpression!expression
----

_trace ==
    LET MC_C17_TETrace == INSTANCE MC_C17_TETrace
    IN MC_C17_TETrace!trace
----

_inv ==
    ~(
        TLCGet("level") = Len(_TETrace)
        /\
        result = (<<"ok", "ok">>)
        /\
        pc = (<<<<1, 2>>, <<1, 1>>>>)
        /\
        saved = (<<"none", "none">>)
        /\
        builtin = (0)
        /\
        locale = ("C")
        /\
        done = (<<<<>>, <<>>>>)
        /\
        prog = (<<<<"AddBuiltin">>, <<"Lookup">>>>)
    )
----

_init ==
    /\ result = _TETrace[1].result
    /\ prog = _TETrace[1].prog
    /\ done = _TETrace[1].done
    /\ builtin = _TETrace[1].builtin
    /\ locale = _TETrace[1].locale
    /\ pc = _TETrace[1].pc
    /\ saved = _TETrace[1].saved
----

_next ==
    /\ \E i,j \in DOMAIN _TETrace:
        /\ \/ /\ j = i + 1
              /\ i = TLCGet("level")
        /\ result  = _TETrace[i].result
        /\ result' = _TETrace[j].result
        /\ prog  = _TETrace[i].prog
        /\ prog' = _TETrace[j].prog
        /\ done  = _TETrace[i].done
        /\ done' = _TETrace[j].done
        /\ builtin  = _TETrace[i].builtin
        /\ builtin' = _TETrace[j].builtin
        /\ locale  = _TETrace[i].locale
        /\ locale' = _TETrace[j].locale
        /\ pc  = _TETrace[i].pc
        /\ pc' = _TETrace[j].pc
        /\ saved  = _TETrace[i].saved
        /\ saved' = _TETrace[j].saved

\* Uncomment the ASSUME below to write the states of the error trace
\* to the given file in Json format. Note that you can pass any tuple
\* to `JsonSerialize`. For example, a sub-sequence of _TETrace.
    \* ASSUME
    \*     LET J == INSTANCE Json
    \*         IN J!JsonSerialize("MC_C17_TTrace_1790560569.json", _TETrace)

=============================================================================

 Note that you can extract this module `MC_C17_TEExpression`
  to a dedicated file to reuse `expression` (the module in the 
  dedicated `MC_C17_TEExpression.tla` file takes precedence 
  over the module `MC_C17_TEExpression` below).

---- MODULE MC_C17_TEExpression ----
EXTENDS MC_C17, Sequences, TLCExt, Toolbox, Naturals, TLC

expression == 
    [
        \* To hide variables of the `MC_C17` spec from the error trace,
        \* remove the variables below.  The trace will be written in the order
        \* of the fields of this record.
        result |-> result
        ,prog |-> prog
        ,done |-> done
        ,builtin |-> builtin
        ,locale |-> locale
        ,pc |-> pc
        ,saved |-> saved
        
        \* Put additional constant-, state-, and action-level expressions here:
        \* ,_stateNumber |-> _TEPosition
        \* ,_resultUnchanged |-> result = result'
        
        \* Format the `result` variable as Json value.
        \* ,_resultJson |->
        \*     LET J == INSTANCE Json
        \*     IN J!ToJson(result)
        
        \* Lastly, you may build expressions over arbitrary sets of states by
        \* leveraging the _TETrace operator.  For example, this is how to
        \* count the number of times a spec variable changed up to the current
        \* state in the trace.
        \* ,_resultModCount |->
        \*     LET F[s \in DOMAIN _TETrace] ==
        \*         IF s = 1 THEN 0
        \*         ELSE IF _TETrace[s].result # _TETrace[s-1].result
        \*             THEN 1 + F[s-1] ELSE F[s-1]
        \*     IN F[_TEPosition - 1]
    ]

=============================================================================



Parsing and semantic processing can take forever if the trace below is long.
 In this case, it is advised to uncomment the module below to deserialize the
 trace from a generated binary file.

\*
\*---- MODULE MC_C17_TETrace ----
\*EXTENDS MC_C17, IOUtils, TLC
\*
\*trace == IODeserialize("MC_C17_TTrace_1790560569.bin", TRUE)
\*
\*=============================================================================
\*

---- MODULE MC_C17_TETrace ----
EXTENDS MC_C17, TLC

trace == 
    <<
    ([result |-> <<"ok", "ok">>,pc |-> <<<<1, 1>>, <<1, 1>>>>,saved |-> <<"none", "none">>,builtin |-> 0,locale |-> "C",done |-> <<<<>>, <<>>>>,prog |-> <<<<"AddBuiltin">>, <<"Lookup">>>>]),
    ([result |-> <<"ok", "ok">>,pc |-> <<<<1, 2>>, <<1, 1>>>>,saved |-> <<"none", "none">>,builtin |-> 0,locale |-> "C",done |-> <<<<>>, <<>>>>,prog |-> <<<<"AddBuiltin">>, <<"Lookup">>>>])
    >>
----


=============================================================================

---- CONFIG MC_C17_TTrace_1790560569 ----
CONSTANTS
    Threads = { 1 , 2 }
    Menu = { "Lookup" , "AddBuiltin" }
    InitLocale = "C"
    CallsPerThread = 1

INVARIANT
    _inv

CHECK_DEADLOCK
    \* CHECK_DEADLOCK off because of PROPERTY or INVARIANT above.
    FALSE

INIT
    _init

NEXT
    _next

CONSTANT
    _TETrace <- _trace

ALIAS
    _expression
=============================================================================
\* Generated on Mon Sep 28 01:56:10 UTC 2026