------------------------------ MODULE MC_C09 ------------------------------
(***************************************************************************)
(* C09, specification side: the share formula over the complete ABSTRACT   *)
(* case space -- position of E among the four edges (with absent edges),   *)
(* availability and value of each jump ratio, yield and Coster-Kronig      *)
(* probability.  Checked: the operator is total, fails exactly below the   *)
(* sub-shell edge or when something it needs is unavailable, and a         *)
(* defined share lies in (0, 1]; with unit yields the four shares never    *)
(* add up to more than the whole absorption.                               *)
(***************************************************************************)
EXTENDS XrlXRFJump
VARIABLES cs
P(ok, x) == <<IF ok THEN 1 ELSE 0, x>>
JVals == {P(FALSE, Zero), P(TRUE, One), P(TRUE, Two), P(TRUE, FI(8))}
YVals == {P(FALSE, Zero), P(TRUE, One), P(TRUE, F("0.5"))}
CVals == {P(FALSE, Zero), P(TRUE, F("0.25"))}
Edges == << FI(16), FI(8), FI(4), FI(2) >>
Energies == { F("1.0"), F("3.0"), F("6.0"), F("12.0"), F("24.0") }
Init == cs = [n |-> 0]
Next == cs.n = 0 /\ \E j \in [1..4 -> JVals], y0 \in YVals, ck \in [1..4 -> CVals], have \in [1..4 -> BOOLEAN] :
          cs' = [n |-> 1, jump |-> j, yield |-> [i \in 1..4 |-> y0], ck |-> ck, edge |-> [i \in 1..4 |-> P(have[i], Edges[i])]]
Below(ev, s, E) == ~(POk(ev.edge[s + 1]) /\ FGt(E, PVal(ev.edge[s + 1])))
CaseOK == cs.n = 1 =>
  \A E \in Energies : \A s \in 0..3 :
    LET r == ShareYield(cs, s, E) IN
    /\ (Below(cs, s, E) /\ (s < 2 \/ \A t \in 1..(s - 1) : Below(cs, t, E)) => ~r.ok)          \* nothing of the L group excited: error
    /\ (s \in {0, 1} /\ Below(cs, s, E) => ~r.ok)
    /\ (~POk(cs.yield[s + 1]) => ~r.ok)
    /\ (r.ok => FPos(r.v) /\ FLe(r.v, One))
UnitYieldPartition == cs.n = 1 /\ (\A i \in 1..4 : cs.yield[i] = P(TRUE, One)) /\ (\A i \in 1..4 : ~POk(cs.ck[i])) =>
  \A E \in Energies :
    LET rs == [s \in 0..3 |-> ShareYield(cs, s, E)] IN
    FLe(FSum([i \in 1..4 |-> IF rs[i - 1].ok THEN rs[i - 1].v ELSE Zero]), One)
===========================================================================
