INIT Init
NEXT Next
INVARIANT CaseOK
INVARIANT UnitYieldPartition
CHECK_DEADLOCK FALSE
