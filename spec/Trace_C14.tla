----------------------------- MODULE Trace_C14 -----------------------------
(***************************************************************************)
(* C14 conformance: histories of operations recorded from the real library *)
(* (replayed model programs and seeded random histories) are stepped       *)
(* through XrlCrystalArrays.  One TLC state per recorded line; every field *)
(* of the event is bound: the operation and its arguments select           *)
(* Outcomes(st, op), and the recorded result and projected collection must *)
(* be one of them.  A rejected step prints MISMATCH and the rest of that   *)
(* history is skipped (its model state is no longer known); the next       *)
(* history is judged again.                                                *)
(***************************************************************************)
EXTENDS XrlCrystalMath, XrlStrings, FiniteSets, SequencesExt
VARIABLES l, st, skip, prevAlloc
Tr == ndJsonDeserialize(IOEnv.XRL_TRACE)
DefLines == { i \in 1..Len(Tr) : Tr[i].k = "def" }
Pool == [id \in { Tr[i].id : i \in DefLines } |-> Tr[CHOOSE i \in DefLines : Tr[i].id = id]]
RealCAP == MiscMacro.CRYSTALARRAY_MAX
TVol(k) == IF Pool[k].builtin = 1 THEN Pool[k].vol ELSE CellVolume(Pool[k].cell)
TGrow(alloc, need) == need                                  \* capacity is an observed variable in traces
\* the harness overwrites the first BYTE of the name; names reach the spec with bytes >= 0x80 written as "~XX" (three characters for one byte)
TMutated(c) == [c EXCEPT !.geom = 0 - 1, !.name = "#" \o SubSeq(c.name, IF Len(c.name) >= 3 /\ SubSeq(c.name, 1, 1) = "~" THEN 4 ELSE 2, Len(c.name)), !.vol = F("-7.0")]
CA == INSTANCE XrlCrystalArrays WITH VolOf <- TVol, Grow <- TGrow, CAP <- RealCAP, Mutated <- TMutated
Handles == 1..7
CopyIds == 0..15
Crystal(k) == [name |-> Pool[k].name, geom |-> k, atoms |-> <<>>, vol |-> F("-1.0")]     \* as handed to the library: stated volume wrong
BuiltinOf(names) == { CA!Stored(Crystal(CHOOSE k \in DOMAIN Pool : Pool[k].builtin = 1 /\ Pool[k].name = names[i])) : i \in 1..Len(names) }
InitSt(names) == [arr |-> [h \in Handles |-> CA!Dead], bi |-> [alloc |-> RealCAP, dict |-> BuiltinOf(names)], cp |-> [i \in CopyIds |-> CA!Dead]]
Empty == [arr |-> [h \in Handles |-> CA!Dead], bi |-> [alloc |-> RealCAP, dict |-> {}], cp |-> [i \in CopyIds |-> CA!Dead]]

OpOf(ev) ==
  CASE ev.op = "ArrayInit" -> [op |-> "ArrayInit", h |-> ev.h, n |-> ev.arg]
    [] ev.op = "Add" -> [op |-> "Add", h |-> ev.h, c |-> Crystal(ev.c)]
    [] ev.op = "ReadFile" -> [op |-> "ReadFile", h |-> ev.h, entries |-> [i \in 1..Len(ev.entries) |-> Crystal(ev.entries[i])], bad |-> ev.bad]
    [] ev.op = "Get" -> [op |-> "Get", h |-> ev.h, name |-> ev.name, id |-> ev.id]
    [] ev.op = "List" -> [op |-> "List", h |-> ev.h]
    [] ev.op = "Audit" -> [op |-> "Audit", h |-> ev.h]
    [] ev.op = "MakeCopy" -> [op |-> "MakeCopy", src |-> ev.src, id |-> ev.id]
    [] ev.op = "Mutate" -> [op |-> "Mutate", id |-> ev.id]
    [] ev.op = "FreeCopy" -> [op |-> "FreeCopy", id |-> ev.id]
    [] ev.op = "ArrayFree" -> [op |-> "ArrayFree", h |-> ev.h]

VolTol == F("1e-12")
\* a crystal handed out by the library (projected to pool id, name, volume) is the model crystal c
SameCrystal(r, c) == IF c.geom = 0 - 2 THEN r.name = c.name        \* a filler of the pre-filled built-in collection: only its name is modelled
                     ELSE r.pool = c.geom /\ r.name = c.name /\ (r.vol = c.vol \/ FClose(r.vol, c.vol, VolTol, Zero))
\* the projected collection {n, alloc, listed, names} is the model collection t
ProjOK(p, t, oldAlloc) ==
  /\ p.n = Cardinality(t.dict) /\ p.listed = p.n /\ Len(p.names) = p.n
  /\ { p.names[i] : i \in 1..Len(p.names) } = CA!Names(t.dict)
  /\ StrictlySorted(p.names)
  /\ p.alloc >= p.n /\ p.alloc >= oldAlloc
ResOK(o, ev) ==
  /\ (ev.ok = 1) = o.res.ok
  /\ (ev.op = "Get" /\ o.res.ok => SameCrystal(ev.r, o.res.val))
  /\ (ev.op = "MakeCopy" => SameCrystal(ev.r, o.res.val))
  /\ (ev.op = "Audit" => /\ Len(ev.all) = Cardinality(o.res.val)
                         /\ \A i \in 1..Len(ev.all) : \E c \in o.res.val : SameCrystal(ev.all[i], c))
  /\ (~o.res.ok => ev.code >= 0 /\ ev.code <= 5 /\ ev.msg # "")
HasProj(ev) == "st" \in DOMAIN ev
OldAlloc(s, ev) == IF "h" \notin DOMAIN ev \/ ev.op = "ArrayInit" THEN 0 ELSE CA!Target(s, ev.h).alloc
Matches(o, ev, s) == ResOK(o, ev) /\ (HasProj(ev) /\ "h" \in DOMAIN ev /\ CA!Usable(o.st, ev.h) => ProjOK(ev.st, CA!Target(o.st, ev.h), OldAlloc(s, ev)))
WithObservedAlloc(s, ev) == IF HasProj(ev) /\ "h" \in DOMAIN ev /\ CA!Usable(s, ev.h)
                            THEN CA!WithTarget(s, ev.h, [CA!Target(s, ev.h) EXCEPT !.alloc = ev.st.alloc]) ELSE s

Report(i, ev, why) == PrintT("MISMATCH " \o ToJson([prop |-> "C14", line |-> i, hist |-> ev.hist, step |-> IF "i" \in DOMAIN ev THEN ev.i ELSE 0 - 1,
                                                    op |-> IF "op" \in DOMAIN ev THEN ev.op ELSE ev.k, why |-> why, ev |-> ev]))
Init == l = 1 /\ st = Empty /\ skip = FALSE /\ prevAlloc = 0
StepOp(ev) ==
  LET op == OpOf(ev) IN
  IF ~CA!Legal(st, op) THEN Report(l, ev, "harness issued an operation the caller may not issue (check is broken)") /\ skip' = TRUE /\ st' = st
  ELSE LET good == { o \in CA!Outcomes(st, op) : Matches(o, ev, st) } IN
       IF good = {} THEN Report(l, ev, "no admissible outcome of the model matches the recorded result and collection") /\ skip' = TRUE /\ st' = st
       ELSE st' = WithObservedAlloc((CHOOSE o \in good : TRUE).st, ev) /\ skip' = FALSE
Prefill(ev) ==
  LET names == { ev.st.names[i] : i \in 1..Len(ev.st.names) }
      fill == { n \in names : n \notin CA!Names(st.bi.dict) }
  IN /\ st' = [st EXCEPT !.bi.dict = st.bi.dict \cup { [name |-> n, geom |-> 0 - 2, atoms |-> <<>>, vol |-> Zero] : n \in fill },
                         !.bi.alloc = ev.st.alloc]
     /\ (IF ev.st.alloc = ev.st.n + ev.room /\ ev.st.alloc <= RealCAP /\ (ev.seam = 0 => ev.st.alloc = RealCAP)
         THEN skip' = FALSE ELSE Report(l, ev, "pre-fill of the built-in collection did not reach the requested size") /\ skip' = TRUE)
Next ==
  /\ l <= Len(Tr) /\ l' = l + 1 /\ prevAlloc' = 0
  /\ LET ev == Tr[l] IN
     CASE ev.k = "reset" -> st' = InitSt(ev.builtin) /\ skip' = FALSE
       [] ev.k = "abort" -> Report(l, ev, "history ended abnormally (crash or sanitizer report)") /\ st' = st /\ skip' = TRUE
       [] ev.k = "op" /\ ~skip /\ ev.op = "Prefill" -> Prefill(ev)
       [] ev.k = "op" /\ ~skip -> StepOp(ev)
       [] OTHER -> UNCHANGED <<st, skip>>
\* what the model guarantees in every state the real library was driven through
Consistent == CA!Consistent(st)
Done == TLCGet("stats").diameter = Len(Tr) + 1 /\ PrintT("JUDGED " \o ToString(Len(Tr)) \o " events in " \o ToString(Cardinality({ i \in 1..Len(Tr) : Tr[i].k = "reset" })) \o " chunks")
============================================================================
