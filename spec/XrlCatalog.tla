----------------------------- MODULE XrlCatalog -----------------------------
(***************************************************************************)
(* C15.  A catalogue is a sequence of entries; the predicates below say    *)
(* what "self-consistent and addressable in every documented way" means.   *)
(* The catalogue is instantiated from what the library itself lists        *)
(* (name list + by-index lookups); every other observation (by-name        *)
(* lookups incl. near-miss names, out-of-range indices, header index       *)
(* macros, copies) is judged against it, and it is compared with the       *)
(* catalogue sources lexed from the tree.                                  *)
(***************************************************************************)
EXTENDS XrlNames, FP, SequencesExt
CatFacts == JsonDeserialize(FactsDir \o "/catalogs.json")
NistMacro == MacroFacts.fam.nist
NuclideMacro == MacroFacts.fam.nuclide
Mendel == NameFacts.Mendel                   \* <<Z, symbol>> pairs in table order

\* ---- canonical form of a name: its letters and digits, upper-cased (how index macros spell entries)
LowerAlpha == "abcdefghijklmnopqrstuvwxyz"
UpperAlpha == "ABCDEFGHIJKLMNOPQRSTUVWXYZ"
Digits == "0123456789"
Ch(s, i) == SubSeq(s, i, i)
IndexIn(alpha, ch) == IF \E i \in 1..Len(alpha) : Ch(alpha, i) = ch THEN CHOOSE i \in 1..Len(alpha) : Ch(alpha, i) = ch ELSE 0
CanonCh(ch) == IF IndexIn(LowerAlpha, ch) > 0 THEN Ch(UpperAlpha, IndexIn(LowerAlpha, ch))
               ELSE IF IndexIn(UpperAlpha, ch) > 0 \/ IndexIn(Digits, ch) > 0 THEN ch ELSE ""
RECURSIVE CanonFrom(_, _)
CanonFrom(s, i) == IF i > Len(s) THEN "" ELSE CanonCh(Ch(s, i)) \o CanonFrom(s, i + 1)
Canon(s) == CanonFrom(s, 1)

Unique(seq) == \A i, j \in 1..Len(seq) : seq[i] = seq[j] => i = j
SymbolOf(Z) == IF \E i \in 1..Len(Mendel) : Mendel[i][1] = Z THEN Mendel[CHOOSE i \in 1..Len(Mendel) : Mendel[i][1] = Z][2] ELSE ""

\* ---- generic addressing rules.  cat: the observed event.  Returns a set of complaint strings.
Complain(cond, msg) == IF cond THEN {} ELSE {msg}
Entry(cat, i) == LET hits == { k \in 1..Len(cat.byidx) : cat.byidx[k].i = i } IN cat.byidx[CHOOSE k \in hits : TRUE].r
Listed(cat, q) == \E k \in 1..Len(cat.list) : cat.list[k] = q
IndexOfName(cat, q) == CHOOSE k \in 1..Len(cat.list) : cat.list[k] = q
Addressing(cat) ==
  LET n == cat.n IN
  Complain(Len(cat.list) = n, "list length differs from the reported count")
  \cup Complain(Unique(cat.list), "names are not unique")
  \cup UNION { Complain(IF e.i >= 0 /\ e.i < n THEN e.r.ok /\ e.err = 0 /\ e.r.name = cat.list[e.i + 1] ELSE ~e.r.ok /\ e.err = 1,
                        "by-index lookup " \o ToString(e.i) \o " disagrees with the name list / range") : e \in { cat.byidx[k] : k \in 1..Len(cat.byidx) } }
  \cup UNION { Complain(IF Listed(cat, e.q) THEN e.r.ok /\ e.err = 0 /\ e.r = Entry(cat, IndexOfName(cat, e.q) - 1) ELSE ~e.r.ok /\ e.err = 1,
                        "by-name lookup of " \o e.q \o (IF Listed(cat, e.q) THEN " differs from the by-index entry" ELSE " (not a listed name) did not fail")) :
               e \in { cat.byname[k] : k \in 1..Len(cat.byname) } }
MacroAddressing(cat, macros, prefix) ==
  Complain({ macros[m] : m \in DOMAIN macros } = 0..(cat.n - 1), "index macros do not cover exactly the indices 0..n-1")
  \cup UNION { Complain(macros[m] \in 0..(cat.n - 1) /\ Canon(SubSeq(m, Len(prefix) + 1, Len(m))) = Canon(cat.list[macros[m] + 1]),
                        "macro " \o m \o " does not designate the entry it is named after") : m \in DOMAIN macros }

\* ---- well-formedness of entries
\* the table gives mass fractions with six decimals: n fractions, each rounded by at most 5e-7, sum to 1 within n * 5e-7 (plus the rounding of the sum)
HalfDigit6 == F("5.0000001e-7")
NistEntryOK(r) ==
  /\ r.n = Len(r.el) /\ r.n = Len(r.mf) /\ r.n >= 1
  /\ \A i \in 1..(r.n - 1) : r.el[i] < r.el[i + 1]
  /\ \A i \in 1..r.n : r.el[i] >= 1 /\ r.el[i] <= ZMAX /\ FPos(r.mf[i])
  /\ FClose(FSum(r.mf), One, Zero, FMul(FI(r.n), HalfDigit6))
  /\ FPos(r.rho)
NuclideEntryOK(r) ==
  /\ r.A = r.Z + r.N
  /\ r.name = ToString(r.A) \o SymbolOf(r.Z)
  /\ r.nx = Len(r.lines) /\ r.nx = Len(r.xi) /\ r.ng = Len(r.ge) /\ r.ng = Len(r.gi)
  /\ \A i \in 1..r.nx : r.lineE[i] = 1 /\ FPos(r.xi[i])
  /\ \A i \in 1..r.ng : FPos(r.ge[i]) /\ FPos(r.gi[i])
  /\ r.Zx >= 1 /\ r.Zx <= ZMAX
CrystalEntryOK(r) ==
  /\ r.n = Len(r.atoms) /\ r.n >= 1
  /\ \A i \in 1..6 : FPos(r.cell[i])
  /\ FPos(r.vol)
  /\ \A i \in 1..r.n : LET a == r.atoms[i] IN a.Z >= 1 /\ a.Z <= ZMAX /\ a.ff = 1 /\ FPos(a.f) /\ FLe(a.f, One)

\* ---- agreement with the catalogue sources of the tree
SameDec(v, tok, rel) == FClose(v, F(tok), rel, Zero)
NistSource(cat) ==
  LET src == CatFacts.nist IN
  Complain(src.n = cat.n /\ Len(src.entries) = cat.n, "count differs from the source table")
  \cup UNION { LET r == Entry(cat, i - 1) s == src.entries[i] IN
               Complain(r.name = s.name /\ r.el = s.el /\ r.n = s.n /\ Len(s.mf) = r.n
                        /\ (\A k \in 1..r.n : SameDec(r.mf[k], s.mf[k], F("1e-15"))) /\ SameDec(r.rho, s.rho, F("1e-15")),
                        "entry " \o ToString(i - 1) \o " differs from the source table") : i \in 1..(IF Len(src.entries) < cat.n THEN Len(src.entries) ELSE cat.n) }
LineVal(tok) == LineMacro[tok]
NuclideSource(cat) ==
  LET src == CatFacts.nuclide IN
  Complain(src.n = cat.n /\ Len(src.entries) = cat.n, "count differs from the source table")
  \cup UNION { LET r == Entry(cat, i - 1) s == src.entries[i] IN
               Complain(r.name = s.name /\ r.Z = s.Z /\ r.A = s.A /\ r.N = s.N /\ r.Zx = s.Zx /\ r.nx = s.nx /\ r.ng = s.ng
                        /\ Len(s.lines) = r.nx /\ (\A k \in 1..r.nx : s.lines[k] \in DOMAIN LineMacro /\ r.lines[k] = LineVal(s.lines[k]) /\ SameDec(r.xi[k], s.xi[k], F("1e-15")))
                        /\ Len(s.ge) = r.ng /\ (\A k \in 1..r.ng : SameDec(r.ge[k], s.ge[k], F("1e-15")) /\ SameDec(r.gi[k], s.gi[k], F("1e-15"))),
                        "entry " \o ToString(i - 1) \o " differs from the source table") : i \in 1..(IF Len(src.entries) < cat.n THEN Len(src.entries) ELSE cat.n) }
\* the generator prints crystal data with every digit into float literals: the built-in value is the nearest single-precision number
CrystalSource(cat) ==
  LET src == CatFacts.crystal
      byName(nm) == { k \in 1..Len(cat.byname) : cat.byname[k].exact /\ cat.byname[k].q = nm }
      close(v, tok) == FEq(v, FRound32(F(tok)))
  IN Complain(Len(src) = cat.n, "count differs from data/Crystals.dat")
     \cup UNION { LET s == src[i] IN
                  Complain(byName(s.name) # {} /\
                           LET r == cat.byname[CHOOSE k \in byName(s.name) : TRUE].r IN
                           r.ok /\ r.n = Len(s.atoms) /\ (\A k \in 1..6 : close(r.cell[k], s.cell[k]))
                           /\ \A k \in 1..r.n : LET a == r.atoms[k] t == s.atoms[k] IN
                                ToString(a.Z) = t[1] /\ close(a.f, t[2]) /\ close(a.x, t[3]) /\ close(a.y, t[4]) /\ close(a.z, t[5]),
                           "crystal " \o s.name \o " differs from data/Crystals.dat") : i \in 1..Len(src) }
Sorted(seq) == TRUE   \* order of strings is not expressible in TLC; sortedness is observed through bsearch-based lookups of every listed name

\* ---- the element table: symbol <-> Z is a bijection on 1..MENDEL_MAX
MendelRules(cat) ==
  LET n == MiscMacro.MENDEL_MAX IN
  Complain(Len(Mendel) = n /\ { Mendel[i][1] : i \in 1..n } = 1..n /\ Unique([i \in 1..n |-> Mendel[i][2]]), "source element table is not a bijection on 1..MENDEL_MAX")
  \cup UNION { Complain(IF e.Z >= 1 /\ e.Z <= n THEN e.err = 0 /\ e.isnull = 0 /\ e.sym = SymbolOf(e.Z) /\ e.back = e.Z /\ e.backerr = 0 ELSE e.err = 1 /\ e.isnull = 1,
                        "symbol of Z=" \o ToString(e.Z)) : e \in { cat.byZ[k] : k \in 1..Len(cat.byZ) } }
  \cup UNION { Complain(e.Z = 0 /\ e.err = 1, "non-symbol " \o e.q \o " accepted") : e \in { cat.bad[k] : k \in 1..Len(cat.bad) } }
=============================================================================
