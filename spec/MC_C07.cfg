CONSTANT MaxLen = 4
INIT Init
NEXT Next
INVARIANT OracleOK
CHECK_DEADLOCK FALSE
