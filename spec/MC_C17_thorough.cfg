CONSTANTS
 Threads = {1, 2, 3}
 Menu = {"Query", "ErrQuery", "Lookup", "Catalog", "Parse", "CPQuery"}
 InitLocale = "C"
 CallsPerThread = 2
INIT Init
NEXT Next
INVARIANT NoConflict
INVARIANT SerialResults
INVARIANT LocaleRestored
CHECK_DEADLOCK FALSE
