------------------------------ MODULE XrlLines ------------------------------
(***************************************************************************)
(* C10.  Grouped line energies and rates.  Group membership is derived     *)
(* from the IUPAC NAMES of the line macros ("KM3" = K vacancy filled from  *)
(* M3) and from the Siegbahn aliases of the header; values of the members  *)
(* are the ones the library itself returns for the member macros.          *)
(***************************************************************************)
EXTENDS XrlNames, FP, SequencesExt

Stem(n) == LineDataName(n)                       \* "KM3_LINE" -> "KM3"
\* single K lines: "K" followed by a two-character shell name
IsKLine(n) == n \in SingleLineNames /\ Len(Stem(n)) = 3 /\ SubSeq(Stem(n), 1, 1) = "K"
Outer(n) == SubSeq(Stem(n), 2, 2)                \* principal shell the electron comes from
KAMembers == { n \in SingleLineNames : IsKLine(n) /\ Outer(n) = "L" }
KBMembers == { n \in SingleLineNames : IsKLine(n) /\ Outer(n) \in {"M", "N", "O", "P", "Q"} }
LAMembers == { "L3M4_LINE", "L3M5_LINE" }
\* the doublet XYab has the members XYa and XYb
DoubletMembers(n) == LET s == Stem(n) IN { SubSeq(s, 1, 3) \o SubSeq(s, 4, 4) \o "_LINE", SubSeq(s, 1, 3) \o SubSeq(s, 5, 5) \o "_LINE" }
\* L-beta: the Siegbahn L-beta lines of the header; the library also counts L3N6 and L3N7 (union of readings)
IsLBAlias(n) == n \in SiegbahnAliases /\ Len(n) >= 8 /\ SubSeq(n, 1, 2) = "LB"
LBMembers11 == { AliasMacro[n] : n \in { n \in SiegbahnAliases : IsLBAlias(n) } }
LBMembers13 == LBMembers11 \cup { "L3N6_LINE", "L3N7_LINE" }
LShellOf(n) == SubSeq(Stem(n), 1, 2)             \* "L2M4" -> "L2"

GroupStructureOK ==
  /\ KAMembers = {"KL1_LINE", "KL2_LINE", "KL3_LINE"}
  /\ Cardinality(KBMembers) = 24
  /\ \A n \in DoubletNames : DoubletMembers(n) \subseteq SingleLineNames
  /\ Cardinality(LBMembers11) = 11 /\ LBMembers13 \subseteq SingleLineNames
  /\ LAMembers \subseteq SingleLineNames
  \* every Siegbahn alias resolves to a member of the series its name announces
  /\ \A n \in SiegbahnAliases :
        /\ (SubSeq(n, 1, 2) = "KA" => AliasMacro[n] \in KAMembers)
        /\ (SubSeq(n, 1, 2) = "KB" => AliasMacro[n] \in KBMembers)
        /\ (SubSeq(n, 1, 2) = "LA" => AliasMacro[n] \in LAMembers)
        /\ (SubSeq(n, 1, 1) = "L" => SubSeq(Stem(AliasMacro[n]), 1, 1) = "L")
        /\ (SubSeq(n, 1, 1) = "M" => SubSeq(Stem(AliasMacro[n]), 1, 1) = "M")

\* ---- rows as logged: value 0 when the library reported an error
Val(row, m) == IF row.ok[m - row.lo + 1] = 1 THEN row.v[m - row.lo + 1] ELSE Zero
Ok(row, m) == row.ok[m - row.lo + 1] = 1

Tol == F("1e-9")
\* weighted mean over the members that have an energy; plain mean when none of those has a weight; no energy at all: error
\* mem: sequence of [e |-> energy, w |-> weight]
MeanSpec(mem) ==
  LET withE == SelectSeq(mem, LAMBDA x : FPos(x.e))
      withW == SelectSeq(withE, LAMBDA x : FPos(x.w))
  IN IF Len(withE) = 0 THEN [ok |-> FALSE]
     ELSE IF Len(withW) = 0 THEN [ok |-> TRUE, v |-> FDiv(FSum([i \in 1..Len(withE) |-> withE[i].e]), FI(Len(withE)))]
     ELSE [ok |-> TRUE, v |-> FDiv(FSum([i \in 1..Len(withW) |-> FMul(withW[i].e, withW[i].w)]), FSum([i \in 1..Len(withW) |-> withW[i].w]))]
Agree(res, ok, v) == IF res.ok THEN ok /\ FClose(v, res.v, Tol, Zero) ELSE ~ok
MemSeq(names, E, W(_)) == LET s == SetToSeq(names) IN [i \in 1..Len(s) |-> [e |-> Val(E, LineMacro[s[i]]), w |-> W(s[i])]]

\* K-beta: the rates of the outer groups are tabulated under the group names KO / KP, the energies under KO1.. / KP1..:
\* reading (a) counts a group with the energy of its first member, reading (b) does not count it.
KBReadingA(E, RR) == MemSeq(KBMembers, E, LAMBDA n : Val(RR, LineMacro[n]))
                     \o << [e |-> Val(E, LineMacro["KO1_LINE"]), w |-> Val(RR, LineMacro["KO_LINE"])],
                           [e |-> Val(E, LineMacro["KP1_LINE"]), w |-> Val(RR, LineMacro["KP_LINE"])] >>
KBReadingB(E, RR) == MemSeq(KBMembers, E, LAMBDA n : Val(RR, LineMacro[n]))

WRow(ev, n) == CASE LShellOf(n) = "L1" -> ev.w1 [] LShellOf(n) = "L2" -> ev.w2 [] LShellOf(n) = "L3" -> ev.w3

\* expected outcomes (a set: union of the admissible readings) of LineEnergy(Z, group macro)
EnergyWant(ev, n) ==
  LET E == ev.E RR == ev.RR
      byRate(names) == MeanSpec(MemSeq(names, E, LAMBDA k : Val(RR, LineMacro[k])))
  IN CASE n = "KA_LINE" -> { byRate(KAMembers) }
       [] n = "KB_LINE" -> { MeanSpec(KBReadingA(E, RR)), MeanSpec(KBReadingB(E, RR)) }
       [] n = "LA_LINE" -> { byRate(LAMembers) }
       [] n = "LB_LINE" -> { MeanSpec(MemSeq(LBMembers11, E, LAMBDA k : Val(WRow(ev, k), LineMacro[k]))),
                             MeanSpec(MemSeq(LBMembers13, E, LAMBDA k : Val(WRow(ev, k), LineMacro[k]))) }
       [] n \in DoubletNames -> { byRate(DoubletMembers(n)) }
       [] n = "KO_LINE" -> { IF Ok(E, LineMacro["KO1_LINE"]) THEN [ok |-> TRUE, v |-> Val(E, LineMacro["KO1_LINE"])] ELSE [ok |-> FALSE] }
       [] n = "KP_LINE" -> { IF Ok(E, LineMacro["KP1_LINE"]) THEN [ok |-> TRUE, v |-> Val(E, LineMacro["KP1_LINE"])] ELSE [ok |-> FALSE] }
EnergyGroups == GroupLineNames \cup DoubletNames \cup KOKPNames

\* the group energy lies between the smallest and the largest member energy
Members(n) == CASE n = "KA_LINE" -> KAMembers [] n = "KB_LINE" -> KBMembers [] n = "LA_LINE" -> LAMembers
                [] n = "LB_LINE" -> LBMembers13 [] n \in DoubletNames -> DoubletMembers(n)
                [] n = "KO_LINE" -> {"KO1_LINE"} [] n = "KP_LINE" -> {"KP1_LINE"}
Between(ev, n, v) == LET es == { Val(ev.E, LineMacro[k]) : k \in { k \in Members(n) : Ok(ev.E, LineMacro[k]) } }
                     IN es # {} /\ (\E lo \in es : FLe(FMul(lo, F("0.999999999")), v)) /\ (\E hi \in es : FLe(v, FMul(hi, F("1.000000001"))))

\* expected outcome of RadRate(Z, group macro)
GroupRateWant(ev, n) ==
  LET RR == ev.RR
      sum(names) == LET s == SetToSeq(names) IN FSum([i \in 1..Len(s) |-> Val(RR, LineMacro[s[i]])])
      ka == sum(KAMembers)
  IN CASE n = "KA_LINE" -> IF FPos(ka) THEN [ok |-> TRUE, v |-> ka] ELSE [ok |-> FALSE]
       [] n = "KB_LINE" -> IF FPos(ka) /\ FLt(ka, One) THEN [ok |-> TRUE, v |-> FSub(One, ka)] ELSE [ok |-> FALSE]
       [] n = "LA_LINE" -> LET la == sum(LAMembers) IN IF FPos(la) THEN [ok |-> TRUE, v |-> la] ELSE [ok |-> FALSE]
RateGroups == {"KA_LINE", "KB_LINE", "LA_LINE"}
=============================================================================
