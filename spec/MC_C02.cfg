CONSTANT MaxN = 3
INIT Init
NEXT Next
INVARIANT OperatorOK
CHECK_DEADLOCK FALSE
