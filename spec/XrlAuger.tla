------------------------------ MODULE XrlAuger ------------------------------
(***************************************************************************)
(* C11.  Auger yields and rates as the documented derivation of the raw    *)
(* tables.  Everything structural is derived from the NAMES of the macros: *)
(* "L1_L2M3_AUGER" = initial vacancy L1, final holes L2 and M3; it is of   *)
(* Coster-Kronig type iff one of the final holes lies in the principal     *)
(* shell of the initial vacancy.  "FM24_TRANS" leaves sub-shell M2.        *)
(***************************************************************************)
EXTENDS XrlNames, FP, SequencesExt

\* ---- structure of an Auger macro name
AugerStem(mac) == StripSuffix(mac, 6)                       \* "L1_L2M3"
UnderscoreAt(s) == CHOOSE i \in 1..Len(s) : SubSeq(s, i, i) = "_"
AugerInit(mac) == LET s == AugerStem(mac) IN SubSeq(s, 1, UnderscoreAt(s) - 1)
AugerHoles(mac) == LET s == AugerStem(mac)
                       r == SubSeq(s, UnderscoreAt(s) + 1, Len(s))
                   IN <<SubSeq(r, 1, 2), SubSeq(r, 3, 4)>>
Principal(shellname) == SubSeq(shellname, 1, 1)
IsCKType(mac) == LET h == AugerHoles(mac) p == Principal(AugerInit(mac))
                 IN Principal(h[1]) = p \/ Principal(h[2]) = p

AugerValues == { AugerMacro[n] : n \in DOMAIN AugerMacro }
AugerNameOf == [v \in AugerValues |-> CHOOSE n \in DOMAIN AugerMacro : AugerMacro[n] = v]
AugerInfo == [v \in AugerValues |-> LET n == AugerNameOf[v] IN
                [init |-> AugerInit(n), holes |-> AugerHoles(n), ck |-> IsCKType(n), rec |-> AugerDataName(n)]]
\* the shells that have Auger macros / totals: K .. M5
AugerShells == { ShellDataName(n) : n \in { n \in DOMAIN ShellMacro : ShellMacro[n] < SHELLNUM_A } }
CKTypeOf == [s \in AugerShells |-> SetToSeq({ v \in AugerValues : AugerInfo[v].init = s /\ AugerInfo[v].ck })]

\* ---- structure of a Coster-Kronig transition macro name: F<letter>[P]<i><j>
TransStem(mac) == StripSuffix(mac, 6)
TransSource(mac) == LET s == TransStem(mac) IN SubSeq(s, 2, 2) \o SubSeq(s, Len(s) - 1, Len(s) - 1)   \* "L1"
CKLeaving(shellname) == { TransMacro[n] : n \in { n \in DOMAIN TransMacro : TransSource(n) = shellname } }

AugerStructureOK ==
  /\ AugerValues = 0..(AUGERNUM - 1)
  /\ \A a, b \in DOMAIN AugerMacro : AugerMacro[a] = AugerMacro[b] => a = b
  /\ \A v \in AugerValues : AugerInfo[v].init \in AugerShells
  /\ \A v \in AugerValues : \A i \in 1..2 : \E n \in DOMAIN ShellMacro : ShellDataName(n) = AugerInfo[v].holes[i]
  \* macros are grouped by initial shell in the order K, L1, ... (the accessor relies on it)
  /\ \A v, w \in AugerValues : v < w => ShellMacro[AugerInfo[v].init \o "_SHELL"] <= ShellMacro[AugerInfo[w].init \o "_SHELL"]

\* ---- C11 yields:  a_s = 1 - omega_s - sum of CK probabilities leaving s
TolAbs == F("1e-10")
TolRel == F("1e-10")
\* fy, ck: rows as returned by the library (fy over shells 0..8, ck over transitions 1..14)
RowVal(row, m) == IF row.ok[m - row.lo + 1] = 1 THEN row.v[m - row.lo + 1] ELSE Zero
RowOk(row, m) == m >= row.lo /\ m <= row.hi /\ row.ok[m - row.lo + 1] = 1
YieldAccept(Z, s, fy, ck, ok, v) ==
  IF s \notin 0..(SHELLNUM_A - 1) \/ ~RowOk(fy, s) THEN ~ok
  ELSE LET name == ShellDataName(ShellNameOf[s])
           cks == SetToSeq(CKLeaving(name))
           a == FSub(FSub(One, RowVal(fy, s)), FSum([i \in 1..Len(cks) |-> RowVal(ck, cks[i])]))
       IN IF FLe(a, FNeg(TolAbs)) THEN ~ok
          ELSE IF FLe(a, TolAbs) THEN (~ok \/ FClose(v, a, TolRel, TolAbs))      \* at the boundary either outcome
          ELSE ok /\ FClose(v, a, TolRel, TolAbs) /\ FLe(v, FAdd(One, TolAbs))
YieldWant(Z, s, fy, ck) ==
  IF s \notin 0..(SHELLNUM_A - 1) \/ ~RowOk(fy, s) THEN "error"
  ELSE LET name == ShellDataName(ShellNameOf[s])
           cks == SetToSeq(CKLeaving(name))
       IN FStr(FSub(FSub(One, RowVal(fy, s)), FSum([i \in 1..Len(cks) |-> RowVal(ck, cks[i])])))

\* ---- C11 rates:  raw(t) / (Total(init t) - sum of raw CK-type transitions of that shell)
\* raw: record name |-> tokens for this element (facts of data/auger_rates.dat)
Raw(raw, name) == IF name \in DOMAIN raw THEN F(raw[name][Len(raw[name])]) ELSE Zero
Denominator(raw, s) == LET cks == CKTypeOf[s]
                       IN FSub(Raw(raw, s \o "-TOTAL"), FSum([i \in 1..Len(cks) |-> Raw(raw, AugerInfo[cks[i]].rec)]))
Vanishing == F("1e-8")
RateAccept(raw, dens, t, ok, v) ==
  IF t \notin AugerValues \/ AugerInfo[t].ck THEN ~ok
  ELSE LET r == Raw(raw, AugerInfo[t].rec)
           d == dens[AugerInfo[t].init]
       IN IF ~FPos(r) THEN ~ok
          ELSE IF FLe(d, Zero) THEN ~ok
          ELSE IF FLe(d, Vanishing) THEN (~ok \/ FClose(v, FDiv(r, d), TolRel, Zero))   \* "vanishing denominator": either reading
          ELSE ok /\ FClose(v, FDiv(r, d), TolRel, Zero)
RateWant(raw, dens, t) ==
  IF t \notin AugerValues THEN "error: not a macro" ELSE IF AugerInfo[t].ck THEN "error: Coster-Kronig type"
  ELSE [raw |-> FStr(Raw(raw, AugerInfo[t].rec)), den |-> FStr(dens[AugerInfo[t].init])]
=============================================================================
