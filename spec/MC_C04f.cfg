CONSTANTS
 NNew = 3
 Discipline = "reserve"
 MaxReq = 6
INIT Init
NEXT Next
INVARIANT Atomic
INVARIANT NoLeak
INVARIANT FailsOnlyOnFault
CHECK_DEADLOCK FALSE
