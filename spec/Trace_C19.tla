----------------------------- MODULE Trace_C19 -----------------------------
EXTENDS XrlEquiv, XrlChunks
BadOf(i, ev) == IF ev.k = "jrow" THEN { [prop |-> "C19", line |-> i, fn |-> ev.fn, Z |-> ev.Z, a |-> ev.diff[k].a, d |-> [m \in 1..3 |-> FStr(ev.diff[k].d[m])], s |-> ev.diff[k].s,
                                         why |-> Why(ev.fn, ev.diff[k].c, ev.diff[k].j), c |-> ev.diff[k].c, j |-> ev.diff[k].j, exc |-> ev.diff[k].exc] :
                                        k \in { k \in 1..Len(ev.diff) : ~SameNear(ev.fn, ev.diff[k].c, ev.diff[k].j, ev.diff[k].sc, ev.diff[k].alt) \/ ~EdgeExact(ev.diff[k]) } }
                ELSE {}
Judged == JudgedWith(BadOf)
============================================================================
