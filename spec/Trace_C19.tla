----------------------------- MODULE Trace_C19 -----------------------------
EXTENDS XrlEquiv, XrlChunks
BadOf(i, ev) == IF ev.k = "jrow" THEN { [prop |-> "C19", line |-> i, fn |-> ev.fn, Z |-> ev.Z, a |-> ev.diff[k].a, d |-> [m \in 1..3 |-> FStr(ev.diff[k].d[m])], s |-> ev.diff[k].s,
                                         why |-> Why(ev.fn, ev.diff[k].c, ev.diff[k].j), c |-> ev.diff[k].c, j |-> ev.diff[k].j, exc |-> ev.diff[k].exc] :
                                        k \in { k \in 1..Len(ev.diff) : ~SameNear(ev.fn, ev.diff[k].c, ev.diff[k].j, ev.diff[k].sc, ev.diff[k].alt) \/ ~EdgeExact(ev.diff[k]) } }
                ELSE IF ev.k = "jmt" /\ ev.mismatch # 0
                THEN {[prop |-> "C19", line |-> i, why |-> "the same Java calls made from several threads at once returned something else than alone (C answers every thread as it answers a single one: C17)", threads |-> ev.threads, calls |-> ev.calls, mismatch |-> ev.mismatch, first |-> ev.first]}
                ELSE {}
Judged == JudgedWith(BadOf)
============================================================================
