----------------------------- MODULE Trace_C13 -----------------------------
EXTENDS XrlDiffraction, XrlChunks
BadOf(i, ev) == IF ev.k = "xtal" THEN { [prop |-> "C13", line |-> i, crystal |-> ev.c.name, hkl |-> ev.hkl, E |-> FStr(ev.E), dw |-> FStr(ev.dw), rel |-> FStr(ev.rel), why |-> m] : m \in Relations(ev) }
                ELSE {[prop |-> "C13", line |-> i, why |-> "unexpected event"]}
Judged == JudgedWith(BadOf)
============================================================================
