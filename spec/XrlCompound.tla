----------------------------- MODULE XrlCompound -----------------------------
(***************************************************************************)
(* C06.  Mass-fraction mixture rule.  The composition (Z_i, w_i) is the    *)
(* one the library derives (formula parser first, NIST catalogue second;   *)
(* C07 / C15 decide those), the elemental values are the library's own.    *)
(*   X_CP(c, args) = sum_i w_i X(Z_i, args);  an element for which X fails *)
(*   makes the compound call fail;  unknown compound => error.             *)
(*   Re n = 1 - rho sum_i w_i K (Z_i + f'_i)/A_i / E^2                     *)
(*   Im n = rho (hc/4 pi) sum_i w_i mu_i / E                               *)
(* with K = r_e N_A (hc)^2 / 2 pi DERIVED from the header constants.       *)
(***************************************************************************)
EXTENDS XrlFacts, FP
POk(p) == p[1] = 1
PV(p) == p[2]
Tol == F("1e-12")
Pi == F(DecMacro.PI)
NAv == F(DecMacro.AVOGNUM)
K2A == F(DecMacro.KEV2ANGST)
ReCm == FMul(F(DecMacro.R_E), F("100.0"))                                   \* classical electron radius in cm
\* K = r_e[cm] * (hc[keV A] * 1e-8 cm/A)^2 * N_A[1e24/mol] / (2 pi)
KDerived == FDiv(FMul(FMul(ReCm, FSq(FMul(K2A, F("1e-8")))), FMul(NAv, F("1e24"))), FMul(Two, Pi))
HcOver4Pi == FDiv(FMul(K2A, F("1e-8")), FMul(F("4.0"), Pi))
CodeKD == F("4.15179082788e-4")
CodeHc4Pi == F("9.8663479e-9")
ConstantsOK == FClose(KDerived, CodeKD, F("1e-6"), Zero) /\ FClose(HcOver4Pi, CodeHc4Pi, F("1e-6"), Zero)
Known(ev) == ev.src \in {1, 2}
chk(c, msg) == IF c THEN {} ELSE {msg}
Mix(ev, parts) == FSum([i \in 1..Len(ev.el) |-> FMul(ev.mf[i], PV(parts[i]))])
\* the mixture rule for one *_CP function: fn record [r, parts]
CPComplaints(ev, name, fn) ==
  IF ~Known(ev) THEN chk(~POk(fn.r) /\ FEq(PV(fn.r), Zero), name \o ": unknown compound did not fail")
  ELSE IF \E i \in 1..Len(ev.el) : ~POk(fn.parts[i]) THEN chk(~POk(fn.r) /\ FEq(PV(fn.r), Zero), name \o ": an element fails but the compound call returned a number")
  ELSE chk(POk(fn.r) /\ FClose(PV(fn.r), Mix(ev, fn.parts), Tol, F("1e-300")), name \o ": differs from the sum of mass fraction x elemental value")
\* refractive index
Density(ev) == IF FPos(ev.rho) THEN ev.rho ELSE IF ev.src = 2 THEN ev.nistrho ELSE ev.rho
RefrDefined(ev) == Known(ev) /\ FPos(ev.E) /\ FPos(Density(ev)) /\ \A i \in 1..Len(ev.el) : POk(ev.fi[i]) /\ POk(ev.aw[i]) /\ POk(ev.cs[i])
ReDefined(ev) == Known(ev) /\ FPos(ev.E) /\ FPos(Density(ev)) /\ \A i \in 1..Len(ev.el) : POk(ev.fi[i]) /\ POk(ev.aw[i])
ImDefined(ev) == Known(ev) /\ FPos(ev.E) /\ FPos(Density(ev)) /\ \A i \in 1..Len(ev.el) : POk(ev.cs[i])
Delta(ev) == FDiv(FMul(Density(ev), FSum([i \in 1..Len(ev.el) |-> FDiv(FMul(FMul(ev.mf[i], KDerived), FAdd(FI(ev.el[i]), PV(ev.fi[i]))), PV(ev.aw[i]))])), FSq(ev.E))
Beta(ev) == FDiv(FMul(FMul(Density(ev), HcOver4Pi), FSum([i \in 1..Len(ev.el) |-> FMul(ev.mf[i], PV(ev.cs[i]))])), ev.E)
\* the code's literal constant K carries 12 digits of an older CODATA vintage than the header constants it is derived from here: the two differ by
\* 9e-8 on this tree, and a refresh of the header constants alone (N_A, hc, r_e between CODATA 2010 and 2018) moves the derived K by < 3e-7
RelC == F("1e-6")
RefrComplaints(ev) ==
  (IF ReDefined(ev) THEN chk(POk(ev.re) /\ FClose(PV(ev.re), FSub(One, Delta(ev)), Zero, FAdd(FMul(RelC, FAbs(Delta(ev))), F("4.5e-16"))), "Refractive_Index_Re differs from 1 - rho sum w K (Z+f')/A / E^2")
   ELSE chk(~POk(ev.re) /\ FEq(PV(ev.re), Zero), "Refractive_Index_Re did not fail (unknown compound, E <= 0, density <= 0 without NIST density, or failing element)"))
  \cup (IF ImDefined(ev) THEN chk(POk(ev.im) /\ FClose(PV(ev.im), Beta(ev), RelC, Zero), "Refractive_Index_Im differs from rho (hc/4pi) mu / E")
        ELSE chk(~POk(ev.im) /\ FEq(PV(ev.im), Zero), "Refractive_Index_Im did not fail"))
  \cup (IF RefrDefined(ev) THEN chk(ev.cx[1] = 1 /\ FClose(ev.cx[2], PV(ev.re), Tol, Zero) /\ FClose(ev.cx[3], PV(ev.im), Tol, Zero), "complex refractive index disagrees with its real / imaginary entry points")
        ELSE chk(ev.cx[1] = 0 /\ FEq(ev.cx[2], Zero) /\ FEq(ev.cx[3], Zero), "Refractive_Index did not fail"))
  \* the exported pointer-returning twin (called by the Fortran, .NET and scripting bindings) is the same function
  \cup chk(ev.cx2 = ev.cx, "Refractive_Index2 disagrees with Refractive_Index")
Complaints(ev) == UNION { CPComplaints(ev, n, ev.fn[n]) : n \in DOMAIN ev.fn } \cup RefrComplaints(ev)
==============================================================================
