----------------------------- MODULE Trace_C18 -----------------------------
EXTENDS XrlWrapCxx, XrlChunks
BadOf(i, ev) == IF ev.k = "xcls" THEN (IF ClassWhy(ev) = "" THEN {} ELSE {[prop |-> "C18", line |-> i, fn |-> ev.fn, argc |-> ev.argc, why |-> ClassWhy(ev), c_ok |-> ev.c_ok, c_code |-> ev.c_code, thrown |-> ev.thrown, n |-> ev.n, witness |-> ev.w]})
                ELSE IF ev.k = "skipped" THEN {[prop |-> "C18", note |-> TRUE, line |-> i, fn |-> ev.fn, why |-> "wrapper of xraylib++.h could not be joined with a C prototype of a signature the harness generator knows: not driven"]}
                ELSE IF ev.k = "mt" /\ ev.mismatch # 0 THEN {[prop |-> "C18", line |-> i, why |-> "wrapper calls made from several threads at once: an exception carried another message (or class) than the C function reports for the same arguments, or a value differed from the serial one", threads |-> ev.threads, calls |-> ev.calls, mismatch |-> ev.mismatch]}
                ELSE {}
Judged == JudgedWith(BadOf)
============================================================================
