------------------------------ MODULE MC_C01 ------------------------------
(***************************************************************************)
(* C01, specification side: on the REAL facts of this tree, the mechanism  *)
(* (name tables + generator + accessors) implies the property (record      *)
(* designated by the macro's documented name) for every cell of the        *)
(* domain Z in -3..125 x every macro value in and around the legal range.  *)
(* The state graph is root -> one state per (quantity, Z).                 *)
(***************************************************************************)
EXTENDS XrlScalar
VARIABLES q, z
MRange(qq) == CASE qq \in PlainQ -> 0..0
                [] qq \in ShellQ -> (0 - 3)..33
                [] qq \in LineQ -> (0 - 386)..6
                [] qq \in TransQ -> (0 - 3)..17
MCQ == ShellQ \cup LineQ \cup TransQ \cup PlainQ
Init == q = "" /\ z = 0
Next == q = "" /\ \E qq \in MCQ, zz \in (0 - 3)..125 : q' = qq /\ z' = zz
RowOK == q # "" =>
  \A m \in MRange(q) :
     \/ MechImpliesProp(q, z, m)
     \/ PrintT("MISMATCH " \o ToJson([prop |-> "C01", layer |-> "spec", fn |-> q, Z |-> z, m |-> m,
                                      mech |-> MechResult(q, z, m), want |-> PropWant(q, z, m)]))
Static == q = "" => /\ (MacroFamiliesOK \/ PrintT("MISMATCH " \o ToJson([prop |-> "C01", layer |-> "spec", why |-> "macro families malformed"])))
                    /\ (CapacitiesOK \/ PrintT("MISMATCH " \o ToJson([prop |-> "C01", layer |-> "spec", why |-> "header capacities differ from name tables"])))
===========================================================================
