------------------------------ MODULE MC_C04f ------------------------------
(***************************************************************************)
(* A call that grows a collection, seen as its internal steps, with one    *)
(* allocation request that may be refused -- the design the fault stage    *)
(* holds the implementation to.  Two disciplines are modelled:             *)
(*   "reserve"  (what Crystal_ReadFile does after the fix): parse into a   *)
(*              staging area, reserve room in the destination, then hand   *)
(*              the staged entries over without further requests;          *)
(*   "copyeach" (what it did before): copy the staged entries into the     *)
(*              destination one at a time, each copy being a request.      *)
(* Invariant Atomic: when the call has returned failure the destination    *)
(* is what it was; when it returned success it holds every new entry.      *)
(* NoLeak: after the return, staging holds nothing.  TLC shows that        *)
(* "reserve" satisfies both for every position of the refused request and  *)
(* that "copyeach" violates Atomic (MC_C04f_copyeach.cfg, expected).       *)
(***************************************************************************)
EXTENDS Integers, FiniteSets, TLC
CONSTANTS NNew, Discipline, MaxReq
VARIABLES pc, dest, staged, room, req, failAt, ret
vars == <<pc, dest, staged, room, req, failAt, ret>>
New == 1..NNew
Old == {0}
Init == pc = "parse" /\ dest = Old /\ staged = {} /\ room = 1 /\ req = 0 /\ failAt \in 0..MaxReq /\ ret = "none"
\* one allocation request: granted unless it is the failAt-th
Granted == req + 1 # failAt
Ask == req' = req + 1
Fail == pc' = "cleanup" /\ ret' = "fail"
Parse ==   \* stage the next entry (one request per entry)
  /\ pc = "parse"
  /\ IF staged = New THEN pc' = (IF Discipline = "reserve" THEN "reserve" ELSE "copy") /\ UNCHANGED <<dest, staged, room, ret, req>>
     ELSE LET e == CHOOSE e \in New \ staged : \A f \in New \ staged : e <= f IN
          Ask /\ IF Granted THEN staged' = staged \cup {e} /\ UNCHANGED <<pc, dest, room, ret>> ELSE Fail /\ UNCHANGED <<dest, staged, room>>
  /\ UNCHANGED failAt
Reserve == \* one request makes room for everything that is staged
  /\ pc = "reserve" /\ Ask /\ UNCHANGED <<dest, staged, failAt>>
  /\ IF Granted THEN room' = Cardinality(dest) + Cardinality(staged) /\ pc' = "handover" /\ ret' = ret ELSE Fail /\ room' = room
HandOver == \* no request: ownership of every staged entry moves
  /\ pc = "handover" /\ dest' = dest \cup staged /\ staged' = {} /\ pc' = "cleanup" /\ ret' = "ok" /\ UNCHANGED <<room, req, failAt>>
CopyEach == \* the old discipline: one copy (one request) per entry, the destination grows as it goes
  /\ pc = "copy" /\ UNCHANGED <<failAt, room>>
  /\ IF staged \subseteq dest THEN pc' = "cleanup" /\ ret' = "ok" /\ UNCHANGED <<dest, staged, req>>
     ELSE LET e == CHOOSE e \in staged \ dest : TRUE IN
          Ask /\ (IF Granted THEN dest' = dest \cup {e} /\ UNCHANGED <<pc, ret>> ELSE Fail /\ dest' = dest) /\ staged' = staged
Cleanup == pc = "cleanup" /\ staged' = {} /\ pc' = "done" /\ UNCHANGED <<dest, room, req, failAt, ret>>
Next == Parse \/ Reserve \/ HandOver \/ CopyEach \/ Cleanup
Spec == Init /\ [][Next]_vars
Atomic == pc = "done" => (ret = "fail" /\ dest = Old) \/ (ret = "ok" /\ dest = Old \cup New)
NoLeak == pc = "done" => staged = {}
FailsOnlyOnFault == pc = "done" /\ ret = "fail" => failAt \in 1..req
============================================================================
