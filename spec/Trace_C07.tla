----------------------------- MODULE Trace_C07 -----------------------------
(* C07 conformance: every string handed to the real parser is judged by the TLA+ reference parser. *)
EXTENDS XrlFacts, XrlChunks, FP
Mendel == NameFacts.Mendel
SymbolZ == [s \in { Mendel[i][2] : i \in 1..Len(Mendel) } |-> Mendel[CHOOSE i \in 1..Len(Mendel) : Mendel[i][2] = s][1]]
P == INSTANCE XrlParser
WeightEv == JsonDeserialize(IOEnv.XRL_WEIGHTS)
Weight == [z \in 1..Len(WeightEv.w) |-> [ok |-> WeightEv.w[z][1] = 1, v |-> WeightEv.w[z][2]]]
Tol == F("1e-12")
SameRecord(want, ev) ==
  /\ ev.ok = 1 /\ ev.err = 0
  /\ ev.el = want.el                                                       \* ascending, no duplicates, exactly the elements of the expansion
  /\ Len(ev.n) = Len(want.n) /\ Len(ev.mf) = Len(want.mf)
  /\ \A i \in 1..Len(want.n) : FClose(ev.n[i], want.n[i], Tol, Zero) /\ FClose(ev.mf[i], want.mf[i], Tol, Zero) /\ FPos(ev.mf[i])
  /\ FClose(ev.tot, want.tot, Tol, Zero) /\ FClose(ev.mm, want.mm, Tol, Zero)
  /\ FClose(FSum(ev.mf), One, Zero, F("1e-12"))
Complaint(i, ev) ==
  LET v == P!Verdict(ev.b, Weight) IN
  (IF ev.loc1 # ev.loc0 THEN {[prop |-> "C07", line |-> i, bytes |-> ev.b, why |-> "the process locale was changed by parsing", group |-> ev.g]} ELSE {})
  \cup (IF v.ok THEN (IF SameRecord(v, ev) THEN {} ELSE {[prop |-> "C07", line |-> i, bytes |-> ev.b, group |-> ev.g, why |-> "well-formed formula: rejected or wrong composition", reason |-> "W",
                                                         got |-> [ok |-> ev.ok, el |-> IF ev.ok = 1 THEN ev.el ELSE <<>>], want |-> [el |-> v.el, n |-> [k \in 1..Len(v.n) |-> FStr(v.n[k])]]]})
        ELSE IF v.why = "undecided" THEN {}
        ELSE (IF ev.ok = 0 /\ ev.err = 1 THEN {} ELSE {[prop |-> "C07", line |-> i, bytes |-> ev.b, group |-> ev.g, why |-> "malformed string accepted", reason |-> v.why,
                                                       got |-> [ok |-> ev.ok, el |-> IF ev.ok = 1 THEN ev.el ELSE <<>>]]}))
\* the three spellings of one formula (as generated, terms permuted, groups expanded) must yield the same composition
SameComposition(a, b) == a.ok = b.ok /\ (a.ok = 1 => a.el = b.el /\ \A k \in 1..Len(a.mf) : FClose(a.mf[k], b.mf[k], Tol, Zero) /\ FClose(a.n[k], b.n[k], Tol, Zero))
\* add_compound_data: ascending union with mass fractions wA*fA + wB*fB
FracOf(cd, z) == IF \E k \in 1..Len(cd.el) : cd.el[k] = z THEN cd.mf[CHOOSE k \in 1..Len(cd.el) : cd.el[k] = z] ELSE Zero
AddOK(ev) == LET u == { ev.A.el[k] : k \in 1..Len(ev.A.el) } \cup { ev.B.el[k] : k \in 1..Len(ev.B.el) } IN
             /\ { ev.R.el[k] : k \in 1..Len(ev.R.el) } = u /\ Len(ev.R.el) = Cardinality(u)
             /\ \A k \in 1..(Len(ev.R.el) - 1) : ev.R.el[k] < ev.R.el[k + 1]
             /\ \A k \in 1..Len(ev.R.el) : FClose(ev.R.mf[k], FAdd(FMul(ev.wA, FracOf(ev.A, ev.R.el[k])), FMul(ev.wB, FracOf(ev.B, ev.R.el[k]))), Tol, Zero)
BadOf(i, ev) ==
  CASE ev.k = "parse" -> Complaint(i, ev)
    [] ev.k = "group" -> UNION { Complaint(i, ev.p[j]) : j \in 1..Len(ev.p) }
                         \cup (IF \A j \in 2..Len(ev.p) : SameComposition(ev.p[1], ev.p[j]) THEN {} ELSE {[prop |-> "C07", line |-> i, bytes |-> ev.p[1].b, why |-> "composition changes under reordering of terms / expansion of a group"]})
    [] ev.k = "addc" -> IF AddOK(ev) THEN {} ELSE {[prop |-> "C07", line |-> i, why |-> "add_compound_data is not the weighted ascending union", A |-> ev.A.el, B |-> ev.B.el, R |-> ev.R.el]}
    [] OTHER -> {}
Judged == JudgedWith(BadOf)
============================================================================
