------------------------------- MODULE XrlHeap -------------------------------
(***************************************************************************)
(* C04, the part a specification decides: OWNERSHIP and LEAKS.             *)
(* The ledger: every object the library hands out is owned by the caller   *)
(* and has a footprint (heap blocks allocated by library code, observed    *)
(* through link-time interposition of malloc/calloc/realloc/strdup/        *)
(* strndup/vasprintf/free).  After every call                              *)
(*      live blocks = sum of the footprints of the objects still owned     *)
(* -- on failure paths as on success paths -- and no FILE stays open.      *)
(* A call that hands nothing out leaves nothing behind (but the error it   *)
(* reports); a release function returns exactly the footprint of its       *)
(* object; at the end of a history nothing is held.                        *)
(***************************************************************************)
EXTENDS Integers, Sequences, FiniteSets, TLC
\* The footprint of an object is what its constructor was SEEN to allocate (ev.d at the successful call), not a constant
\* of the pinned implementation: the property speaks about release ("exactly once with its documented free function, after
\* which the process holds no memory"), not about how many blocks stand behind an object.  A library that lays an object
\* out in fewer or more blocks keeps the property (benign/layout-a), and is accepted; a constructor that leaks a temporary
\* is still caught, because its release returns fewer blocks than the ledger holds for the object.
\* The blocks the pinned implementation uses are kept as a reference (reported in the evidence, never judged):
Footprint(kind, n) ==
  CASE kind = "compound" -> 4          \* struct + Elements + massFractions + nAtoms
    [] kind = "nist" -> 4              \* struct + name + Elements + massFractions
    [] kind = "nuclide" -> 6           \* struct + name + 4 arrays
    [] kind = "crystal" -> 3           \* struct + name + atoms
    [] kind = "list" -> n + 1          \* n strings + the array
    [] kind = "string" -> 1
    [] kind = "array" -> IF n > 0 THEN 2 ELSE 1     \* struct (+ storage)
    [] kind = "error" -> 2             \* struct + message
\* st = [own : id -> blocks held by the object in that slot (0 = not owned), pending : blocks of an error object sitting in the caller's slot]
Owned(st) == { i \in DOMAIN st.own : st.own[i] > 0 }
RECURSIVE SumOver(_, _)
SumOver(f, S) == IF S = {} THEN 0 ELSE LET x == CHOOSE x \in S : TRUE IN f[x] + SumOver(f, S \ {x})
Ledger(st) == SumOver(st.own, Owned(st)) + st.pending
Grows == {"Crystal_AddCrystal", "Crystal_ReadFile"}                \* steps that add to an object the caller already owns
Storage(ev) == IF "g" \in DOMAIN ev /\ ev.op \in Grows /\ ev.g = 1 THEN 1 ELSE 0        \* the step allocated the array's storage block
Succeeded(ev) == ev.op # "Call" /\ ev.ok = 1
\* is the observed change ev.d of the number of live blocks one the ledger allows?  ("" = yes, otherwise what is wrong)
DeltaWhy(st, ev) ==
  CASE ev.op = "Free" -> IF ev.d = 0 - st.own[ev.id] THEN "" ELSE "the release function returned " \o ToString(0 - ev.d) \o " blocks, the object holds " \o ToString(st.own[ev.id])
    [] ev.op = "ClearError" -> IF ev.d = 0 - st.pending THEN "" ELSE "clearing the error returned " \o ToString(0 - ev.d) \o " blocks, the error holds " \o ToString(st.pending)
    [] Succeeded(ev) -> IF ev.op \in Grows THEN (IF ev.d >= 0 THEN "" ELSE "a successful addition released memory")
                        ELSE (IF ev.d >= 1 THEN "" ELSE "a constructor handed out an object without allocating it")
    [] OTHER ->          \* failed constructor / addition, or a call that hands nothing out: only an error object may stay behind --
                         \* and the storage block a failed addition gave an array that had none (capacity is not content; the block belongs to the array)
         IF ev.err = 1 /\ ev.slot = 1 THEN (IF ev.d - Storage(ev) >= 1 THEN "" ELSE "an error was reported but no error object was allocated")
         ELSE (IF ev.d - Storage(ev) = 0 THEN "" ELSE "live heap blocks changed by " \o ToString(ev.d) \o " across a call that handed nothing out")
HeapStep(st, ev) ==
  CASE ev.op = "Free" -> [st EXCEPT !.own[ev.id] = 0]
    [] ev.op = "ClearError" -> [st EXCEPT !.pending = 0]
    [] Succeeded(ev) /\ ev.op \in Grows -> [st EXCEPT !.own[ev.id] = @ + ev.d]
    [] Succeeded(ev) -> [st EXCEPT !.own[ev.id] = ev.d]
    [] ev.op \in Grows /\ Storage(ev) = 1 -> [st EXCEPT !.own[ev.id] = @ + 1, !.pending = @ + ev.d - 1]
    [] OTHER -> [st EXCEPT !.pending = @ + ev.d]
\* outcome protocol seen from the ledger: a failed call reports through the slot iff there is one
ProtocolOK(ev) == ev.op \in {"Free", "ClearError", "add_compound_data"} \/ ((ev.ok = 1 => ev.err = 0) /\ (ev.ok = 0 /\ ev.slot = 1 => ev.err = 1) /\ (ev.slot = 0 => ev.err = 0))

\* ---------------------------------------------------------------- a fault at a particular point: the k-th allocation request of a call fails
\* A public call is a sequence of internal steps; each allocation request either is granted or (once) refused.  What the
\* properties demand of a call in which a request was refused (C03: reported iff failed; C04: nothing held, nothing
\* undefined; C14: a rejected addition leaves the collection as it was, and the collection stays usable):
\*   ev = [scen, fn, at (0 = no fault), n (requests of the clean run), sig/status (how the child ended), inj (faults delivered),
\*         ok, err, code, msg, same (collection as before: 1/0, -1 n.a.), has (object / collection complete: 1/0, -1 n.a.),
\*         after (the same call succeeds when repeated without a fault: 1/0, -1 n.a.), bi (works on the built-in collection),
\*         d (live blocks still held after the caller released everything it owns), files]
MEMORY == 0          \* XRL_ERROR_MEMORY
ReportsOnly(ev) == ev.scen = "failing_call"         \* a call that fails anyway: the refused request belongs to the error object itself
\* the compound functions fall back to the NIST catalogue when the parser fails and report what the *last* attempt said: any code of the enumeration is accepted there
Composite(ev) == ev.scen \in {"cs_total_cp", "refractive_index"}
FaultKind(ev) ==
  IF ev.sig # 0 \/ ev.status # 0 THEN "died"
  ELSE IF ev.at = 0 THEN (IF (ev.ok = 1 \/ ReportsOnly(ev)) /\ ev.has # 0 /\ (ev.d = 0 \/ ev.bi = 1) /\ ev.files = 0 THEN "" ELSE "broken-without-fault")
  ELSE IF ev.files # 0 THEN "file-left-open"
  ELSE IF ev.d # 0 /\ ev.bi = 0 THEN "leak"
  ELSE IF ReportsOnly(ev) THEN (IF ev.err = 1 /\ ev.msg = 0 THEN "error-without-message" ELSE IF ev.has = 0 THEN "no-sentinel" ELSE "")
  ELSE IF ev.ok = 1 THEN (IF ev.has = 0 THEN "incomplete-result" ELSE "")           \* the refusal was absorbed (or never reached): the result must be whole
  ELSE IF ev.inj = 0 THEN "failed-without-fault"
  ELSE IF ev.err = 0 THEN "silent-failure"
  ELSE IF ev.code # MEMORY /\ ~Composite(ev) THEN "wrong-code"
  ELSE IF ~(ev.code >= 0 /\ ev.code <= 5) THEN "wrong-code"
  ELSE IF ev.msg = 0 THEN "error-without-message"
  ELSE IF ev.same = 0 THEN "collection-changed"
  ELSE IF ev.after = 0 THEN "collection-unusable"
  ELSE ""
FaultWhy(ev) ==
  LET k == FaultKind(ev) IN
  CASE k = "" -> ""
    [] k = "died" -> "the process died inside the call when allocation request " \o ToString(ev.at) \o " of " \o ToString(ev.n) \o " was refused (undefined access)"
    [] k = "broken-without-fault" -> "the scenario fails, leaks or hands out an incomplete object without any fault"
    [] k = "file-left-open" -> "a FILE is left open after the refused allocation"
    [] k = "leak" -> "memory is still held after everything was released (" \o ToString(ev.d) \o " blocks)"
    [] k = "incomplete-result" -> "the call reported success but the object / collection it produced is incomplete"
    [] k = "failed-without-fault" -> "the call failed although no allocation was refused"
    [] k = "silent-failure" -> "the call failed without storing an error"
    [] k = "wrong-code" -> "a refused allocation is reported with code " \o ToString(ev.code) \o " instead of XRL_ERROR_MEMORY"
    [] k = "error-without-message" -> "the stored error has no message"
    [] k = "no-sentinel" -> "the failing call did not return the sentinel"
    [] k = "collection-changed" -> "the rejected addition changed the collection"
    [] k = "collection-unusable" -> "after the rejected addition the same addition, repeated without a fault, does not succeed"
==============================================================================
