------------------------------- MODULE XrlHeap -------------------------------
(***************************************************************************)
(* C04, the part a specification decides: OWNERSHIP and LEAKS.             *)
(* The ledger: every object the library hands out is owned by the caller   *)
(* and has a footprint (heap blocks allocated by library code, observed    *)
(* through link-time interposition of malloc/calloc/realloc/strdup/        *)
(* strndup/vasprintf/free).  After every call                              *)
(*      live blocks = sum of the footprints of the objects still owned     *)
(* -- on failure paths as on success paths -- and no FILE stays open.      *)
(* A release function returns exactly the footprint of its object.         *)
(***************************************************************************)
EXTENDS Integers, Sequences, FiniteSets, TLC
\* footprint of a freshly constructed object of a result kind (n: list length / requested capacity / flags, as logged)
Footprint(kind, n) ==
  CASE kind = "compound" -> 4          \* struct + Elements + massFractions + nAtoms
    [] kind = "nist" -> 4              \* struct + name + Elements + massFractions
    [] kind = "nuclide" -> 6           \* struct + name + 4 arrays
    [] kind = "crystal" -> 3           \* struct + name + atoms
    [] kind = "list" -> n + 1          \* n strings + the array
    [] kind = "string" -> 1
    [] kind = "array" -> IF n > 0 THEN 2 ELSE 1     \* struct (+ storage)
    [] kind = "error" -> 2             \* struct + message
\* st = [own : id -> footprint (0 = not owned), pending : blocks of an error object sitting in the caller's slot]
Owned(st) == { i \in DOMAIN st.own : st.own[i] > 0 }
RECURSIVE SumOver(_, _)
SumOver(f, S) == IF S = {} THEN 0 ELSE LET x == CHOOSE x \in S : TRUE IN f[x] + SumOver(f, S \ {x})
Ledger(st) == SumOver(st.own, Owned(st)) + st.pending
\* expected change of the number of live blocks by one logged step; ev.n carries: list length (lists), requested capacity (ArrayInit),
\* had-storage flag (AddCrystal), 10*entries + had-storage (successful ReadFile)
Delta(st, ev) ==
  LET errblocks == IF ev.err = 1 /\ ev.slot = 1 THEN Footprint("error", 0) ELSE 0 IN
  CASE ev.op = "Free" -> 0 - st.own[ev.id]
    [] ev.op = "ClearError" -> 0 - st.pending
    [] ev.op = "Call" -> errblocks
    [] ev.op = "Crystal_AddCrystal" -> (IF ev.ok = 1 THEN 2 + (IF ev.n = 0 THEN 1 ELSE 0) ELSE 0) + errblocks
    [] ev.op = "Crystal_ReadFile" -> (IF ev.ok = 1 THEN 2 * (ev.n \div 10) + (IF ev.n % 10 = 0 /\ ev.n \div 10 > 0 THEN 1 ELSE 0) ELSE 0) + errblocks      \* a file without entries (empty, the null device) adds nothing and needs no storage
    [] OTHER -> (IF ev.ok = 1 THEN Footprint(ev.kind, ev.n) ELSE 0) + errblocks
HeapStep(st, ev) ==
  LET errblocks == IF ev.err = 1 /\ ev.slot = 1 THEN Footprint("error", 0) ELSE 0 IN
  CASE ev.op = "Free" -> [st EXCEPT !.own[ev.id] = 0]
    [] ev.op = "ClearError" -> [st EXCEPT !.pending = 0]
    [] ev.op \in {"Crystal_AddCrystal", "Crystal_ReadFile"} -> [st EXCEPT !.own[ev.id] = @ + Delta(st, ev) - errblocks, !.pending = @ + errblocks]
    [] ev.op = "Call" -> [st EXCEPT !.pending = @ + errblocks]
    [] OTHER -> IF ev.ok = 1 THEN [st EXCEPT !.own[ev.id] = Footprint(ev.kind, ev.n), !.pending = @ + errblocks] ELSE [st EXCEPT !.pending = @ + errblocks]
\* outcome protocol seen from the ledger: a failed call reports through the slot iff there is one
ProtocolOK(ev) == ev.op \in {"Free", "ClearError", "add_compound_data"} \/ ((ev.ok = 1 => ev.err = 0) /\ (ev.ok = 0 /\ ev.slot = 1 => ev.err = 1) /\ (ev.slot = 0 => ev.err = 0))
==============================================================================
