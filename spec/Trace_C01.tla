----------------------------- MODULE Trace_C01 -----------------------------
(* C01 conformance: every cell of every recorded accessor row is judged against the property layer. *)
EXTENDS XrlScalar, XrlChunks
CellBad(i, ev) ==
  { [prop |-> "C01", line |-> i, fn |-> ev.fn, Z |-> ev.Z, m |-> ev.lo + j - 1,
     got |-> [ok |-> ev.ok[j] = 1, v |-> FStr(ev.v[j])], want |-> PropWant(ev.fn, ev.Z, ev.lo + j - 1)] :
    j \in { j \in 1..Len(ev.ok) :
              /\ ~Skipped(ev.fn, ev.lo + j - 1)
              /\ ~PropAccept(ev.fn, ev.Z, ev.lo + j - 1, ev.ok[j] = 1, ev.v[j]) } }
BadOf(i, ev) == IF ev.k = "row" /\ ev.fn \in ScalarQ THEN CellBad(i, ev)
                ELSE {[prop |-> "C01", line |-> i, why |-> "unexpected event", ev |-> ev]}
Judged == JudgedWith(BadOf)
============================================================================
