----------------------------- MODULE Trace_C01 -----------------------------
(* C01 conformance: every cell of every recorded accessor row is judged against the property layer. *)
EXTENDS XrlScalar, XrlChunks
CellBad(i, ev) ==
  { [prop |-> "C01", line |-> i, fn |-> ev.fn, Z |-> ev.Z, m |-> ev.lo + j - 1,
     got |-> [ok |-> ev.ok[j] = 1, v |-> FStr(ev.v[j])], want |-> PropWant(ev.fn, ev.Z, ev.lo + j - 1)] :
    j \in { j \in 1..Len(ev.ok) :
              /\ ~Skipped(ev.fn, ev.lo + j - 1)
              /\ ~PropAccept(ev.fn, ev.Z, ev.lo + j - 1, ev.ok[j] = 1, ev.v[j]) } }
\* a caller who passes no error slot must get the same bits (where the call fails: the 0 sentinel, never a number)
NoSlot(i, ev) == IF "nd" \in DOMAIN ev /\ ev.nd # 0
                 THEN {[prop |-> "C01", line |-> i, fn |-> ev.fn, Z |-> ev.Z, m |-> ev.ndm, why |-> "called without an error slot the accessor returned something else than with one", cells |-> ev.nd]}
                 ELSE {}
BadOf(i, ev) == IF ev.k = "row" /\ ev.fn \in ScalarQ THEN CellBad(i, ev) \cup NoSlot(i, ev)
                ELSE {[prop |-> "C01", line |-> i, why |-> "unexpected event", ev |-> ev]}
Judged == JudgedWith(BadOf)
============================================================================
