----------------------------- MODULE Trace_C06 -----------------------------
EXTENDS XrlCompound, XrlChunks
BadOf(i, ev) == IF ev.k = "cp" THEN { [prop |-> "C06", line |-> i, compound |-> ev.s, E |-> FStr(ev.E), theta |-> FStr(ev.th), phi |-> FStr(ev.ph), rho |-> FStr(ev.rho), src |-> ev.src, why |-> m] : m \in Complaints(ev) }
                ELSE {[prop |-> "C06", line |-> i, why |-> "unexpected event"]}
Judged == JudgedWith(BadOf)
Static == c = 0 => (ConstantsOK \/ PrintT("MISMATCH " \o ToJson([prop |-> "C06", layer |-> "spec", why |-> "refractive-index constants of the code differ from r_e N_A (hc)^2/2pi or hc/4pi derived from the header constants", K |-> FStr(KDerived), hc4pi |-> FStr(HcOver4Pi)])))
============================================================================
