----------------------------- MODULE Trace_C05 -----------------------------
EXTENDS XrlComposite, XrlChunks
Show(w) == IF w.ok THEN FStr(w.v) ELSE "error"
BadOf(i, ev) ==
  IF ev.k = "aggE" THEN
    { [prop |-> "C05", line |-> i, fn |-> n, Z |-> ev.Z, E |-> FStr(ev.E), got |-> [ok |-> Ok(ev.r, n), v |-> FStr(V(ev.r, n))], want |-> Show(WantE(ev, n))] :
      n \in { n \in AggregatesE : ~Agree(WantE(ev, n), Ok(ev.r, n), V(ev.r, n)) } }
    \cup { [prop |-> "C05", line |-> i, fn |-> "CS_Photo_Partial", Z |-> ev.Z, shell |-> s, E |-> FStr(ev.E), got |-> [ok |-> ev.p[s + 1][1] = 1, v |-> FStr(ev.p[s + 1][2])], want |-> Show(WantPartial(ev, s))] :
           s \in { s \in 0..30 : ~Agree(WantPartial(ev, s), ev.p[s + 1][1] = 1, ev.p[s + 1][2]) } }
    \cup { [prop |-> "C05", line |-> i, fn |-> ev.tw[j].n, Z |-> ev.Z, shell_or_line |-> ev.tw[j].m, E |-> FStr(ev.E), got |-> [ok |-> ev.tw[j].b[1] = 1, v |-> FStr(ev.tw[j].b[2])], want |-> Show(WantTwin(ev, ev.tw[j]))] :
           j \in { j \in 1..Len(ev.tw) : ~Agree(WantTwin(ev, ev.tw[j]), ev.tw[j].b[1] = 1, ev.tw[j].b[2]) } }
  ELSE IF ev.k = "aggA" THEN
    { [prop |-> "C05", line |-> i, fn |-> n, Z |-> ev.Z, E |-> FStr(ev.E), theta |-> FStr(ev.th), phi |-> FStr(ev.ph), got |-> [ok |-> Ok(ev.r, n), v |-> FStr(V(ev.r, n))], want |-> Show(WantA(ev, n))] :
      n \in { n \in AggregatesA : ~Agree(WantA(ev, n), Ok(ev.r, n), V(ev.r, n)) } }
  ELSE {[prop |-> "C05", line |-> i, why |-> "unexpected event"]}
\* "instead of returning a partial sum" also holds for a caller who passes no error slot: the value must be the same bits (the 0 sentinel on failure)
NoSlot(i, ev) == IF ev.k \in {"aggE", "aggA"}
                 THEN { [prop |-> "C05", line |-> i, fn |-> n, Z |-> ev.Z, E |-> FStr(ev.E), why |-> "called without an error slot the function returned something else than with one", with_slot |-> [ok |-> Ok(ev.r, n), v |-> FStr(V(ev.r, n))]] :
                        n \in { n \in DOMAIN ev.r : ev.r[n][3] # 1 } }
                 ELSE {}
BadOf2(i, ev) == BadOf(i, ev) \cup NoSlot(i, ev)
Judged == JudgedWith(BadOf2)
============================================================================
