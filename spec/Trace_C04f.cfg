INIT Init
NEXT Next
POSTCONDITION Done
CHECK_DEADLOCK FALSE
