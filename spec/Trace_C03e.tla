----------------------------- MODULE Trace_C03e -----------------------------
(* C03 part 1 conformance: histories over the real error API stepped through XrlErr!ErrStep; every logged field is bound. *)
EXTENDS XrlErr, Sequences, FiniteSets, Json, IOUtils
VARIABLES l, st, skip
Tr == ndJsonDeserialize(IOEnv.XRL_TRACE)
Slots == 1..2
Locs == 1..2
Empty == [slot |-> [s \in Slots |-> NoErr], loc |-> [x \in Locs |-> NoErr], over |-> 0]
Msg(i) == IF i = 0 THEN "a" ELSE "bb"
\* the program line that produced the event is not logged; the operation is re-derived from op name + the observed change is not enough,
\* so the harness logs nothing but the name: the arguments are bound by matching ANY legal operation of that name (few candidates)
Codes == {1, 5}
Msgs == {"a", "bb"}
Cands(name) ==
  CASE name = "Set" -> [op : {"Set"}, s : Slots, code : Codes, msg : Msgs]
    [] name = "SetNull" -> [op : {"SetNull"}, code : Codes, msg : Msgs]
    [] name = "New" -> [op : {"New"}, l : Locs, code : Codes, msg : Msgs]
    [] name = "Propagate" -> [op : {"Propagate"}, s : Slots, l : Locs]
    [] name = "PropagateNull" -> [op : {"PropagateNull"}, l : Locs]
    [] name = "Clear" -> [op : {"Clear"}, s : Slots]
    [] name = "Copy" -> [op : {"Copy"}, s : Slots, l : Locs]
    [] name = "CopyLoc" -> [op : {"CopyLoc"}, l : Locs, l2 : Locs]
    [] name = "Free" -> [op : {"Free"}, l : Locs]
    [] name = "Matches" -> [op : {"Matches"}, s : Slots, code : Codes \cup {0}]
Proj(s) == [slot |-> <<s.slot[1], s.slot[2]>>, loc |-> <<s.loc[1], s.loc[2]>>, over |-> s.over, live |-> 2 * LiveErrs(s)]
Init == l = 1 /\ st = Empty /\ skip = FALSE
Next ==
  /\ l <= Len(Tr) /\ l' = l + 1
  /\ LET ev == Tr[l] IN
     IF ev.k = "reset" THEN st' = Empty /\ skip' = FALSE
     ELSE IF skip THEN UNCHANGED <<st, skip>>
     ELSE LET good == { op \in Cands(ev.op) : ErrLegal(st, op) /\ Proj(ErrStep(st, op)) = ev.st /\ ErrResult(st, op) = ev.res } IN
          IF good # {} THEN st' = ErrStep(st, CHOOSE op \in good : TRUE) /\ skip' = FALSE
          ELSE /\ PrintT("MISMATCH " \o ToJson([prop |-> "C03", layer |-> "error API", line |-> l, hist |-> ev.hist, step |-> ev.i, op |-> ev.op,
                                                why |-> "no legal operation of the slot algebra explains the observed slots, locals, overwrite count and live blocks", got |-> ev.st, before |-> Proj(st)]))
               /\ st' = st /\ skip' = TRUE
Done == TLCGet("stats").diameter = Len(Tr) + 1 /\ PrintT("JUDGED " \o ToString(Len(Tr)) \o " events in 1 chunks")
=============================================================================
