------------------------------ MODULE XrlSpline ------------------------------
(***************************************************************************)
(* C02.  Cubic-spline interpolation through shipped knots (x_i, y_i) with  *)
(* second derivatives y2_i, never extrapolating.                           *)
(*  property layer : the interval of x is [x_k, x_k+1] with                *)
(*                   k = max{ i < N : x_i <= x };                          *)
(*  mechanism layer: the library's bisection (right-continuous).           *)
(* MC_C02 checks that both agree on small synthetic tables; the traces     *)
(* bind the library to SplineAccept on the real tables.                    *)
(* Documented deviations that are part of the spec: the 1e-7 slack at the  *)
(* top of a table (either outcome), and duplicated abscissae (absorption   *)
(* edges): at such an abscissa, within 4 ulp of the logged transformed     *)
(* argument, either side (or the mean the code takes on a zero-width       *)
(* interval) counts as the tabulated value.                                *)
(***************************************************************************)
EXTENDS Integers, Sequences, FiniteSets, FP, TLC
\* a table: [N, x, y, y2] with x, y, y2 sequences of doubles
Six == FI(6)
TopSlack == F("1e-7")
Cubic(t, k, x) ==
  LET h == FSub(t.x[k + 1], t.x[k]) IN
  IF FEq(h, Zero) THEN FDiv(FAdd(t.y[k], t.y[k + 1]), Two)
  ELSE LET a == FDiv(FSub(t.x[k + 1], x), h)
           b == FDiv(FSub(x, t.x[k]), h)
       IN FAdd(FAdd(FMul(a, t.y[k]), FMul(b, t.y[k + 1])),
               FDiv(FMul(FAdd(FMul(FSub(FMul(a, FMul(a, a)), a), t.y2[k]), FMul(FSub(FMul(b, FMul(b, b)), b), t.y2[k + 1])), FMul(h, h)), Six))
\* mechanism: bisection as in the library; returns klo with x[klo] <= x (for x >= x[1])
RECURSIVE Bisect(_, _, _, _)
Bisect(xs, x, klo, khi) == IF khi - klo <= 1 THEN klo
                           ELSE LET k == (khi + klo) \div 2 IN IF FGt(xs[k], x) THEN Bisect(xs, x, klo, k) ELSE Bisect(xs, x, k, khi)
\* property: the last knot interval whose left end is <= x
IntervalOf(xs, x) == LET S == { i \in 1..(Len(xs) - 1) : FLe(xs[i], x) } IN CHOOSE i \in S : \A j \in S : j <= i
\* knot intervals that may legitimately be used for x: the bisection result and, where x sits within 4 ulp of a knot, its neighbours
Near(a, b) == FUlps(a, b) <= 4
Candidates(t, x) ==
  LET k0 == Bisect(t.x, x, 1, t.N)
      around == { k \in (k0 - 3)..(k0 + 3) : k >= 1 /\ k < t.N }
  IN { k \in around : k = k0 \/ ((FLe(t.x[k], x) \/ Near(t.x[k], x)) /\ (FLe(x, t.x[k + 1]) \/ Near(t.x[k + 1], x))) }
Tol == F("1e-9")
AbsTol(t) == F("1e-13")
\* values acceptable at x for interval k: the cubic; on a zero-width interval either record or their mean
ValuesAt(t, k, x) == IF FEq(t.x[k], t.x[k + 1]) THEN { t.y[k], t.y[k + 1], Cubic(t, k, x) } ELSE { Cubic(t, k, x) }
\* (ok, v) is an acceptable outcome of interpolating table t at abscissa x; Post maps the interpolated ordinate to the result
SplineAccept(t, x, ok, v, Post(_)) ==
  IF t.N < 2 THEN ~ok
  ELSE IF FLt(x, t.x[1]) THEN ~ok                                             \* below the table: error, never a number
  ELSE IF FGt(FSub(x, t.x[t.N]), TopSlack) THEN ~ok                           \* above the table (beyond the slack): error
  ELSE IF FGt(x, t.x[t.N]) THEN ~ok \/ FClose(v, Post(Cubic(t, t.N - 1, x)), Tol, AbsTol(t))       \* inside the 1e-7 slack: either
  ELSE ok /\ \E k \in Candidates(t, x) : \E y \in ValuesAt(t, k, x) : FClose(v, Post(y), Tol, AbsTol(t))
\* assumptions of the bisection, checked on every real table
TableOK(t) == t.N >= 2 /\ Len(t.x) = t.N /\ Len(t.y) = t.N /\ Len(t.y2) = t.N /\ \A i \in 1..(t.N - 1) : FLe(t.x[i], t.x[i + 1])
\* properties of the operator itself (MC_C02, exact arithmetic on dyadic tables)
AtKnots(t) == \A i \in 1..t.N : SplineAccept(t, t.x[i], TRUE, t.y[i], LAMBDA y : y)
BisectIsInterval(t, x) == (FLe(t.x[1], x) /\ FLe(x, t.x[t.N])) => (Bisect(t.x, x, 1, t.N) = IntervalOf(t.x, x) \/ FEq(x, t.x[t.N]))
==============================================================================
