----------------------------- MODULE Trace_C16 -----------------------------
(* C16 conformance: recorded histories of the whole API stepped through the frame conditions of XrlPure. *)
EXTENDS XrlPure, Json, IOUtils, FiniteSets
VARIABLES l, st, skip
Tr == ndJsonDeserialize(IOEnv.XRL_TRACE)
Report(ev, why, extra) == PrintT("MISMATCH " \o ToJson([prop |-> "C16", line |-> l, hist |-> ev.hist, step |-> IF "i" \in DOMAIN ev THEN ev.i ELSE 0 - 1, why |-> why, detail |-> extra,
                                                        call |-> IF ev.k = "q" THEN [fn |-> ev.fn, ia |-> ev.ia, s |-> ev.s, da |-> ev.da] ELSE [op |-> IF "op" \in DOMAIN ev THEN ev.op ELSE ev.k]]))
Init == l = 1 /\ st = [none |-> TRUE] /\ skip = FALSE
Next ==
  /\ l <= Len(Tr) /\ l' = l + 1
  /\ LET ev == Tr[l] IN
     CASE ev.k = "reset" -> st' = ev.st /\ skip' = FALSE
       [] ev.k = "abort" -> Report(ev, "history ended abnormally", <<>>) /\ st' = st /\ skip' = TRUE
       [] ev.k = "q" /\ ~skip ->
            (IF ~QueryPure(ev.res, ev.ref) THEN Report(ev, "query result depends on the call history (differs from a fresh process)", [here |-> ev.res, fresh |-> ev.ref]) ELSE TRUE)
            /\ (IF ~FrameOK("query", st, ev.st) THEN Report(ev, "a query changed library or process state", Changed(st, ev.st)) ELSE TRUE)
            /\ st' = ev.st /\ skip' = FALSE
       [] ev.k = "op" /\ ~skip ->
            (IF ~FrameOK(ev.op, st, ev.st) THEN Report(ev, "operation changed state it may not change", Changed(st, ev.st)) ELSE TRUE)
            /\ (IF ~ErrsOK(ev.op, IF "slot" \in DOMAIN ev THEN ev.slot ELSE 0, st, ev.st) THEN Report(ev, "an error object held by the caller was affected by a later call", [before |-> st.errs, after |-> ev.st.errs]) ELSE TRUE)
            /\ st' = ev.st /\ skip' = FALSE
       [] OTHER -> UNCHANGED <<st, skip>>
Done == TLCGet("stats").diameter = Len(Tr) + 1 /\ PrintT("JUDGED " \o ToString(Len(Tr)) \o " events in " \o ToString(Cardinality({ i \in 1..Len(Tr) : Tr[i].k = "reset" })) \o " chunks")
============================================================================
