----------------------------- MODULE Trace_C02 -----------------------------
(* C02 conformance: every recorded evaluation of an interpolated quantity is judged against XrlSpline on the shipped table. *)
EXTENDS XrlSpline, XrlFacts, XrlChunks
SplineDir == FactsDir \o "/spline/"
SplineIndex == JsonDeserialize(SplineDir \o "index.json")
KisselIndex == JsonDeserialize(SplineDir \o "kissel_index.json")
Dir(q) == CASE q = "FF_Rayl" -> "FF" [] q = "SF_Compt" -> "SF" [] q \in {"ComptonProfile", "ComptonProfile_Partial"} -> "Compton"
            [] q = "CSb_Photo_Partial" -> "Kissel" [] OTHER -> q
HasFile(q, Z) == IF Dir(q) = "Compton" THEN ToString(Z) \in DOMAIN ComptonOcc
                 ELSE IF Dir(q) = "Kissel" THEN Z >= 1 /\ Z <= Len(KisselIndex)
                 ELSE Z >= 1 /\ Z <= Len(SplineIndex[Dir(q)]) /\ (q = "CS_Energy" => Z <= 92)
Raw(q, Z) == JsonDeserialize(SplineDir \o Dir(q) \o "/Z" \o ToString(Z) \o ".json")
\* the value of a data-file token as compiled into the library: rounded to the 11 significant digits the generator prints (R = TRUE), or exact (R = FALSE:
\* a generator that prints more digits is just as faithful to the shipped data)
Conv(seq, R) == [i \in 1..Len(seq) |-> IF R THEN FRound11(F(seq[i])) ELSE F(seq[i])]
NoTab == [N |-> 0, x |-> <<>>, y |-> <<>>, y2 |-> <<>>]
\* the table of (q, Z, shell) as compiled into the library
TabOf(q, Z, shell, R) ==
  IF ~HasFile(q, Z) THEN NoTab
  ELSE LET r == Raw(q, Z) IN
       IF q = "ComptonProfile_Partial" THEN
            (IF ToString(shell) \in DOMAIN r.py THEN [N |-> r.N, x |-> Conv(r.x, R), y |-> Conv(r.py[ToString(shell)], R), y2 |-> Conv(r.py2[ToString(shell)], R)] ELSE NoTab)
       ELSE IF q = "CSb_Photo_Partial" THEN
            (IF ToString(shell) \in DOMAIN r.shells /\ FGe(F(r.occ[shell + 1]), F("1e-6"))
             THEN LET s == r.shells[ToString(shell)] IN [N |-> s.N, x |-> Conv(s.x, R), y |-> Conv(s.y, R), y2 |-> Conv(s.y2, R)] ELSE NoTab)
       ELSE [N |-> r.N, x |-> Conv(r.x, R), y |-> Conv(r.y, R), y2 |-> Conv(r.y2, R)]
LogSpace(q) == q \in {"CS_Photo", "CS_Rayl", "CS_Compt", "CS_Energy", "ComptonProfile", "ComptonProfile_Partial", "CSb_Photo_Partial"}
Post(q, y) == IF LogSpace(q) THEN FExp(y) ELSE y
\* the transformed abscissa as the spec computes it; the logged one must agree within 4 ulp and is then used (it decides the side of an edge)
Thousand == F("1000.0")
SpecX(q, a) == CASE q \in {"CS_Photo", "CS_Rayl", "CS_Compt"} -> FLog(FMul(a, Thousand))
                 [] q \in {"CS_Energy", "CSb_Photo_Partial"} -> FLog(a)
                 [] q \in {"ComptonProfile", "ComptonProfile_Partial"} -> FLog(FAdd(a, One))
                 [] OTHER -> a
\* arguments outside the documented domain are errors whatever the table says
DomainOK(q, a) == CASE q = "FF_Rayl" -> FGe(a, Zero) [] q \in {"ComptonProfile", "ComptonProfile_Partial"} -> FGe(a, Zero) [] OTHER -> FPos(a)
One11 == One
PointAccept(q, Z, t, edge, p) ==
  LET a == p[1] x == p[2] ok == p[3] = 1 v == p[4] IN
  IF ~FIsFinite(a) \/ ~DomainOK(q, a) THEN ~ok
  ELSE IF q = "FF_Rayl" /\ FEq(a, Zero) THEN (IF t.N >= 2 THEN ok /\ FEq(v, FI(Z)) ELSE ~ok)          \* F(Z, 0) = Z
  ELSE IF t.N < 2 THEN ~ok
  ELSE IF FUlps(x, SpecX(q, a)) > 4 THEN FALSE                                  \* the harness' transform must be the documented one
  ELSE IF q = "CSb_Photo_Partial" THEN
         (IF ~FPos(edge) \/ FGt(edge, a) THEN ~ok                               \* below the shell's edge: error
          ELSE IF FLt(x, t.x[1]) THEN                                           \* between edge and first knot: bounded-slope log-log extension
                 LET m0 == FDiv(FSub(t.y[2], t.y[1]), FSub(t.x[2], t.x[1]))
                     m == IF FGt(m0, One) THEN One ELSE IF FLt(m0, FNeg(One)) THEN FNeg(One) ELSE m0
                 IN ok /\ FClose(v, FExp(FAdd(t.y[1], FMul(m, FSub(x, t.x[1])))), Tol, Zero)
          ELSE SplineAccept(t, x, ok, v, LAMBDA y : FExp(y)))
  ELSE SplineAccept(t, x, ok, v, LAMBDA y : Post(q, y))
BadOf(i, ev) ==
  IF ev.k # "spl" THEN {[prop |-> "C02", line |-> i, why |-> "unexpected event"]}
  ELSE LET t == TabOf(ev.q, ev.Z, ev.shell, TRUE) tx == TabOf(ev.q, ev.Z, ev.shell, FALSE) IN
       (IF t.N > 0 /\ ~TableOK(t) THEN {[prop |-> "C02", line |-> i, q |-> ev.q, Z |-> ev.Z, shell |-> ev.shell, why |-> "shipped table is not a valid spline table (fewer than 2 knots or decreasing abscissae)"]} ELSE {})
       \cup { [prop |-> "C02", line |-> i, q |-> ev.q, Z |-> ev.Z, shell |-> ev.shell, arg |-> FStr(ev.pts[j][1]), x |-> FStr(ev.pts[j][2]),
               got |-> [ok |-> ev.pts[j][3] = 1, v |-> FStr(ev.pts[j][4])], knots |-> t.N] :
              j \in { j \in 1..Len(ev.pts) : ~PointAccept(ev.q, ev.Z, t, ev.edge, ev.pts[j]) /\ ~PointAccept(ev.q, ev.Z, tx, ev.edge, ev.pts[j]) } }
Judged == JudgedWith(BadOf)
============================================================================
