------------------------------- MODULE XrlEquiv -------------------------------
(***************************************************************************)
(* C19.  Two implementations, one observable behaviour:                    *)
(*   Same(c, j) == c.ok = j.ok /\ (c.ok => same integer/string fields     *)
(*                 /\ every double field equal to within round-off)        *)
(* "Round-off": the Java data file holds the tables as unrounded doubles,  *)
(* the C tables are printed with 11 significant digits, and the libm's     *)
(* differ by an ulp: relative 2e-9, plus an absolute floor where a result  *)
(* is a difference of tabulated values (anomalous scattering factors).     *)
(***************************************************************************)
EXTENDS Integers, Sequences, FP, TLC
Rel == F("2e-9")
AbsFloor == F("1e-9")
\* The C library keeps its built-in crystal table in single precision (the generator prints "%ff"), the Java data file holds the
\* same numbers as doubles: the fields of a built-in crystal agree to single-precision round-off.  Every crystal FUNCTION is
\* compared on a crystal with identical field values on both sides, at the ordinary tolerance.
RelSingle == F("1.2e-7")
\* A structure factor is a sum over atoms of terms that may cancel (forbidden reflections): its round-off is relative to the
\* magnitude sc of the terms, which the C side reports next to the value.
RelSum == F("4e-9")
Signed == {"Fi", "Fii", "Refractive_Index_Re", "Refractive_Index", "MomentTransf", "Atomic_Factors"}
Summed == {"Crystal_F_H_StructureFactor", "Crystal_F_H_StructureFactor_Partial"}
\* c, j: <<ok, hash, <<d1, d2, ...>>>> with doubles as <<hi, lo>>
Tol(fn, sc) == IF fn = "Crystal_GetCrystal" THEN [rel |-> RelSingle, abs |-> F("1e-300")]
               ELSE IF fn \in Summed THEN [rel |-> Rel, abs |-> FMul(RelSum, sc)]
               ELSE IF fn \in Signed THEN [rel |-> Rel, abs |-> AbsFloor]
               ELSE [rel |-> Rel, abs |-> F("1e-300")]
\* two results agree when they are the same bits (this covers equal infinities), both not-a-number (whatever the payload), or close
SameDoubles(cd, jd, tol) == Len(cd) = Len(jd) /\ \A k \in 1..Len(cd) : cd[k] = jd[k] \/ (FIsNaN(cd[k]) /\ FIsNaN(jd[k])) \/ FClose(cd[k], jd[k], tol.rel, tol.abs)
SameSc(fn, c, j, sc) == c[1] = j[1] /\ (c[1] = 1 => c[2] = j[2] /\ SameDoubles(c[3], j[3], Tol(fn, sc)))
Same(fn, c, j) == SameSc(fn, c, j, Zero)
\* Arguments within round-off of a discontinuity.  Both implementations are discontinuous in the energy at absorption edges, table ends and
\* duplicated knots, and they hold these abscissas at different precision (C: 11 significant digits, Java: unrounded) and pass them through
\* different libm's.  For an argument x within 1e-10 (relative) of such a point, which side it falls on is itself round-off, so the Java outcome
\* may equal the C outcome at x or at x (1 -+ 1e-10) -- alt holds those two C outcomes, and is empty wherever C is locally constant.
\* Within such a neighbourhood the function may also be steep (the last cubic below an edge): a Java value that lies between the C values at
\* the three sample arguments is an intermediate value of the same branch structure and is accepted as well.
Between(c, j, alt) ==
  /\ c[1] = 1 /\ j[1] = 1 /\ Len(c[3]) = 1 /\ Len(j[3]) = 1 /\ Len(alt) > 0 /\ \A k \in 1..Len(alt) : alt[k][1] = 1 /\ Len(alt[k][3]) = 1
  /\ LET vs == {c[3][1]} \cup { alt[k][3][1] : k \in 1..Len(alt) } v == j[3][1] IN
     (\E lo \in vs : FLe(lo, v) \/ FClose(lo, v, Rel, F("1e-300"))) /\ (\E hi \in vs : FLe(v, hi) \/ FClose(hi, v, Rel, F("1e-300")))
\* an argument that is bit-equal to the edge energy in BOTH implementations leaves no room for round-off in the comparison with that edge:
\* whether the call fails must then agree exactly (the value may still sit on either side of the photo table's own duplicated knot)
EdgeExact(d) == "xe" \in DOMAIN d /\ d.xe = 1 => d.c[1] = d.j[1]
SameNear(fn, c, j, sc, alt) == SameSc(fn, c, j, sc) \/ (\E k \in 1..Len(alt) : SameSc(fn, alt[k], j, sc)) \/ Between(c, j, alt)
Why(fn, c, j) == IF c[1] # j[1] THEN (IF c[1] = 1 THEN "C returns a value, Java throws" ELSE "C reports an error, Java returns a value")
                 ELSE IF c[2] # j[2] THEN "integer / string fields of the result differ" ELSE "values differ beyond round-off"
===============================================================================
