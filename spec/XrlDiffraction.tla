--------------------------- MODULE XrlDiffraction ---------------------------
(***************************************************************************)
(* C13.  Bragg's law and structure-factor algebra, judged on one event per *)
(* (crystal, hkl, E, Debye factor, relative angle) that carries the        *)
(* crystal as given and everything the library returned, including the     *)
(* atomic factors it reports for each distinct atomic number.              *)
(***************************************************************************)
EXTENDS XrlCrystalMath, Sequences, FiniteSets
K2A == F(DecMacro.KEV2ANGST)
TwoPi == FMul(Two, Pi)
POk(p) == p[1] = 1
PV(p) == p[2]
CRe(p) == p[2]
CIm(p) == p[3]
Cell(c) == c.cell
\* built-in crystals carry single-precision cells and a single-precision volume computed by the generator from the double-precision cell
GeoTol(ev) == IF ev.builtin = 1 THEN F("1e-6") ELSE F("1e-9")
Tol == F("1e-9")
chk(c, msg) == IF c THEN {} ELSE {msg}
ValidFlags(fl) == fl[1] \in {0, 1, 2} /\ fl[2] \in {0, 2} /\ fl[3] \in {0, 2}
FOf(ev, fl) == LET hits == { i \in 1..Len(ev.F) : ev.F[i].fl = fl } IN ev.F[CHOOSE i \in hits : TRUE]
HasF(ev, fl) == \E i \in 1..Len(ev.F) : ev.F[i].fl = fl
AFOf(ev, Z) == LET hits == { i \in 1..Len(ev.af) : ev.af[i].Z = Z } IN ev.af[CHOOSE i \in hits : TRUE]
CClose(p, re, im, scale) == FClose(CRe(p), re, Tol, FMul(F("1e-11"), scale)) /\ FClose(CIm(p), im, Tol, FMul(F("1e-11"), scale))
\* explicit sum over atoms: occupancy * (fre + i fim)(Z) * exp(2 pi i h.r)
Phase(a, hkl) == FMul(TwoPi, FAdd(FAdd(FMul(FI(hkl[1]), a.x), FMul(FI(hkl[2]), a.y)), FMul(FI(hkl[3]), a.z)))
StructSum(ev, hkl, fre(_), fim(_)) ==
  LET as == ev.c.atoms
      re == FSum([i \in 1..Len(as) |-> FMul(as[i].f, FSub(FMul(fre(as[i].Z), FCos(Phase(as[i], hkl))), FMul(fim(as[i].Z), FSin(Phase(as[i], hkl)))))])
      im == FSum([i \in 1..Len(as) |-> FMul(as[i].f, FAdd(FMul(fre(as[i].Z), FSin(Phase(as[i], hkl))), FMul(fim(as[i].Z), FCos(Phase(as[i], hkl)))))])
      mag == FSum([i \in 1..Len(as) |-> FMul(as[i].f, FAdd(FAbs(fre(as[i].Z)), FAbs(fim(as[i].Z))))])
  IN [re |-> re, im |-> im, mag |-> mag]
Neg(hkl) == <<0 - hkl[1], 0 - hkl[2], 0 - hkl[3]>>
IsZero(hkl) == hkl = <<0, 0, 0>>
Relations(ev) ==
  LET cell == Cell(ev.c) hkl == ev.hkl E == ev.E
      gt == GeoTol(ev)
      dspec == DSpacing(cell, hkl)
      lambda == FDiv(K2A, E)
      allAF == \A i \in 1..Len(ev.af) : ev.af[i].ok = 1
      fre(fl, Z) == FAdd(IF fl[1] = 2 THEN AFOf(ev, Z).f[1] ELSE IF fl[1] = 1 THEN One ELSE Zero, IF fl[2] = 2 THEN AFOf(ev, Z).f[2] ELSE Zero)
      fim(fl, Z) == IF fl[3] = 2 THEN AFOf(ev, Z).f[3] ELSE Zero
      qok == POk(ev.Q)
  IN
  \* geometry
  chk(POk(ev.vol) /\ FClose(PV(ev.vol), CellVolume(cell), Tol, Zero), "Crystal_UnitCellVolume differs from sqrt(det G)")
  \cup chk(FClose(ev.c.vol, CellVolume(cell), gt, Zero), "stored cell volume differs from the recomputed one")
  \cup (IF IsZero(hkl) THEN chk(~POk(ev.d), "d-spacing of (000) did not fail")
        ELSE chk(POk(ev.d) /\ FClose(PV(ev.d), dspec, gt, Zero), "d-spacing differs from the reciprocal-metric formula")
             \cup chk(POk(ev.dneg) /\ (PV(ev.dneg) = PV(ev.d) \/ FClose(PV(ev.dneg), PV(ev.d), F("1e-14"), Zero)), "d(-h) differs from d(h)")
             \cup chk(POk(ev.d3) /\ FClose(FMul(PV(ev.d3), FI(3)), PV(ev.d), F("1e-13"), Zero), "d(3h) is not d(h)/3"))
  \* Bragg
  \cup (IF ~FPos(E) \/ IsZero(hkl) THEN chk(~POk(ev.bragg), "Bragg_angle accepted a non-positive energy or (000)")
        ELSE IF FGt(lambda, FMul(FMul(Two, PV(ev.d)), F("1.000000000001"))) THEN chk(~POk(ev.bragg), "Bragg_angle returned a number although no reflection exists")
        ELSE IF FLt(lambda, FMul(FMul(Two, PV(ev.d)), F("0.999999999999"))) THEN
             chk(POk(ev.bragg) /\ FIsFinite(PV(ev.bragg)) /\ FClose(FMul(FMul(Two, PV(ev.d)), FSin(PV(ev.bragg))), lambda, Tol, Zero), "2 d sin(theta) differs from hc/E")
        ELSE {})
  \cup (IF ~FPos(E) THEN chk(~POk(ev.Q), "Q_scattering_amplitude accepted a non-positive energy")
        ELSE IF IsZero(hkl) THEN chk(POk(ev.Q) /\ FEq(PV(ev.Q), Zero), "Q of (000) is not 0")
        ELSE IF POk(ev.bragg) THEN chk(POk(ev.Q) /\ FClose(PV(ev.Q), FDiv(FMul(E, FSin(FMul(ev.rel, PV(ev.bragg)))), K2A), Tol, F("1e-300")), "Q differs from E sin(rel theta_B)/hc")
        ELSE chk(~POk(ev.Q), "Q returned a number although the Bragg angle is undefined"))
  \* structure factors
  \cup UNION { LET fl == ev.F[i].fl v == ev.F[i].v IN
               IF ~ValidFlags(fl) \/ ~FPos(E) \/ ~FPos(ev.dw) \/ ~qok \/ ~allAF THEN chk(~POk(v) /\ FEq(CRe(v), Zero) /\ FEq(CIm(v), Zero), "structure factor did not fail for invalid flags / energy / Debye factor / undefined angle / unavailable atomic factor")
               ELSE LET s == StructSum(ev, hkl, LAMBDA Z : fre(fl, Z), LAMBDA Z : fim(fl, Z)) IN
                    chk(POk(v) /\ FIsFinite(CRe(v)) /\ FIsFinite(CIm(v)) /\ CClose(v, s.re, s.im, s.mag), "structure factor differs from the explicit sum over atoms with the library's atomic factors")
                    \* Friedel's law with the absorptive term switched off: F(-h) = conj F(h)
                    \cup (IF fl[3] = 0 THEN chk(POk(ev.F[i].m) /\ CClose(ev.F[i].m, CRe(v), FNeg(CIm(v)), s.mag), "Friedel's law violated with f'' off") ELSE {})
             : i \in 1..Len(ev.F) }
  \* additivity in the three partial-term flags
  \cup (IF FPos(E) /\ FPos(ev.dw) /\ qok /\ allAF /\ HasF(ev, <<2, 2, 2>>) /\ POk(FOf(ev, <<2, 2, 2>>).v)
        THEN LET a == FOf(ev, <<2, 0, 0>>).v b == FOf(ev, <<0, 2, 0>>).v c == FOf(ev, <<0, 0, 2>>).v t == FOf(ev, <<2, 2, 2>>).v
                 mag == StructSum(ev, hkl, LAMBDA Z : FAdd(FAbs(AFOf(ev, Z).f[1]), FAbs(AFOf(ev, Z).f[2])), LAMBDA Z : AFOf(ev, Z).f[3]).mag      \* rounding noise scales with the terms, not with a cancelling sum
             IN chk(CClose(t, FAdd(FAdd(CRe(a), CRe(b)), CRe(c)), FAdd(FAdd(CIm(a), CIm(b)), CIm(c)), mag), "structure factor is not additive in its partial terms")
                \cup chk(CRe(ev.Ffull) = CRe(t) /\ CIm(ev.Ffull) = CIm(t), "Crystal_F_H_StructureFactor differs from the all-terms partial call")
        ELSE {})
  \* the exported pointer-returning twins (called by the Fortran, .NET and scripting bindings) are the same functions
  \cup chk(ev.twin[1] = ev.twin[2], "Crystal_F_H_StructureFactor2 disagrees with Crystal_F_H_StructureFactor")
  \cup chk(ev.twin[3] = ev.twin[4], "Crystal_F_H_StructureFactor_Partial2 disagrees with Crystal_F_H_StructureFactor_Partial")
  \* the (000) reflection: sum of occupancy * Z * Debye factor
  \cup (IF FPos(E) /\ FPos(ev.dw) /\ (\A i \in 1..Len(ev.af) : ev.af[i].ok0 = 1)
        THEN LET as == ev.c.atoms want == FMul(FSum([i \in 1..Len(as) |-> FMul(as[i].f, FI(as[i].Z))]), ev.dw) IN
             chk(POk(ev.F000) /\ FClose(CRe(ev.F000), want, Tol, Zero) /\ FClose(CIm(ev.F000), Zero, Zero, FMul(F("1e-11"), want)), "F(000) is not sum(occupancy * Z) * Debye factor")
        ELSE {})
=============================================================================
