----------------------------- MODULE Trace_C04f -----------------------------
(* C04 / C14 / C03 conformance under a fault at a particular point: one event per (scenario, refused allocation request). *)
EXTENDS XrlHeap, Json, IOUtils
VARIABLES l
Tr == ndJsonDeserialize(IOEnv.XRL_TRACE)
PropLabel == IF "XRL_PROP" \in DOMAIN IOEnv THEN IOEnv.XRL_PROP ELSE "C04"
Report(ev, why) == PrintT("MISMATCH " \o ToJson([prop |-> PropLabel, line |-> l, stage |-> "fault", fn |-> ev.fn, scen |-> ev.scen, kind |-> FaultKind(ev), why |-> why, ev |-> ev]))
Init == l = 1
Next == /\ l <= Len(Tr) /\ l' = l + 1
        /\ LET ev == Tr[l] IN IF ev.k = "fault" /\ FaultWhy(ev) # "" THEN Report(ev, FaultWhy(ev)) ELSE TRUE
Done == TLCGet("stats").diameter = Len(Tr) + 1 /\ PrintT("JUDGED " \o ToString(Len(Tr)) \o " events in 1 chunks")
=============================================================================
