------------------------- MODULE XrlCrystalArrays -------------------------
(***************************************************************************)
(* C14.  Crystal collections as a state machine.                           *)
(*                                                                         *)
(* State (a record st):                                                    *)
(*   arr : handle |-> [live, alloc, dict]   user-owned arrays              *)
(*   bi  : [alloc, dict]                    the built-in collection        *)
(*   cp  : copy id |-> [live, val]          crystals handed to the caller  *)
(* dict is a SET of crystal records [name, geom, atoms, vol] with unique   *)
(* names; the order in which the library lists them is an observation      *)
(* (sorted by name) and not part of the state.                             *)
(*                                                                         *)
(* Every public call is one operation record op; Outcomes(st, op) is the   *)
(* SET of admissible (next state, result) pairs -- a set because where the *)
(* property statement admits two readings both are admitted.  The model    *)
(* checker explores Next == \E op : st' \in Outcomes(st, op); the trace    *)
(* validator asks whether the recorded result and projected state of the   *)
(* real call is one of Outcomes(st, op).  One definition serves both.      *)
(*                                                                         *)
(* Parameters: VolOf(geom) -- the recomputed cell volume;                  *)
(*             Grow(alloc, need) -- capacity after growing (MC only; the   *)
(*             traces accept any capacity that is large enough and never   *)
(*             shrinks);  CAP -- upper bound of the fixed capacity of the  *)
(*             built-in array (the capacity itself is st.bi.alloc).        *)
(***************************************************************************)
EXTENDS Integers, Sequences, FiniteSets, TLC
CONSTANTS VolOf(_), Grow(_, _), CAP, Mutated(_)

Dead == [live |-> FALSE]
Names(dict) == { c.name : c \in dict }
Lookup(dict, n) == CHOOSE c \in dict : c.name = n
Stored(c) == [c EXCEPT !.vol = VolOf(c.geom)]        \* what the collection keeps: the volume is recomputed
Err(st, why) == [st |-> st, res |-> [ok |-> FALSE, why |-> why]]
Ok(st, val) == [st |-> st, res |-> [ok |-> TRUE, val |-> val]]

Target(st, h) == IF h = 0 THEN st.bi ELSE st.arr[h]
WithTarget(st, h, t) == IF h = 0 THEN [st EXCEPT !.bi = t] ELSE [st EXCEPT !.arr[h] = t]
Usable(st, h) == h = 0 \/ (h \in DOMAIN st.arr /\ st.arr[h].live)

\* ---------------------------------------------------------------- operations
ArrayInit(st, op) ==
  IF op.n < 0 THEN { Err(st, "negative") }
  ELSE { Ok([st EXCEPT !.arr[op.h] = [live |-> TRUE, alloc |-> op.n, dict |-> {}]], op.n) }

\* insert the crystals cs (distinct, new names) into target h, growing a user array as needed
Inserted(st, h, cs) ==
  LET t == Target(st, h)
      need == Cardinality(t.dict) + Cardinality(cs)
  IN WithTarget(st, h, [t EXCEPT !.dict = t.dict \cup { Stored(c) : c \in cs },
                                 !.alloc = IF h # 0 /\ need > t.alloc THEN Grow(t.alloc, need) ELSE t.alloc])

Add(st, op) ==
  LET t == Target(st, op.h) IN
  IF op.c.name \in Names(t.dict) THEN { Err(st, "duplicate") }
  ELSE IF op.h = 0 /\ Cardinality(t.dict) >= t.alloc THEN { Err(st, "builtin-full") }
  ELSE { Ok(Inserted(st, op.h, {op.c}), 1) }

\* entries: sequence of crystals as written in the file; bad: "none" or a corruption kind
ReadFile(st, op) ==
  LET t == Target(st, op.h)
      es == op.entries
      idx == 1..Len(es)
      clash == { i \in idx : es[i].name \in Names(t.dict) \/ \E j \in 1..(i - 1) : es[j].name = es[i].name }
      fresh == { es[i] : i \in idx \ clash }
  IN IF op.bad # "none" THEN { Err(st, "malformed") }                         \* malformed => collection unchanged
     ELSE IF clash # {} THEN
          \* a name already in use: either the whole load fails and nothing changes, or exactly the clashing
          \* entries are rejected and the others are added (two entries under one name: never)
          { Err(st, "duplicate") } \cup
          (IF op.h = 0 /\ Cardinality(t.dict) + Cardinality(fresh) > t.alloc THEN {}
           ELSE { Ok(Inserted(st, op.h, fresh), 1), [st |-> Inserted(st, op.h, fresh), res |-> [ok |-> FALSE, why |-> "duplicate-skipped"]] })
     ELSE IF op.h = 0 /\ Cardinality(t.dict) + Len(es) > t.alloc THEN { Err(st, "builtin-full") }
     ELSE { Ok(Inserted(st, op.h, fresh), 1) }

Get(st, op) ==
  LET t == Target(st, op.h) IN
  IF op.name \notin Names(t.dict) THEN { Err(st, "absent") }
  ELSE LET c == Lookup(t.dict, op.name) IN { Ok([st EXCEPT !.cp[op.id] = [live |-> TRUE, val |-> c]], c) }

List(st, op) == { Ok(st, Names(Target(st, op.h).dict)) }
Audit(st, op) == { Ok(st, Target(st, op.h).dict) }

MakeCopy(st, op) == { Ok([st EXCEPT !.cp[op.id] = [live |-> TRUE, val |-> st.cp[op.src].val]], st.cp[op.src].val) }
Mutate(st, op) == { Ok([st EXCEPT !.cp[op.id].val = Mutated(st.cp[op.id].val)], 0) }
FreeCopy(st, op) == { Ok([st EXCEPT !.cp[op.id] = Dead], 0) }
ArrayFree(st, op) == { Ok([st EXCEPT !.arr[op.h] = Dead], 0) }

\* an operation is legal when it does not touch released or never-created objects (the caller's obligations)
Legal(st, op) ==
  CASE op.op = "ArrayInit" -> ~st.arr[op.h].live
    [] op.op \in {"Add", "ReadFile", "Get", "List", "Audit"} -> Usable(st, op.h) /\ (op.op = "Get" => ~st.cp[op.id].live)
    [] op.op = "MakeCopy" -> st.cp[op.src].live /\ ~st.cp[op.id].live
    [] op.op \in {"Mutate", "FreeCopy"} -> st.cp[op.id].live
    [] op.op = "ArrayFree" -> st.arr[op.h].live

Outcomes(st, op) ==
  CASE op.op = "ArrayInit" -> ArrayInit(st, op)
    [] op.op = "Add" -> Add(st, op)
    [] op.op = "ReadFile" -> ReadFile(st, op)
    [] op.op = "Get" -> Get(st, op)
    [] op.op = "List" -> List(st, op)
    [] op.op = "Audit" -> Audit(st, op)
    [] op.op = "MakeCopy" -> MakeCopy(st, op)
    [] op.op = "Mutate" -> Mutate(st, op)
    [] op.op = "FreeCopy" -> FreeCopy(st, op)
    [] op.op = "ArrayFree" -> ArrayFree(st, op)

\* ---------------------------------------------------------------- what must always hold
DictOK(t) ==
  /\ \A a, b \in t.dict : a.name = b.name => a = b                   \* unique names
  /\ Cardinality(t.dict) <= t.alloc                                  \* contents fit the capacity
  /\ \A c \in t.dict : c.vol = VolOf(c.geom)                         \* volumes are the recomputed ones
Consistent(st) ==
  /\ \A h \in DOMAIN st.arr : st.arr[h].live => DictOK(st.arr[h])
  /\ \A a, b \in st.bi.dict : a.name = b.name => a = b
  /\ Cardinality(st.bi.dict) <= st.bi.alloc /\ st.bi.alloc <= CAP           \* the built-in capacity is fixed: it never grows
\* a failed operation leaves everything as it was -- except the explicitly admitted "duplicate-skipped" reading
FailureLeavesUnchanged(st, op) ==
  \A o \in Outcomes(st, op) : (~o.res.ok /\ o.res.why # "duplicate-skipped") => o.st = st
\* operations on copies, lookups and listings never change a collection
QueriesArePure(st, op) ==
  op.op \in {"Get", "List", "Audit", "MakeCopy", "Mutate", "FreeCopy"} => \A o \in Outcomes(st, op) : o.st.arr = st.arr /\ o.st.bi = st.bi
\* only operations addressed to the built-in collection change it, and it only grows
BuiltinDiscipline(st, op) ==
  \A o \in Outcomes(st, op) : /\ st.bi.dict \subseteq o.st.bi.dict /\ o.st.bi.alloc = st.bi.alloc
                              /\ (o.st.bi # st.bi => op.op \in {"Add", "ReadFile"} /\ op.h = 0)
=============================================================================
