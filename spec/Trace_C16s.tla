----------------------------- MODULE Trace_C16s -----------------------------
(* C16, order independence of queries: a sweep event carries the number of cells of one entry point whose outcome differed between   *)
(* three passes over the same grid in different orders (and an immediate repetition), and a last pass after every other entry point  *)
(* has been swept; plus whether the digest of the library's tables is the same before and after.  Purity demands zero / unchanged.    *)
EXTENDS XrlChunks
BadOf(i, ev) == IF ev.k = "sweep" /\ ev.ndiff # 0
                THEN {[prop |-> "C16", line |-> i, fn |-> ev.fn, why |-> "the outcome of a query depends on the calls made before it (order of the sweep / immediate repetition)",
                       cells |-> ev.cells, ndiff |-> ev.ndiff, first |-> ev.first]}
                ELSE IF ev.k = "sweep" /\ ev.tables # 1
                THEN {[prop |-> "C16", line |-> i, fn |-> ev.fn, why |-> "a sweep of queries over this entry point changed the library's tables", cells |-> ev.cells]}
                ELSE {}
Judged == JudgedWith(BadOf)
=============================================================================
