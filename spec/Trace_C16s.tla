----------------------------- MODULE Trace_C16s -----------------------------
(* C16, order independence of queries: a sweep event carries the number of cells of one entry point whose outcome differed between   *)
(* three passes over the same grid in different orders (and an immediate repetition).  Purity demands that number to be zero.        *)
EXTENDS XrlChunks
BadOf(i, ev) == IF ev.k = "sweep" /\ ev.ndiff # 0
                THEN {[prop |-> "C16", line |-> i, fn |-> ev.fn, why |-> "the outcome of a query depends on the calls made before it (order of the sweep / immediate repetition)",
                       cells |-> ev.cells, ndiff |-> ev.ndiff, first |-> ev.first]}
                ELSE {}
Judged == JudgedWith(BadOf)
=============================================================================
