---------------------------- MODULE XrlComposite ----------------------------
(***************************************************************************)
(* C05.  Aggregates are defined over the results of their parts, as the    *)
(* library itself returns them for the same arguments:                     *)
(*   Total = Photo + Rayleigh + Compton   (likewise the Kissel total)      *)
(*   Kissel photo total = occupancy-weighted sum of the defined sub-shell  *)
(*                        cross sections (barn/atom)                       *)
(*   barn/atom = cm2/g * A / N_A                                           *)
(*   dsigma_R/dOmega = N_A/A * F(Z,q)^2 * Thomson;  Compton likewise with  *)
(*   S(Z,q) * Klein-Nishina;  q = momentum transfer of (E, theta)          *)
(* and an aggregate with an undefined part is an error, not a partial sum. *)
(***************************************************************************)
EXTENDS XrlFacts, FP
NA == F(DecMacro.AVOGNUM)
Tol == F("1e-12")
Ok(r, n) == r[n][1] = 1
V(r, n) == r[n][2]
Val(x) == [ok |-> TRUE, v |-> x]
Fail == [ok |-> FALSE]
Agree(want, ok, v) == IF want.ok THEN ok /\ FClose(v, want.v, Tol, Zero) ELSE ~ok
AllOk(r, names) == \A n \in names : Ok(r, n)
\* cm2/g -> barn/atom
Barn(r, n) == IF Ok(r, n) /\ Ok(r, "AtomicWeight") THEN Val(FDiv(FMul(V(r, n), V(r, "AtomicWeight")), NA)) ELSE Fail
\* any other barn/atom function next to its cm2/g twin for the same (Z, shell or line, E): t = [n, m, b = <<ok, value>>, c = <<ok, value>>]
WantTwin(ev, t) == IF t.c[1] = 1 /\ Ok(ev.r, "AtomicWeight") THEN Val(FDiv(FMul(t.c[2], V(ev.r, "AtomicWeight")), NA)) ELSE Fail
\* ---- expected result of each aggregate of an "aggE" event (per Z, E)
OccOK(ev, s) == ev.occ[s + 1][1] = 1 /\ FGt(ev.occ[s + 1][2], F("1e-6"))
DefinedShells(ev) == { s \in 0..30 : OccOK(ev, s) /\ ev.pb[s + 1][1] = 1 }
PhotoTotalB(ev) == LET S == DefinedShells(ev)
                       seq == [s \in 0..30 |-> IF s \in S THEN FMul(ev.pb[s + 1][2], ev.occ[s + 1][2]) ELSE Zero]
                   IN IF S = {} THEN Fail ELSE Val(FSum([i \in 1..31 |-> seq[i - 1]]))
WantE(ev, n) ==
  LET r == ev.r IN
  CASE n = "CS_Total" -> IF AllOk(r, {"CS_Photo", "CS_Rayl", "CS_Compt"}) THEN Val(FAdd(FAdd(V(r, "CS_Photo"), V(r, "CS_Rayl")), V(r, "CS_Compt"))) ELSE Fail
    [] n = "CS_Total_Kissel" -> IF AllOk(r, {"CS_Photo_Total", "CS_Rayl", "CS_Compt"}) THEN Val(FAdd(FAdd(V(r, "CS_Photo_Total"), V(r, "CS_Rayl")), V(r, "CS_Compt"))) ELSE Fail
    [] n = "CSb_Total" -> Barn(r, "CS_Total") [] n = "CSb_Photo" -> Barn(r, "CS_Photo") [] n = "CSb_Rayl" -> Barn(r, "CS_Rayl")
    [] n = "CSb_Compt" -> Barn(r, "CS_Compt") [] n = "CSb_Total_Kissel" -> Barn(r, "CS_Total_Kissel")
    [] n = "CSb_Photo_Total" -> PhotoTotalB(ev)
    [] n = "CS_Photo_Total" -> IF Ok(r, "CSb_Photo_Total") /\ Ok(r, "AtomicWeight") THEN Val(FDiv(FMul(V(r, "CSb_Photo_Total"), NA), V(r, "AtomicWeight"))) ELSE Fail
AggregatesE == {"CS_Total", "CS_Total_Kissel", "CSb_Total", "CSb_Photo", "CSb_Rayl", "CSb_Compt", "CSb_Total_Kissel", "CSb_Photo_Total", "CS_Photo_Total"}
\* sub-shell cm2/g = barn/atom * occupancy * N_A / A
WantPartial(ev, s) == IF ev.pb[s + 1][1] = 1 /\ ev.occ[s + 1][1] = 1 /\ Ok(ev.r, "AtomicWeight")
                      THEN Val(FDiv(FMul(FMul(ev.pb[s + 1][2], ev.occ[s + 1][2]), NA), V(ev.r, "AtomicWeight"))) ELSE Fail
\* ---- expected result of each aggregate of an "aggA" event (per Z, E, theta, phi)
Diff(r, factor, kernel, square) ==
  IF AllOk(r, {"AtomicWeight", "MomentTransf", factor, kernel})
  THEN Val(FMul(FMul(FDiv(NA, V(r, "AtomicWeight")), IF square THEN FMul(V(r, factor), V(r, factor)) ELSE V(r, factor)), V(r, kernel))) ELSE Fail
WantA(ev, n) ==
  LET r == ev.r IN
  CASE n = "DCS_Rayl" -> Diff(r, "FF_Rayl", "DCS_Thoms", TRUE) [] n = "DCS_Compt" -> Diff(r, "SF_Compt", "DCS_KN", FALSE)
    [] n = "DCSP_Rayl" -> Diff(r, "FF_Rayl", "DCSP_Thoms", TRUE) [] n = "DCSP_Compt" -> Diff(r, "SF_Compt", "DCSP_KN", FALSE)
    [] n = "DCSb_Rayl" -> Barn(r, "DCS_Rayl") [] n = "DCSb_Compt" -> Barn(r, "DCS_Compt")
    [] n = "DCSPb_Rayl" -> Barn(r, "DCSP_Rayl") [] n = "DCSPb_Compt" -> Barn(r, "DCSP_Compt")
AggregatesA == {"DCS_Rayl", "DCS_Compt", "DCSP_Rayl", "DCSP_Compt", "DCSb_Rayl", "DCSb_Compt", "DCSPb_Rayl", "DCSPb_Compt"}
\* a polarised kernel may legitimately vanish: then the product is 0 and the library may report it either as 0 without error
ZeroOK(want, ok, v) == want.ok /\ FEq(want.v, Zero) /\ ok /\ FEq(v, Zero)
=============================================================================
