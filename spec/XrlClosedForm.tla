--------------------------- MODULE XrlClosedForm ---------------------------
(***************************************************************************)
(* C12.  Thomson, Klein-Nishina and Compton-energy functions: the closed   *)
(* forms (pointwise oracle) and the relations of the property statement,   *)
(* evaluated on the values the library returns.                            *)
(***************************************************************************)
EXTENDS XrlFacts, FP
RE2 == F(DecMacro.RE2)
MEC2 == F(DecMacro.MEC2)
K2A == F(DecMacro.KEV2ANGST)
Pi == F(DecMacro.PI)
GL == JsonDeserialize(IOEnv.XRL_GL48)
GLx == [i \in 1..GL.n |-> F(GL.x[i])]
GLw == [i \in 1..GL.n |-> F(GL.w[i])]
RECURSIVE FPowI(_, _)
FPowI(x, k) == IF k = 0 THEN One ELSE FMul(x, FPowI(x, k - 1))
\* the quadrature rule is exact on the monomials 1 .. x^(2n-1): checked, not trusted
GLExact == \A k \in 0..(2 * GL.n - 1) :
             FClose(FSum([i \in 1..GL.n |-> FMul(GLw[i], FPowI(GLx[i], k))]), IF k % 2 = 0 THEN FDiv(Two, FI(k + 1)) ELSE Zero, Zero, F("2e-14"))
Half == F("0.5")
\* ---- closed forms
Thoms(th) == FMul(FDiv(RE2, Two), FAdd(One, FSq(FCos(th))))
ThomsP(th, ph) == FMul(RE2, FSub(One, FMul(FSq(FSin(th)), FSq(FCos(ph)))))
KRatio(E, th) == FDiv(One, FAdd(One, FMul(FDiv(E, MEC2), FSub(One, FCos(th)))))           \* scattered / incident energy
KNForm(k, th) == FMul(FMul(FDiv(RE2, Two), FSq(k)), FSub(FAdd(k, FDiv(One, k)), FSq(FSin(th))))
KNPForm(k, th, ph) == FMul(FMul(FDiv(RE2, Two), FSq(k)), FSub(FAdd(k, FDiv(One, k)), FMul(Two, FMul(FSq(FSin(th)), FSq(FCos(ph))))))
Tol == F("1e-9")
Tiny == F("1e-300")
Close(a, b) == FClose(a, b, Tol, Tiny)
Seq25 == 1..25
\* every violated relation of one energy event, as a set of short descriptions
Relations(ev) ==
  LET E == ev.E a == FDiv(E, MEC2)
      W == FLog1p(FMul(Two, a))
      chk(c, msg) == IF c THEN {} ELSE {msg}
      mean8(P, i) == FDiv(FSum([j \in 1..8 |-> P[(i - 1) * 8 + j]]), FI(8))
      quad == FMul(FMul(Two, Pi), FMul(FDiv(W, Two), FSum([i \in 1..GL.n |-> FMul(GLw[i], FMul(ev.gKN[i], FDiv(FExp(FMul(FDiv(W, Two), FAdd(One, GLx[i]))), a)))])))
  IN chk(ev.CS_KN[1] = 1 /\ FIsFinite(ev.CS_KN[2]) /\ FPos(ev.CS_KN[2]), "CS_KN not finite and positive")
     \cup chk(\A i \in Seq25 : FIsFinite(ev.Th[i]) /\ FPos(ev.Th[i]) /\ FIsFinite(ev.KN[i]) /\ FPos(ev.KN[i]) /\ FIsFinite(ev.CE[i]) /\ FPos(ev.CE[i]), "a differential cross section or scattered energy is not finite and positive")
     \cup chk(\A i \in 1..200 : FIsFinite(ev.ThP[i]) /\ FGe(ev.ThP[i], Zero) /\ FIsFinite(ev.KNP[i]) /\ FGe(ev.KNP[i], Zero), "a polarised cross section is negative or not finite")
     \* quadrature angles are the documented ones, then: total = solid-angle integral of the differential form
     \cup chk(\A i \in 1..GL.n : LET w == FMul(FDiv(W, Two), FAdd(One, GLx[i])) c == FSub(One, FDiv(FExpm1(w), a)) IN FClose(FCos(ev.gth[i]), c, Zero, F("1e-12")), "quadrature angles differ from the rule")
     \cup chk(FClose(ev.CS_KN[2], quad, F("1e-8"), Zero), "CS_KN differs from the solid-angle integral of DCS_KN")
     \* unpolarised = azimuthal average of polarised
     \cup chk(\A i \in Seq25 : Close(ev.Th[i], mean8(ev.ThP, i)) /\ Close(ev.KN[i], mean8(ev.KNP, i)), "unpolarised differs from the azimuthal mean of the polarised cross section")
     \* Klein-Nishina never exceeds Thomson and tends to it as E -> 0 (1 - KN/Th <= 4E/mc2)
     \cup chk(\A i \in Seq25 : FLe(ev.KN[i], FMul(ev.Th[i], F("1.000000000001"))) /\ FGe(ev.KN[i], FMul(ev.Th[i], FSub(One, FMul(F("4.0000001"), a)))), "DCS_KN exceeds DCS_Thoms or does not tend to it")
     \* the Thomson-like form in the Compton energy ratio, with the ratio the library itself returns
     \cup chk(\A i \in Seq25 : Close(ev.KN[i], KNForm(FDiv(ev.CE[i], E), ev.th[i])), "DCS_KN differs from the Thomson-like expression in ComptonEnergy/E")
     \* scattered energy: E at 0, E/(1+2a) at pi, strictly decreasing in between
     \cup chk(FClose(ev.CE[1], E, F("1e-15"), Zero) /\ FClose(ev.CE[25], FDiv(E, FAdd(One, FMul(Two, a))), F("1e-12"), Zero), "ComptonEnergy end values")
     \cup chk(\A i \in 1..24 : FLt(ev.CE[i + 1], ev.CE[i]), "ComptonEnergy is not strictly decreasing in theta")
     \* even and 2pi-periodic
     \cup chk(\A i \in Seq25 : Close(ev.KNm[i], ev.KN[i]) /\ Close(ev.KNp[i], ev.KN[i]) /\ Close(ev.Thm[i], ev.Th[i]) /\ Close(ev.Thp[i], ev.Th[i]) /\ Close(ev.CEm[i], ev.CE[i]) /\ Close(ev.CEp[i], ev.CE[i]), "not even / 2pi-periodic in theta")
     \cup chk(\A i \in 1..200 : Close(ev.KNPm[i], ev.KNP[i]), "polarised Klein-Nishina not even / periodic in (theta, phi)")
     \* pointwise closed forms
     \cup chk(\A i \in Seq25 : Close(ev.Th[i], Thoms(ev.th[i])) /\ Close(ev.KN[i], KNForm(KRatio(E, ev.th[i]), ev.th[i])) /\ Close(ev.CE[i], FMul(E, KRatio(E, ev.th[i])))
                               /\ FClose(ev.MT[i], FMul(FDiv(E, K2A), FSin(FDiv(ev.th[i], Two))), Tol, Tiny), "pointwise closed form (Thomson / Klein-Nishina / Compton energy / momentum transfer)")
     \cup chk(\A i \in Seq25 : \A j \in 1..8 : Close(ev.ThP[(i - 1) * 8 + j], ThomsP(ev.th[i], ev.ph[j])) /\ Close(ev.KNP[(i - 1) * 8 + j], KNPForm(KRatio(E, ev.th[i]), ev.th[i], ev.ph[j])), "pointwise closed form (polarised)")
     \* the same closed forms at angles of many turns (up to 1e15 rad), where only an exact argument reduction keeps them
     \cup chk(\A i \in 1..Len(ev.hth) : Close(ev.hTh[i], Thoms(ev.hth[i])) /\ Close(ev.hKN[i], KNForm(KRatio(E, ev.hth[i]), ev.hth[i])) /\ Close(ev.hCE[i], FMul(E, KRatio(E, ev.hth[i])))
                                        /\ Close(ev.hKNP[i], KNPForm(KRatio(E, ev.hth[i]), ev.hth[i], ev.ph[2])), "pointwise closed form at an angle of many turns")
\* non-positive energy is an error for every function of E (the last entry, DCS_Thoms, has no energy argument)
BadEnergy(ev) == IF (\A i \in 1..5 : ev.err[i] = 1 /\ FEq(ev.v[i], Zero)) /\ ev.err[6] = 0 THEN {} ELSE {"a function accepted a non-positive energy"}
============================================================================
