CONSTANTS
 Emit = TRUE
 MaxOps = 3
INIT Init
NEXT Next
VIEW View
CHECK_DEADLOCK FALSE
