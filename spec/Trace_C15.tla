----------------------------- MODULE Trace_C15 -----------------------------
EXTENDS XrlCatalog, XrlChunks
Msgs(i, cat, set) == { [prop |-> "C15", line |-> i, cat |-> cat, why |-> m] : m \in set }
EntriesOK(cat, P(_)) == UNION { Complain(P(Entry(cat, i)), "entry " \o ToString(i) \o " (" \o cat.list[i + 1] \o ") is not well formed") : i \in 0..(cat.n - 1) }
CatBad(i, ev) ==
  CASE ev.cat = "nist" -> Msgs(i, "nist", Addressing(ev) \cup MacroAddressing(ev, NistMacro, "NIST_COMPOUND_") \cup EntriesOK(ev, NistEntryOK) \cup NistSource(ev))
    [] ev.cat = "nuclide" -> Msgs(i, "nuclide", Addressing(ev) \cup MacroAddressing(ev, NuclideMacro, "RADIO_NUCLIDE_") \cup EntriesOK(ev, NuclideEntryOK) \cup NuclideSource(ev))
    [] ev.cat = "mendel" -> Msgs(i, "mendel", MendelRules(ev))
    [] ev.cat = "crystal" ->
         Msgs(i, "crystal",
              Complain(Len(ev.list) = ev.n /\ Unique(ev.list), "crystal names not unique / count wrong")
              \cup UNION { Complain(IF Listed(ev, e.q) THEN e.r.ok /\ e.err = 0 /\ e.r.name = e.q /\ CrystalEntryOK(e.r) ELSE ~e.r.ok /\ e.err = 1,
                                    "lookup of crystal " \o e.q) : e \in { ev.byname[k] : k \in 1..Len(ev.byname) } }
              \cup CrystalSource(ev))
\* copy independence: the second copy and every later lookup are unaffected by mutating the first copy
CopyBad(i, ev) ==
  Msgs(i, ev.cat, Complain(ev.distinct = 1, "copies of entry " \o ToString(ev.i) \o " share storage")
                  \cup Complain(ev.after = ev.before, "mutating one copy of entry " \o ToString(ev.i) \o " changed another copy")
                  \cup Complain(ev.fresh = ev.before, "mutating a copy of entry " \o ToString(ev.i) \o " changed the catalogue")
                  \cup (IF "mk" \in DOMAIN ev THEN Complain(ev.mk = ev.before, "Crystal_MakeCopy of entry " \o ToString(ev.i) \o " is not independent") ELSE {}))
BadOf(i, ev) == IF ev.k = "cat" THEN CatBad(i, ev) ELSE IF ev.k = "copy" THEN CopyBad(i, ev)
                ELSE {[prop |-> "C15", line |-> i, why |-> "unexpected event"]}
Judged == JudgedWith(BadOf)
============================================================================
