------------------------------- MODULE FP -------------------------------
(***************************************************************************)
(* IEEE-754 binary64 values inside TLC.  A double is the pair <<hi, lo>>   *)
(* of signed 32-bit integers (its bit pattern).  Every operator below is   *)
(* a primitive supplied by the Java module override tlaext/FPImpl.java;    *)
(* the TLA+ bodies are placeholders that TLC never evaluates (if the       *)
(* override is missing TLC fails on the unbounded CHOOSE, it never returns *)
(* a wrong verdict).  All formulas, case splits and tolerances of the      *)
(* specification are TLA+ text built from these primitives.                *)
(***************************************************************************)
EXTENDS Integers, Sequences
Dbl == Int \X Int
F(s)        == CHOOSE x \in Dbl : TRUE   \* decimal string -> nearest double (strtod)
FI(n)       == CHOOSE x \in Dbl : TRUE   \* integer -> double
FAdd(a, b)  == CHOOSE x \in Dbl : TRUE
FSub(a, b)  == CHOOSE x \in Dbl : TRUE
FMul(a, b)  == CHOOSE x \in Dbl : TRUE
FDiv(a, b)  == CHOOSE x \in Dbl : TRUE
FNeg(a)     == CHOOSE x \in Dbl : TRUE
FAbs(a)     == CHOOSE x \in Dbl : TRUE
FSqrt(a)    == CHOOSE x \in Dbl : TRUE
FExp(a)     == CHOOSE x \in Dbl : TRUE
FLog(a)     == CHOOSE x \in Dbl : TRUE
FExpm1(a)   == CHOOSE x \in Dbl : TRUE
FLog1p(a)   == CHOOSE x \in Dbl : TRUE
FSin(a)     == CHOOSE x \in Dbl : TRUE
FCos(a)     == CHOOSE x \in Dbl : TRUE
FTan(a)     == CHOOSE x \in Dbl : TRUE
FAsin(a)    == CHOOSE x \in Dbl : TRUE
FAcos(a)    == CHOOSE x \in Dbl : TRUE
FAtan(a)    == CHOOSE x \in Dbl : TRUE
FPow(a, b)  == CHOOSE x \in Dbl : TRUE
FMax(a, b)  == CHOOSE x \in Dbl : TRUE
FMin(a, b)  == CHOOSE x \in Dbl : TRUE
FSum(s)     == CHOOSE x \in Dbl : TRUE   \* left-to-right sum of a sequence of doubles
FLt(a, b)   == CHOOSE x \in BOOLEAN : TRUE
FLe(a, b)   == CHOOSE x \in BOOLEAN : TRUE
FEq(a, b)   == CHOOSE x \in BOOLEAN : TRUE   \* numeric equality (+0 = -0, NaN # NaN)
FIsFinite(a) == CHOOSE x \in BOOLEAN : TRUE
FIsNaN(a)   == CHOOSE x \in BOOLEAN : TRUE
\* |a-b| <= rel*max(|a|,|b|) + abs   (rel, abs are doubles); FALSE if either is not finite
FClose(a, b, rel, abs) == CHOOSE x \in BOOLEAN : TRUE
\* value of printf("%.10E", a) read back with strtod: 11 significant digits, round-half-even on the exact binary value
FRound11(a) == CHOOSE x \in Dbl : TRUE
FRoundF6(a) == CHOOSE x \in Dbl : TRUE   \* value of printf("%f", a) read back (6 decimals)
FRound32(a) == CHOOSE x \in Dbl : TRUE   \* nearest single-precision number (the value of a float literal / of (double)(float)a)
FStr(a)     == CHOOSE x \in STRING : TRUE  \* shortest round-trip decimal, for reports only
FUlps(a, b) == CHOOSE x \in Int : TRUE     \* distance in units of the last place, capped at 1000000
FToInt(a)   == CHOOSE x \in Int : TRUE     \* C cast (int)a, for finite |a| < 2^31

Zero == FI(0)
One  == FI(1)
Two  == FI(2)
FGt(a, b) == FLt(b, a)
FGe(a, b) == FLe(b, a)
FSq(a) == FMul(a, a)
FPos(a) == FLt(Zero, a)
=========================================================================
