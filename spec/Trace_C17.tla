----------------------------- MODULE Trace_C17 -----------------------------
(* C17 conformance: every (thread, query) pair of the concurrent runs agreed with the serial answer, bit for bit. *)
EXTENDS XrlChunks
BadOf(i, ev) == IF ev.k = "thr" THEN (IF ev.bad = 0 /\ ev.res = ev.ref THEN {} ELSE {[prop |-> "C17", line |-> i, thread |-> ev.t, fn |-> ev.fn, ia |-> ev.ia, s |-> ev.s, executions |-> ev.n, disagreeing |-> ev.bad,
                                                                                       why |-> "a call executed concurrently returned something else than when executed alone", concurrent |-> ev.res, serial |-> ev.ref]})
                ELSE {}
Judged == JudgedWith(BadOf)
============================================================================
