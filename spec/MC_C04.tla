------------------------------ MODULE MC_C04 ------------------------------
(* C04 ledger, specification side: all histories of <= MaxOps constructor / release steps over 3 object slots. *)
EXTENDS XrlHeap
CONSTANTS MaxOps
VARIABLES st, live, n
Ids == 0..2
Kinds == {"compound", "nuclide", "crystal", "list", "string"}
Init == st = [own |-> [i \in Ids |-> 0], pending |-> 0] /\ live = 0 /\ n = 0
Event == [op : {"Make"}, id : Ids, kind : Kinds, n : {2}, ok : {0, 1}, slot : {0, 1}, err : {0, 1}]
         \cup [op : {"Free"}, id : Ids, kind : {"none"}, n : {0}, ok : {1}, slot : {0}, err : {0}]
         \cup [op : {"ClearError"}, id : {0}, kind : {"none"}, n : {0}, ok : {1}, slot : {1}, err : {0}]
Legal(ev) == /\ ProtocolOK(ev)
             /\ (ev.op = "Make" => st.own[ev.id] = 0 /\ (ev.err = 1 => st.pending = 0))
             /\ (ev.op = "Free" => st.own[ev.id] > 0)              \* release exactly once: a second release is not a legal step
             /\ (ev.op = "ClearError" => st.pending > 0)
Next == n < MaxOps /\ \E ev \in Event : Legal(ev) /\ st' = HeapStep(st, ev) /\ live' = live + Delta(st, ev) /\ n' = n + 1
LedgerInv == live = Ledger(st) /\ live >= 0
\* everything can always be released: from any state the all-released state is reachable by Free/ClearError steps only
Drained == (Owned(st) = {} /\ st.pending = 0) => live = 0
===========================================================================
