------------------------------ MODULE MC_C04 ------------------------------
(* C04 ledger, specification side: all histories of <= MaxOps constructor / grow / release steps over 3 object slots, *)
(* every observed block count 0..2 the ledger allows.                                                                *)
EXTENDS XrlHeap
CONSTANTS MaxOps
VARIABLES st, live, n
Ids == 0..2
Kinds == {"compound", "crystal"}
D == 0 - 2 .. 2
Init == st = [own |-> [i \in Ids |-> 0], pending |-> 0] /\ live = 0 /\ n = 0
Event == [op : {"Make", "Crystal_AddCrystal"}, id : Ids, kind : Kinds, ok : {0, 1}, slot : {0, 1}, err : {0, 1}, d : D]
         \cup [op : {"Call"}, id : {0}, kind : {"none"}, ok : {0, 1}, slot : {0, 1}, err : {0, 1}, d : D]
         \cup [op : {"Free"}, id : Ids, kind : {"none"}, ok : {1}, slot : {0}, err : {0}, d : D]
         \cup [op : {"ClearError"}, id : {0}, kind : {"none"}, ok : {1}, slot : {1}, err : {0}, d : D]
Legal(ev) == /\ ProtocolOK(ev) /\ DeltaWhy(st, ev) = ""
             /\ (ev.op = "Make" => st.own[ev.id] = 0)
             /\ (ev.op = "Crystal_AddCrystal" => st.own[ev.id] > 0)
             /\ (ev.op \in {"Make", "Crystal_AddCrystal", "Call"} /\ ev.err = 1 => st.pending = 0)
             /\ (ev.op = "Free" => st.own[ev.id] > 0)              \* release exactly once: a second release is not a legal step
             /\ (ev.op = "ClearError" => st.pending > 0)
Next == n < MaxOps /\ \E ev \in Event : Legal(ev) /\ st' = HeapStep(st, ev) /\ live' = live + ev.d /\ n' = n + 1
LedgerInv == live = Ledger(st) /\ live >= 0
\* once everything the caller owns has been released nothing is held
Drained == (Owned(st) = {} /\ st.pending = 0) => live = 0
===========================================================================
