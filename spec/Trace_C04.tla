----------------------------- MODULE Trace_C04 -----------------------------
(* C04 conformance: recorded allocation histories stepped through the ledger; every step: delta, running total, open files. *)
EXTENDS XrlHeap, Json, IOUtils
VARIABLES l, st, skip
Tr == ndJsonDeserialize(IOEnv.XRL_TRACE)
Ids == 0..11
Empty == [own |-> [i \in Ids |-> 0], pending |-> 0]
Report(ev, why, want) == PrintT("MISMATCH " \o ToJson([prop |-> "C04", line |-> l, hist |-> ev.hist, why |-> why, expected |-> want, ev |-> ev]))
Init == l = 1 /\ st = Empty /\ skip = FALSE
Next ==
  /\ l <= Len(Tr) /\ l' = l + 1
  /\ LET ev == Tr[l] IN
     CASE ev.k = "reset" -> st' = Empty /\ skip' = FALSE
       [] ev.k = "abort" -> Report(ev, "history ended abnormally (sanitizer report or crash)", 0) /\ st' = st /\ skip' = TRUE
       [] ev.k = "end" /\ ~skip -> (IF ev.live = 0 /\ ev.files = 0 /\ Owned(st) = {} /\ st.pending = 0 THEN TRUE ELSE Report(ev, "memory or files still held after everything was released", 0)) /\ UNCHANGED <<st, skip>>
       [] ev.k = "hop" /\ ~skip ->
            IF ~ProtocolOK(ev) THEN Report(ev, "failure not reported through the slot / error on success", 0) /\ st' = st /\ skip' = TRUE
            ELSE IF DeltaWhy(st, ev) # "" THEN Report(ev, DeltaWhy(st, ev), 0) /\ st' = st /\ skip' = TRUE
            ELSE IF ev.files # 0 THEN Report(ev, "a FILE is left open", 0) /\ st' = st /\ skip' = TRUE
            ELSE LET s2 == HeapStep(st, ev) IN
                 IF ev.live # Ledger(s2) THEN Report(ev, "running total of live blocks differs from the ledger", Ledger(s2)) /\ st' = st /\ skip' = TRUE
                 ELSE st' = s2 /\ skip' = FALSE
       [] OTHER -> UNCHANGED <<st, skip>>
Done == TLCGet("stats").diameter = Len(Tr) + 1 /\ PrintT("JUDGED " \o ToString(Len(Tr)) \o " events in 1 chunks")
============================================================================
