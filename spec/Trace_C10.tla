----------------------------- MODULE Trace_C10 -----------------------------
EXTENDS XrlLines, XrlChunks
Show(res) == IF res.ok THEN FStr(res.v) ELSE "error"
BadOf(i, ev) ==
  { [prop |-> "C10", line |-> i, fn |-> "LineEnergy", Z |-> ev.Z, group |-> n,
     got |-> [ok |-> Ok(ev.E, LineMacro[n]), v |-> FStr(Val(ev.E, LineMacro[n]))],
     want |-> { Show(r) : r \in EnergyWant(ev, n) }] :
    n \in { n \in EnergyGroups : ~\E r \in EnergyWant(ev, n) : Agree(r, Ok(ev.E, LineMacro[n]), Val(ev.E, LineMacro[n])) } }
  \cup
  { [prop |-> "C10", line |-> i, fn |-> "LineEnergy", Z |-> ev.Z, group |-> n, why |-> "outside the range of its member energies",
     got |-> [ok |-> TRUE, v |-> FStr(Val(ev.E, LineMacro[n]))]] :
    n \in { n \in EnergyGroups : Ok(ev.E, LineMacro[n]) /\ ~Between(ev, n, Val(ev.E, LineMacro[n])) } }
  \cup
  { [prop |-> "C10", line |-> i, fn |-> "RadRate", Z |-> ev.Z, group |-> n,
     got |-> [ok |-> Ok(ev.RR, LineMacro[n]), v |-> FStr(Val(ev.RR, LineMacro[n]))], want |-> {Show(GroupRateWant(ev, n))}] :
    n \in { n \in RateGroups : ~Agree(GroupRateWant(ev, n), Ok(ev.RR, LineMacro[n]), Val(ev.RR, LineMacro[n])) } }
Repeats(i, ev) ==
  { [prop |-> "C10", line |-> i, fn |-> f, Z |-> ev.Z, why |-> "asked once before and twice back to back after the judged row, the answers (value or error) are not the same for " \o ToString(IF f = "LineEnergy" THEN ev.repE ELSE ev.repRR) \o " line macro(s)"] :
    f \in { f \in {"LineEnergy", "RadRate"} : (f = "LineEnergy" /\ ev.repE # 0) \/ (f = "RadRate" /\ ev.repRR # 0) } }
BadAll(i, ev) == BadOf(i, ev) \cup Repeats(i, ev)
Judged == JudgedWith(BadAll)
Static == c = 0 => (GroupStructureOK \/ PrintT("MISMATCH " \o ToJson([prop |-> "C10", layer |-> "spec", why |-> "line group structure / Siegbahn alias outside its series"])))
============================================================================
