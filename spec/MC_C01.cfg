INIT Init
NEXT Next
INVARIANT RowOK
INVARIANT Static
CHECK_DEADLOCK FALSE
