----------------------------- MODULE Trace_C14f -----------------------------
(* C14, damaged crystal files.  Whatever the reader makes of a damaged file, the statement fixes what may happen to the collection:     *)
(* a refused load leaves it as it was; an accepted load keeps every old member; the listed names stay strictly sorted (hence unique),   *)
(* their number is the recorded count, every listed name can be retrieved, the built-in collection never grows beyond its capacity,     *)
(* and success and the error slot exclude each other.                                                                                   *)
EXTENDS XrlStrings, XrlChunks, Integers, Sequences
Set(seq) == { seq[i] : i \in 1..Len(seq) }
Why(ev) ==
  IF ev.k = "fuzzcrash" THEN "the reader brought the process down on a damaged file (signal / abnormal exit)"
  ELSE IF (ev.ok = 1) = (ev.err = 1) THEN "success and the error slot disagree"
  ELSE IF ev.ok = 0 /\ (ev.after # ev.before \/ ev.alloc[1] # ev.alloc[2]) THEN "a refused file changed the collection"
  ELSE IF ~(Set(ev.before) \subseteq Set(ev.after)) THEN "a member of the collection was lost"
  ELSE IF ~StrictlySorted(ev.after) THEN "listed names are not strictly sorted (order or uniqueness lost)"
  ELSE IF ev.n # Len(ev.after) THEN "recorded count differs from the number of listed names"
  ELSE IF ev.allget # 1 THEN "a listed name cannot be retrieved"
  ELSE IF ev.n > ev.alloc[2] THEN "more members than capacity"
  ELSE IF ev.builtin = 1 /\ ev.alloc[1] # ev.alloc[2] THEN "the built-in collection changed its capacity"
  ELSE ""
BadOf(i, ev) == IF ev.k \in {"fuzz", "fuzzcrash"} /\ Why(ev) # "" THEN {[prop |-> "C14", line |-> i, why |-> Why(ev), ev |-> ev]} ELSE {}
Judged == JudgedWith(BadOf)
=============================================================================
