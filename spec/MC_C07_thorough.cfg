CONSTANT MaxLen = 5
INIT Init
NEXT Next
INVARIANT OracleOK
CHECK_DEADLOCK FALSE
