INIT Init
NEXT Next
INVARIANT Judged
INVARIANT Counted
CHECK_DEADLOCK FALSE
