------------------------------ MODULE MC_C20 ------------------------------
(* C20: TLC as evaluator of the interface predicates; one state per group of predicates. *)
EXTENDS XrlBindings
VARIABLE g
Groups == {"const-fortran", "const-pascal", "const-idl", "const-java", "const-java-runtime", "missing", "inclusion", "proto-cython", "proto-fortran", "proto-pascal", "proto-idl", "glue-idl", "swig-apply", "enums", "libtool", "exports", "versions"}
Init == g = ""
Next == g = "" /\ \E x \in Groups : g' = x
Of(x) == CASE x = "const-fortran" -> ConstComplaints("fortran") [] x = "const-pascal" -> ConstComplaints("pascal") [] x = "const-idl" -> ConstComplaints("idl")
           [] x = "const-java" -> ConstComplaints("java") [] x = "const-java-runtime" -> ConstComplaints("java_runtime") [] x = "missing" -> UNION { Missing(b) : b \in {"fortran", "pascal", "idl", "java", "cython"} }
           [] x = "inclusion" -> ByInclusion [] x = "proto-cython" -> CythonProtoComplaints [] x = "proto-fortran" -> FortranProtoComplaints [] x = "proto-pascal" -> PascalProtoComplaints [] x = "proto-idl" -> IdlDlmComplaints [] x = "glue-idl" -> IdlGlueComplaints [] x = "swig-apply" -> SwigApplyComplaints [] x = "enums" -> EnumComplaints [] x = "libtool" -> LibtoolComplaints
           [] x = "exports" -> ExportComplaints [] x = "versions" -> VersionComplaints
Judged == g # "" => \A r \in Of(g) : PrintT("MISMATCH " \o ToJson([prop |-> "C20", group |-> g] @@ r))
\* how much was compared (for the evidence)
Counted == g = "" => PrintT("COUNTS " \o ToJson([consts |-> [b \in {"fortran", "pascal", "idl", "java"} |-> Len(Bind[b].consts)], cython_names |-> Len(Bind.cython.names), cython_protos |-> Len(Bind.cython.protos),
                                                   fortran_protos |-> Len(Bind.fortran.protos), pascal_protos |-> Len(Bind.pascal.protos), idl_routines |-> Len(Bind.idl.dlm), header_functions |-> Cardinality(HeaderFunctions), exports |-> Len(Exports), version_files |-> Len(Versions),
                                                   family_constants |-> Cardinality(UNION { DOMAIN Fam[f] : f \in Families })]))
===========================================================================
