----------------------------- MODULE XrlBindings -----------------------------
(***************************************************************************)
(* C20.  No transitions: the "model" is the set of constants, names and    *)
(* signatures of the C API (the same facts that type every trace event);   *)
(* the predicates below are evaluated by TLC over the declarations lexed   *)
(* from each hand-maintained binding at check time.                        *)
(***************************************************************************)
EXTENDS XrlFacts, FP
Bind == JsonDeserialize(FactsDir \o "/bindings.json")
CProtos == JsonDeserialize(FactsDir \o "/protos.json")
Versions == JsonDeserialize(FactsDir \o "/versions.json")
Exports == JsonDeserialize(FactsDir \o "/exports.json")
Fam == MacroFacts.fam
Families == {"shell", "line", "trans", "auger", "nist", "nuclide"}
AllInts == [n \in UNION { DOMAIN Fam[f] : f \in DOMAIN Fam } |-> Fam[CHOOSE f \in DOMAIN Fam : n \in DOMAIN Fam[f]][n]]
Range(seq) == { seq[i] : i \in 1..Len(seq) }
\* ---- literal handling
IsDigit(ch) == ch \in {"0", "1", "2", "3", "4", "5", "6", "7", "8", "9"}
RECURSIVE Clean(_, _)
\* Fortran / IDL double literals: 1.5d0, 1.5_C_DOUBLE
Clean(s, i) == IF i > Len(s) THEN "" ELSE LET ch == SubSeq(s, i, i) IN
               IF ch = "_" THEN "" ELSE (IF ch \in {"d", "D"} THEN "e" ELSE ch) \o Clean(s, i + 1)
RECURSIVE SigDigits(_, _, _)
SigDigits(s, i, started) == IF i > Len(s) THEN 0 ELSE LET ch == SubSeq(s, i, i) IN
                            IF ch \in {"e", "E"} THEN 0
                            ELSE IF IsDigit(ch) /\ (started \/ ch # "0") THEN 1 + SigDigits(s, i + 1, TRUE)
                            ELSE SigDigits(s, i + 1, started)
\* a real constant written with d significant digits equals the C constant "at the precision written"
SameReal(lit, clit) == LET a == F(Clean(lit, 1)) b == F(clit) d == SigDigits(Clean(lit, 1), 1, FALSE) IN
                       FClose(a, b, FMul(F("0.5"), FPow(F("10.0"), FI(1 - d))), Zero)
SameInt(lit, n) == lit = ToString(n) \/ lit = "+" \o ToString(n)
\* ---- constants of a binding that carries literal values
\* a constant may be written as an alias of another constant of the same binding (KA1_LINE = KL3_LINE): resolved within the binding
ConstComplaints(b) ==
  LET cs == Bind[b].consts
      byName == [n \in { cs[i][1] : i \in 1..Len(cs) } |-> cs[CHOOSE i \in 1..Len(cs) : cs[i][1] = n][2]]
      Resolve(l) == IF l \in DOMAIN byName THEN byName[l] ELSE l
  IN
  UNION { LET name == cs[i][1] lit == Resolve(cs[i][2]) IN
          IF name \in DOMAIN AllInts THEN (IF SameInt(lit, AllInts[name]) THEN {} ELSE {[binding |-> b, name |-> name, binding_value |-> lit, c_value |-> ToString(AllInts[name]), why |-> "integer constant differs from the C header"]})
          ELSE IF name \in DOMAIN DecMacro THEN (IF SameReal(lit, DecMacro[name]) THEN {} ELSE {[binding |-> b, name |-> name, binding_value |-> lit, c_value |-> DecMacro[name], why |-> "real constant differs from the C header"]})
          ELSE {} : i \in 1..Len(cs) }
\* ---- completeness of the six user-facing macro families
Published(b) == CASE b = "cython" -> { Bind[b].names[i][1] : i \in 1..Len(Bind[b].names) } \cap { Bind[b].pyx[i][1] : i \in 1..Len(Bind[b].pyx) }
                  [] OTHER -> { Bind[b].consts[i][1] : i \in 1..Len(Bind[b].consts) }
Missing(b) == { [binding |-> b, name |-> n, why |-> "constant of a user-facing macro family is not exposed"] : n \in UNION { DOMAIN Fam[f] : f \in Families } \ Published(b) }
\* bindings that take the constants from the C headers by inclusion / from the generated data file
ByInclusion == (IF "xraylib.h" \in Range(Bind.cxx.includes) THEN {} ELSE {[binding |-> "cxx", why |-> "xraylib++.h does not include xraylib.h"]})
               \cup (IF "xraylib.h" \in Range(Bind.swig.includes) THEN {} ELSE {[binding |-> "swig", why |-> "xraylib.i does not include xraylib.h"]})
               \cup { [binding |-> "java", name |-> n, why |-> "physical constant neither written to the data file from the C macro nor declared"] :
                      n \in { n \in {"AVOGNUM", "KEV2ANGST", "MEC2", "RE2", "R_E"} : n \notin Range(Bind.java_datafile.written) \/ n \notin { Bind.java.decl[i][1] : i \in 1..Len(Bind.java.decl) } } }
\* ---- prototypes
CByName == [n \in { CProtos[i].name : i \in 1..Len(CProtos) } |-> CProtos[CHOOSE i \in 1..Len(CProtos) : CProtos[i].name = n]]
IsPtr(t) == Len(t) >= 1 /\ SubSeq(t, Len(t), Len(t)) = "*"
\* Cython declarations are C declarations: compare after dropping qualifiers the pxd may omit
RECURSIVE DropConst(_)
DropConst(t) == IF Len(t) > 6 /\ SubSeq(t, 1, 6) = "const " THEN DropConst(SubSeq(t, 7, Len(t))) ELSE t
SameCType(a, b) == DropConst(a) = DropConst(b)
CythonProtoComplaints ==
  UNION { LET p == Bind.cython.protos[i] IN
          IF p.name \notin DOMAIN CByName THEN {}
          ELSE LET c == CByName[p.name] IN
               IF Len(p.args) = Len(c.args) /\ SameCType(p.ret, c.ret) /\ \A k \in 1..Len(c.args) : SameCType(p.args[k], c.args[k]) THEN {}
               ELSE {[binding |-> "cython", name |-> p.name, declared |-> [ret |-> p.ret, args |-> p.args], c |-> [ret |-> c.ret, args |-> c.args], why |-> "prototype differs from the C header"]}
        : i \in 1..Len(Bind.cython.protos) }
\* Fortran: <type, kind, VALUE?, array?> against a C type
FortranArgOK(a, ct) ==
  LET typ == a[1] kind == a[2] byval == a[3] arr == a[4] IN
  CASE typ = "INTEGER" /\ kind = "C_INT" -> IF byval THEN ct \in {"int", "xrl_error_code"} ELSE ct \in {"int*"}
    [] typ = "INTEGER" /\ kind = "C_SIZE_T" -> byval /\ ct = "size_t"
    [] typ = "REAL" /\ kind = "C_DOUBLE" -> IF byval THEN ct = "double" ELSE ct = "double*"
    [] typ = "TYPE" /\ kind = "C_PTR" -> byval /\ IsPtr(ct)
    [] typ = "CHARACTER" -> IsPtr(ct) /\ DropConst(ct) = "char*"
    [] typ = "TYPE" -> IF byval THEN ~IsPtr(ct) ELSE IsPtr(ct)                 \* a BIND(C) derived type by value or by reference
    [] OTHER -> FALSE
FortranRetOK(r, ct) == CASE r[1] = "VOID" -> ct = "void" [] r[1] = "REAL" -> ct = "double" [] r[1] = "INTEGER" -> ct \in {"int"}
                         [] r[1] = "TYPE" /\ r[2] = "C_PTR" -> IsPtr(ct) [] r[1] = "TYPE" -> ~IsPtr(ct) /\ ct # "double" /\ ct # "int" [] OTHER -> FALSE
FortranProtoComplaints ==
  UNION { LET p == Bind.fortran.protos[i] IN
          IF p.name \notin DOMAIN CByName THEN {}
          ELSE LET c == CByName[p.name] IN
               IF Len(p.args) = Len(c.args) /\ FortranRetOK(p.ret, c.ret) /\ \A k \in 1..Len(c.args) : FortranArgOK(p.args[k], c.args[k]) THEN {}
               ELSE {[binding |-> "fortran", name |-> p.name, declared |-> [ret |-> p.ret, args |-> p.args], c |-> [ret |-> c.ret, args |-> c.args], why |-> "interface differs from the C prototype"]}
        : i \in 1..Len(Bind.fortran.protos) }
\* Pascal (Free Pascal, cdecl externals): <type as written, by reference?> against a C type
PascalArgOK(a, ct) ==
  LET typ == a[1] byref == a[2] c == DropConst(ct) IN
  CASE typ = "longint" -> IF byref THEN c = "int*" ELSE c \in {"int", "xrl_error_code"}
    [] typ = "double" -> IF byref THEN c = "double*" ELSE c = "double"
    [] typ = "pansichar" -> ~byref /\ c = "char*"
    [] typ = "ppansichar" -> ~byref /\ c = "char**"
    [] typ = "ppxrl_error" -> ~byref /\ c = "xrl_error**"
    [] typ = "pxrl_error" -> ~byref /\ c = "xrl_error*"
    [] typ = "pcompounddata" -> ~byref /\ c = "struct compoundData*"
    [] typ = "pcompounddatanist" -> ~byref /\ c = "struct compoundDataNIST*"
    [] typ = "pradionuclidedata" -> ~byref /\ c = "struct radioNuclideData*"
    [] typ = "pcrystalstruct" -> ~byref /\ c = "Crystal_Struct*"
    [] typ = "pointer" -> ~byref /\ IsPtr(c)
    [] typ = "xrlcomplex" -> IF byref THEN c = "xrlComplex*" ELSE c = "xrlComplex"
    [] OTHER -> FALSE
PascalRetOK(p, ct) == IF p.kind = "procedure" THEN ct = "void" ELSE PascalArgOK(<<p.ret, FALSE>>, ct)
PascalProtoComplaints ==
  UNION { LET p == Bind.pascal.protos[i] IN
          IF p.name \notin DOMAIN CByName THEN {}
          ELSE LET c == CByName[p.name] IN
               IF Len(p.args) = Len(c.args) /\ PascalRetOK(p, c.ret) /\ \A k \in 1..Len(c.args) : PascalArgOK(p.args[k], c.args[k]) THEN {}
               ELSE {[binding |-> "pascal", name |-> p.name, declared |-> [ret |-> p.ret, args |-> p.args], c |-> [ret |-> c.ret, args |-> c.args], why |-> "external declaration differs from the C prototype"]}
        : i \in 1..Len(Bind.pascal.protos) }
\* ---- IDL: the DLM file declares every routine with its minimum and maximum number of arguments.  IDL is case-insensitive; the routine takes the
\* C function's arguments except the error slot, the crystal array (always the built-in one) and the element count of a returned list.
CByUpper == [u \in { CProtos[i].upper : i \in 1..Len(CProtos) } |-> CProtos[CHOOSE i \in 1..Len(CProtos) : CProtos[i].upper = u]]
IdlArity(c) == Cardinality({ k \in 1..Len(c.args) : DropConst(c.args[k]) \notin {"xrl_error**", "Crystal_Array*", "int*"} })
IdlDlmComplaints ==
  UNION { LET d == Bind.idl.dlm[i] IN
          IF d[2] \notin DOMAIN CByUpper THEN {}
          ELSE LET c == CByUpper[d[2]] n == IdlArity(c) IN
               \* (FUNCTION / PROCEDURE is not compared: a C status result may legitimately become an IDL error, as in ATOMIC_FACTORS)
               IF d[3] = ToString(n) /\ d[4] = ToString(n) THEN {}
               ELSE {[binding |-> "idl", name |-> c.name, declared |-> d, c |-> [ret |-> c.ret, args |-> c.args], why |-> "DLM declaration (min, max arguments) does not fit the C prototype"]}
        : i \in 1..Len(Bind.idl.dlm) }
\* the C glue of the IDL binding instantiates one macro per routine; the macro name spells the argument types (I int, F double, S string)
IdlLetter(ct) == CASE DropConst(ct) = "int" -> "I" [] DropConst(ct) = "double" -> "F" [] DropConst(ct) = "char*" -> "S" [] OTHER -> "?"
RECURSIVE Letters(_, _)
Letters(args, k) == IF k > Len(args) THEN "" ELSE (IF DropConst(args[k]) = "xrl_error**" THEN "" ELSE IdlLetter(args[k])) \o Letters(args, k + 1)
IdlGlueComplaints ==
  UNION { LET g == Bind.idl.glue[i] IN
          IF g[1] \notin DOMAIN CByName THEN {}
          ELSE LET c == CByName[g[1]] IN
               IF Letters(c.args, 1) = g[3] /\ ToString(Len(g[3])) = g[2] THEN {}
               ELSE {[binding |-> "idl", name |-> g[1], declared |-> g, c |-> [ret |-> c.ret, args |-> c.args], why |-> "argument types of the IDL glue macro differ from the C prototype"]}
        : i \in 1..Len(Bind.idl.glue) }
\* SWIG attaches an OUTPUT typemap by parameter type AND name: a typemap whose name matches no parameter of any C prototype is silently dead
SwigApplyComplaints ==
  { [binding |-> "swig", typemap |-> Bind.swig_apply[i], why |-> "%apply names a parameter that no C prototype has (the typemap does not attach)"] :
    i \in { i \in 1..Len(Bind.swig_apply) : ~\E p \in 1..Len(CProtos) : \E k \in 1..Len(CProtos[p].args) :
                 DropConst(CProtos[p].args[k]) = DropConst(Bind.swig_apply[i][1]) /\ CProtos[p].argnames[k] = Bind.swig_apply[i][2] } }
\* ---- enumerations: a C enumerator without "= value" is its predecessor plus one (the first is 0); Fortran ENUM, BIND(C) and Pascal enumerated
\* types number the same way.  The bindings must declare the same names with the same numbers, in any order.
IsDigitStr(t) == t # "" /\ \A i \in 1..Len(t) : SubSeq(t, i, i) \in {"0","1","2","3","4","5","6","7","8","9"}
RECURSIVE DecVal(_)
DecVal(t) == IF t = "" THEN 0 ELSE 10 * DecVal(SubSeq(t, 1, Len(t) - 1)) + (CHOOSE d \in 0..9 : ToString(d) = SubSeq(t, Len(t), Len(t)))
RECURSIVE Numbered(_, _, _)
Numbered(items, i, prev) == IF i > Len(items) THEN {} ELSE
  LET v == IF IsDigitStr(items[i][2]) THEN DecVal(items[i][2]) ELSE IF items[i][2] = "" THEN prev + 1 ELSE 0 - 999 IN {<<items[i][1], v>>} \cup Numbered(items, i + 1, v)
EnumOf(items) == Numbered(items, 1, 0 - 1)
EnumComplaints ==
  UNION { IF EnumOf(Bind.enums[b]) = EnumOf(Bind.enums.c) THEN {}
          ELSE {[binding |-> b, enum |-> "xrl_error_code", declared |-> Bind.enums[b], c |-> Bind.enums.c, why |-> "enumeration is numbered differently from the C header"]} : b \in {"fortran", "pascal"} }
  \cup (IF Len(Bind.enums.c) >= 6 THEN {} ELSE {[binding |-> "c", enum |-> "xrl_error_code", why |-> "enumeration not found in xraylib-error.h"]})
\* ---- the libtool triple current:revision:age is maintained by hand in two build systems
LibtoolComplaints == IF Bind.libtool["configure.ac"] = Bind.libtool["meson.build"] /\ \A k \in 1..3 : Bind.libtool["meson.build"][k] # "" THEN {}
                     ELSE {[file |-> "configure.ac / meson.build", autotools |-> Bind.libtool["configure.ac"], meson |-> Bind.libtool["meson.build"], why |-> "libtool version (current, revision, age) differs between the two build systems"]}
\* ---- exports and versions
HeaderFunctions == { CProtos[i].name : i \in { i \in 1..Len(CProtos) : CProtos[i].header # "xraylib-error-private.h" } }
ExportComplaints == { [name |-> n, why |-> "declared in a public header but not exported by the built library"] : n \in HeaderFunctions \ Range(Exports) }
HeaderVersion == ToString(MiscMacro.XRAYLIB_MAJOR) \o "." \o ToString(MiscMacro.XRAYLIB_MINOR) \o "." \o ToString(MiscMacro.XRAYLIB_MICRO)
VersionComplaints == { [file |-> Versions[i][1], version |-> Versions[i][2], header |-> HeaderVersion, why |-> "version differs from xraylib.h"] : i \in { i \in 1..Len(Versions) : Versions[i][2] # HeaderVersion } }
AllComplaints == UNION { ConstComplaints(b) : b \in {"fortran", "pascal", "idl", "java"} } \cup UNION { Missing(b) : b \in {"fortran", "pascal", "idl", "java", "cython"} }
                 \cup ByInclusion \cup CythonProtoComplaints \cup FortranProtoComplaints \cup PascalProtoComplaints \cup IdlDlmComplaints \cup IdlGlueComplaints \cup SwigApplyComplaints \cup EnumComplaints \cup LibtoolComplaints \cup ExportComplaints \cup VersionComplaints
==============================================================================
