----------------------------- MODULE XrlFacts -----------------------------
(***************************************************************************)
(* Facts lexed from the current /repo working tree at check time           *)
(* (facts/lex.py): header macros, the hand-maintained name tables of       *)
(* xrayvars.c, and the scalar data files.  Every number is still the       *)
(* decimal token found in the file.  The directory comes from the          *)
(* environment variable XRL_FACTS.                                         *)
(***************************************************************************)
EXTENDS Integers, Sequences, FiniteSets, Json, IOUtils, TLC
FactsDir    == IOEnv.XRL_FACTS
MacroFacts  == JsonDeserialize(FactsDir \o "/macros.json")
NameFacts   == JsonDeserialize(FactsDir \o "/names.json")
ScalarFacts == JsonDeserialize(FactsDir \o "/scalar.json")
KisselOcc   == JsonDeserialize(FactsDir \o "/kissel_occ.json")    \* [] (empty) in data configuration A
ComptonOcc  == JsonDeserialize(FactsDir \o "/compton_occ.json")

ShellMacro  == MacroFacts.fam.shell      \* macro name |-> integer value
LineMacro   == MacroFacts.fam.line
TransMacro  == MacroFacts.fam.trans
AugerMacro  == MacroFacts.fam.auger
MiscMacro   == MacroFacts.fam.other
DecMacro    == MacroFacts.dec            \* macro name |-> decimal literal (string)
AliasMacro  == MacroFacts.alias          \* macro name |-> the macro it is #defined as

ZMAX     == MiscMacro.ZMAX
SHELLNUM == MiscMacro.SHELLNUM
SHELLNUM_K == MiscMacro.SHELLNUM_K
LINENUM  == MiscMacro.LINENUM
TRANSNUM == MiscMacro.TRANSNUM
AUGERNUM == MiscMacro.AUGERNUM
SHELLNUM_A == MiscMacro.SHELLNUM_A

Has(r, k) == k \in DOMAIN r
Get(r, k, dflt) == IF k \in DOMAIN r THEN r[k] ELSE dflt
===========================================================================
