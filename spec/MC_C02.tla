------------------------------ MODULE MC_C02 ------------------------------
(***************************************************************************)
(* C02, specification side: properties of the interpolation operator       *)
(* itself on ALL small dyadic tables (exact arithmetic): every knot is     *)
(* reproduced, the library's bisection selects the interval the property   *)
(* names, neighbouring cubics agree at their common knot, and nothing is   *)
(* accepted outside [x_1, x_N + 1e-7].                                     *)
(***************************************************************************)
EXTENDS XrlSpline
CONSTANT MaxN
VARIABLES tab
Grid == 0..3
Vals == 1..2
Curv == 0..1
NonDecr(N) == { s \in [1..N -> Grid] : \A i \in 1..(N - 1) : s[i] <= s[i + 1] }
Tables == UNION { { [N |-> N, x |-> [i \in 1..N |-> FI(xs[i])], y |-> [i \in 1..N |-> FI(ys[i])], y2 |-> [i \in 1..N |-> FI(cs[i])]] :
                    xs \in NonDecr(N), ys \in [1..N -> Vals], cs \in [1..N -> Curv] } : N \in 2..MaxN }
Init == tab = [N |-> 0]
Next == tab.N = 0 /\ \E t \in Tables : tab' = t
Quarter == F("0.25")
Probes == { FMul(FI(k), Quarter) : k \in (0 - 2)..14 }
Id(y) == y
OperatorOK == tab.N > 0 =>
  /\ TableOK(tab)
  /\ AtKnots(tab)
  /\ \A x \in Probes : BisectIsInterval(tab, x)
  \* continuity at interior knots (strictly increasing neighbours)
  /\ \A k \in 1..(tab.N - 2) : (FLt(tab.x[k], tab.x[k + 1]) /\ FLt(tab.x[k + 1], tab.x[k + 2])) => Cubic(tab, k, tab.x[k + 1]) = Cubic(tab, k + 1, tab.x[k + 1])
  \* never a number outside the table (beyond the documented slack)
  /\ \A x \in Probes : (FLt(x, tab.x[1]) \/ FGt(FSub(x, tab.x[tab.N]), TopSlack)) => \A v \in {Zero, One, tab.y[1], tab.y[tab.N]} : ~SplineAccept(tab, x, TRUE, v, Id)
  \* inside the table an error is never acceptable
  /\ \A x \in Probes : (FLe(tab.x[1], x) /\ FLe(x, tab.x[tab.N])) => ~SplineAccept(tab, x, FALSE, Zero, Id)
===========================================================================
