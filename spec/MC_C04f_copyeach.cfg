CONSTANTS
 NNew = 3
 Discipline = "copyeach"
 MaxReq = 6
INIT Init
NEXT Next
INVARIANT Atomic
CHECK_DEADLOCK FALSE
