---- MODULE Trace_C02_TTrace_1790556857 ----
EXTENDS Sequences, TLCExt, Toolbox, Trace_C02, Naturals, TLC

_expression ==
    LET Trace_C02_TEExpression == INSTANCE Trace_C02_TEExpression
    IN Trace_C02_TEExpression!expression
----

_trace ==
    LET Trace_C02_TETrace == INSTANCE Trace_C02_TETrace
    IN Trace_C02_TETrace!trace
----

_inv ==
    ~(
        TLCGet("level") = Len(_TETrace)
        /\
        c = (1)
    )
----

_init ==
    /\ c = _TETrace[1].c
----

_next ==
    /\ \E i,j \in DOMAIN _TETrace:
        /\ \/ /\ j = i + 1
              /\ i = TLCGet("level")
        /\ c  = _TETrace[i].c
        /\ c' = _TETrace[j].c

\* Uncomment the ASSUME below to write the states of the error trace
\* to the given file in Json format. Note that you can pass any tuple
\* to `JsonSerialize`. For example, a sub-sequence of _TETrace.
    \* ASSUME
    \*     LET J == INSTANCE Json
    \*         IN J!JsonSerialize("Trace_C02_TTrace_1790556857.json", _TETrace)

=============================================================================

 Note that you can extract this module `Trace_C02_TEExpression`
  to a dedicated file to reuse `expression` (the module in the 
  dedicated `Trace_C02_TEExpression.tla` file takes precedence 
  over the module `Trace_C02_TEExpression` below).

---- MODULE Trace_C02_TEExpression ----
EXTENDS Sequences, TLCExt, Toolbox, Trace_C02, Naturals, TLC

expression == 
    [
        \* To hide variables of the `Trace_C02` spec from the error trace,
        \* remove the variables below.  The trace will be written in the order
        \* of the fields of this record.
        c |-> c
        
        \* Put additional constant-, state-, and action-level expressions here:
        \* ,_stateNumber |-> _TEPosition
        \* ,_cUnchanged |-> c = c'
        
        \* Format the `c` variable as Json value.
        \* ,_cJson |->
        \*     LET J == INSTANCE Json
        \*     IN J!ToJson(c)
        
        \* Lastly, you may build expressions over arbitrary sets of states by
        \* leveraging the _TETrace operator.  For example, this is how to
        \* count the number of times a spec variable changed up to the current
        \* state in the trace.
        \* ,_cModCount |->
        \*     LET F[s \in DOMAIN _TETrace] ==
        \*         IF s = 1 THEN 0
        \*         ELSE IF _TETrace[s].c # _TETrace[s-1].c
        \*             THEN 1 + F[s-1] ELSE F[s-1]
        \*     IN F[_TEPosition - 1]
    ]

=============================================================================



Parsing and semantic processing can take forever if the trace below is long.
 In this case, it is advised to uncomment the module below to deserialize the
 trace from a generated binary file.

\*
\*---- MODULE Trace_C02_TETrace ----
\*EXTENDS IOUtils, Trace_C02, TLC
\*
\*trace == IODeserialize("Trace_C02_TTrace_1790556857.bin", TRUE)
\*
\*=============================================================================
\*

---- MODULE Trace_C02_TETrace ----
EXTENDS Trace_C02, TLC

trace == 
    <<
    ([c |-> 0]),
    ([c |-> 1])
    >>
----


=============================================================================

---- CONFIG Trace_C02_TTrace_1790556857 ----

INVARIANT
    _inv

CHECK_DEADLOCK
    \* CHECK_DEADLOCK off because of PROPERTY or INVARIANT above.
    FALSE

INIT
    _init

NEXT
    _next

CONSTANT
    _TETrace <- _trace

ALIAS
    _expression
=============================================================================
\* Generated on Mon Sep 28 00:54:18 UTC 2026