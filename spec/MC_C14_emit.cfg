CONSTANTS
 NH = 1
 NamePool = {"A", "B", "C"}
 Geoms = {1, 2}
 NC = 2
 MaxOps = 3
 Delta = 2
 MCCAP = 3
 MaxFile = 2
 Emit = TRUE
INIT Init
NEXT Next
VIEW View
INVARIANT Consistent
CHECK_DEADLOCK FALSE
