CONSTANTS
 MaxOps = 8
INIT Init
NEXT Next
INVARIANT LedgerInv
INVARIANT Drained
CHECK_DEADLOCK FALSE
