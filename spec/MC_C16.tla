------------------------------ MODULE MC_C16 ------------------------------
(***************************************************************************)
(* C16, specification side: any implementation that respects the frame     *)
(* table MayChange satisfies the property as stated -- the tables, locale  *)
(* and working directory never change, the built-in collection changes     *)
(* only through explicit insertion, an error object keeps its content      *)
(* until it is released.  Abstract values 0..1 per variable.               *)
(***************************************************************************)
EXTENDS XrlPure, FiniteSets
VARIABLES s, last
OpsMC == {"query", "XRayInit", "UserArray", "AddBuiltin", "Deprecated", "KeepError", "ReleaseError"}
Vals == 0..1
Init == s = [tables |-> 0, builtin |-> 0, locale |-> 0, cwd |-> 0, stderr |-> 0, errs |-> <<<<0 - 1, 0, 0>>, <<0 - 1, 0, 0>>>>] /\ last = [op |-> "none", slot |-> 0]
Errs2 == { <<a, b>> : a \in {<<0 - 1, 0, 0>>, <<1, 7, 7>>, <<5, 9, 9>>}, b \in {<<0 - 1, 0, 0>>, <<1, 7, 7>>} }
Next == \E op \in OpsMC, slot \in 0..1, t \in [tables : Vals, builtin : Vals, locale : Vals, cwd : Vals, stderr : Vals, errs : Errs2] :
          /\ FrameOK(op, s, t) /\ ErrsOK(op, slot, s, t)
          /\ s' = t /\ last' = [op |-> op, slot |-> slot]
vars == <<s, last>>
Spec == Init /\ [][Next]_vars
TablesNeverChange == [][s'.tables = s.tables /\ s'.locale = s.locale /\ s'.cwd = s.cwd]_vars
BuiltinOnlyByInsertion == [][s'.builtin # s.builtin => last'.op = "AddBuiltin"]_vars
ErrorsStable == [][\A k \in 1..2 : (s.errs[k][1] # 0 - 1 /\ s'.errs[k] # s.errs[k]) => (last'.op = "ReleaseError" /\ last'.slot = k - 1)]_vars
===========================================================================
