CONSTANTS
 Threads = {1, 2}
 Menu = {"Parse"}
 InitLocale = "de_DE"
 CallsPerThread = 1
INIT Init
NEXT Next
INVARIANT SerialResults
INVARIANT LocaleRestored
CHECK_DEADLOCK FALSE
