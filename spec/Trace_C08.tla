----------------------------- MODULE Trace_C08 -----------------------------
EXTENDS XrlXRFKissel, XrlChunks
AtOf(ev, m) == CHOOSE j \in 1..Len(ev.at) : m \in AtComplaints(ev, ev.at[j]) \cup LineComplaints(ev, ev.at[j])
BadOf(i, ev) == IF ev.k = "kxrf" THEN { [prop |-> "C08", line |-> i, Z |-> ev.Z, E |-> FStr(ev.at[AtOf(ev, m)].E), why |-> m] : m \in Complaints(ev) }
                ELSE {[prop |-> "C08", line |-> i, why |-> "unexpected event"]}
Judged == JudgedWith(BadOf)
Static == c = 0 => (AugerStructureOK \/ PrintT("MISMATCH " \o ToJson([prop |-> "C08", layer |-> "spec", why |-> "Auger macro family malformed"])))
============================================================================
