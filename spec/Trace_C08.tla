----------------------------- MODULE Trace_C08 -----------------------------
EXTENDS XrlXRFKissel, XrlChunks
\* the same module judges events of the C library (check C08) and of the Java implementation (check C19, second binding)
PropLabel == IF "XRL_PROP" \in DOMAIN IOEnv THEN IOEnv.XRL_PROP ELSE "C08"
ImplLabel == IF "XRL_IMPL" \in DOMAIN IOEnv THEN IOEnv.XRL_IMPL ELSE "C"
AtOf(ev, m) == CHOOSE j \in 1..Len(ev.at) : m \in AtComplaints(ev, ev.at[j]) \cup LineComplaints(ev, ev.at[j])
BadOf(i, ev) == IF ev.k = "kxrf" THEN { [prop |-> PropLabel, impl |-> ImplLabel, line |-> i, Z |-> ev.Z, E |-> FStr(ev.at[AtOf(ev, m)].E), why |-> m] : m \in Complaints(ev) }
                ELSE {[prop |-> PropLabel, impl |-> ImplLabel, line |-> i, why |-> "unexpected event"]}
Judged == JudgedWith(BadOf)
Static == c = 0 => (AugerStructureOK \/ PrintT("MISMATCH " \o ToJson([prop |-> PropLabel, impl |-> ImplLabel, layer |-> "spec", why |-> "Auger macro family malformed"])))
============================================================================
