----------------------------- MODULE Trace_C09 -----------------------------
EXTENDS XrlXRFJump, XrlChunks
\* the same module judges events of the C library (check C09) and of the Java implementation (check C19, second binding)
PropLabel == IF "XRL_PROP" \in DOMAIN IOEnv THEN IOEnv.XRL_PROP ELSE "C09"
ImplLabel == IF "XRL_IMPL" \in DOMAIN IOEnv THEN IOEnv.XRL_IMPL ELSE "C"
Show(w) == IF w.ok THEN FStr(w.v) ELSE "error"
AtBad(i, ev, at) ==
  { [prop |-> PropLabel, impl |-> ImplLabel, line |-> i, fn |-> "CS_FluorShell", Z |-> ev.Z, m |-> s, E |-> FStr(at.E), got |-> [ok |-> RowOk(at.shell, s), v |-> FStr(RowVal(at.shell, s))], want |-> {Show(ShellWant(ev, at, s))}] :
    s \in { s \in at.shell.lo..at.shell.hi : ~Agree9(ShellWant(ev, at, s), RowOk(at.shell, s), RowVal(at.shell, s)) } }
  \cup { [prop |-> PropLabel, impl |-> ImplLabel, line |-> i, fn |-> "CSb_FluorShell", Z |-> ev.Z, m |-> s, E |-> FStr(at.E), got |-> [ok |-> RowOk(at.shellb, s), v |-> FStr(RowVal(at.shellb, s))]] :
         s \in { s \in at.shell.lo..at.shell.hi : ~Agree9(Barn(ev, IF RowOk(at.shell, s) THEN Val_(RowVal(at.shell, s)) ELSE Fail), RowOk(at.shellb, s), RowVal(at.shellb, s)) } }
  \cup { [prop |-> PropLabel, impl |-> ImplLabel, line |-> i, fn |-> "CS_FluorLine", Z |-> ev.Z, m |-> m, E |-> FStr(at.E), got |-> [ok |-> RowOk(at.line, m), v |-> FStr(RowVal(at.line, m))], want |-> { Show(w) : w \in LineWant(ev, at, m) }] :
         m \in { m \in at.line.lo..at.line.hi : ~\E w \in LineWant(ev, at, m) : Agree9(w, RowOk(at.line, m), RowVal(at.line, m)) } }
  \cup { [prop |-> PropLabel, impl |-> ImplLabel, line |-> i, fn |-> "CSb_FluorLine", Z |-> ev.Z, m |-> m, E |-> FStr(at.E), got |-> [ok |-> RowOk(at.lineb, m), v |-> FStr(RowVal(at.lineb, m))]] :
         m \in { m \in at.line.lo..at.line.hi : ~Agree9(Barn(ev, IF RowOk(at.line, m) THEN Val_(RowVal(at.line, m)) ELSE Fail), RowOk(at.lineb, m), RowVal(at.lineb, m)) } }
\* "the call fails" also for a caller without an error slot: same bits as with one (the 0 sentinel below the edge)
NoSlot(i, ev, at) == { [prop |-> PropLabel, impl |-> ImplLabel, line |-> i, fn |-> r[1], Z |-> ev.Z, E |-> FStr(at.E), why |-> "called without an error slot the function returned something else than with one", cells |-> r[2].nd, first_macro |-> r[2].ndm] :
                       r \in { r \in {<<"CS_FluorShell", at.shell>>, <<"CSb_FluorShell", at.shellb>>, <<"CS_FluorLine", at.line>>, <<"CSb_FluorLine", at.lineb>>} : r[2].nd # 0 } }
BadOf(i, ev) == IF ev.k = "xrf" THEN UNION { AtBad(i, ev, ev.at[j]) \cup NoSlot(i, ev, ev.at[j]) : j \in 1..Len(ev.at) } ELSE {[prop |-> PropLabel, impl |-> ImplLabel, line |-> i, why |-> "unexpected event"]}
Judged == JudgedWith(BadOf)
============================================================================
