SPECIFICATION Spec
PROPERTY TablesNeverChange
PROPERTY BuiltinOnlyByInsertion
PROPERTY ErrorsStable
CHECK_DEADLOCK FALSE
