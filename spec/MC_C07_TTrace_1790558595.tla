---- MODULE MC_C07_TTrace_1790558595 ----
EXTENDS MC_C07, Sequences, TLCExt, Toolbox, Naturals, TLC

_expression ==
    LET MC_C07_TEExpression == INSTANCE MC_C07_TEExpression
    IN MC_C07_TEExpression!expression
----

_trace ==
    LET MC_C07_TETrace == INSTANCE MC_C07_TETrace
    IN MC_C07_TETrace!trace
----

_inv ==
    ~(
        TLCGet("level") = Len(_TETrace)
        /\
        s = (<<72, 46, 50, 50>>)
    )
----

_init ==
    /\ s = _TETrace[1].s
----

_next ==
    /\ \E i,j \in DOMAIN _TETrace:
        /\ \/ /\ j = i + 1
              /\ i = TLCGet("level")
        /\ s  = _TETrace[i].s
        /\ s' = _TETrace[j].s

\* Uncomment the ASSUME below to write the states of the error trace
\* to the given file in Json format. Note that you can pass any tuple
\* to `JsonSerialize`. For example, a sub-sequence of _TETrace.
    \* ASSUME
    \*     LET J == INSTANCE Json
    \*         IN J!JsonSerialize("MC_C07_TTrace_1790558595.json", _TETrace)

=============================================================================

 Note that you can extract this module `MC_C07_TEExpression`
  to a dedicated file to reuse `expression` (the module in the 
  dedicated `MC_C07_TEExpression.tla` file takes precedence 
  over the module `MC_C07_TEExpression` below).

---- MODULE MC_C07_TEExpression ----
EXTENDS MC_C07, Sequences, TLCExt, Toolbox, Naturals, TLC

expression == 
    [
        \* To hide variables of the `MC_C07` spec from the error trace,
        \* remove the variables below.  The trace will be written in the order
        \* of the fields of this record.
        s |-> s
        
        \* Put additional constant-, state-, and action-level expressions here:
        \* ,_stateNumber |-> _TEPosition
        \* ,_sUnchanged |-> s = s'
        
        \* Format the `s` variable as Json value.
        \* ,_sJson |->
        \*     LET J == INSTANCE Json
        \*     IN J!ToJson(s)
        
        \* Lastly, you may build expressions over arbitrary sets of states by
        \* leveraging the _TETrace operator.  For example, this is how to
        \* count the number of times a spec variable changed up to the current
        \* state in the trace.
        \* ,_sModCount |->
        \*     LET F[s \in DOMAIN _TETrace] ==
        \*         IF s = 1 THEN 0
        \*         ELSE IF _TETrace[s].s # _TETrace[s-1].s
        \*             THEN 1 + F[s-1] ELSE F[s-1]
        \*     IN F[_TEPosition - 1]
    ]

=============================================================================



Parsing and semantic processing can take forever if the trace below is long.
 In this case, it is advised to uncomment the module below to deserialize the
 trace from a generated binary file.

\*
\*---- MODULE MC_C07_TETrace ----
\*EXTENDS MC_C07, IOUtils, TLC
\*
\*trace == IODeserialize("MC_C07_TTrace_1790558595.bin", TRUE)
\*
\*=============================================================================
\*

---- MODULE MC_C07_TETrace ----
EXTENDS MC_C07, TLC

trace == 
    <<
    ([s |-> <<0>>]),
    ([s |-> <<72, 46, 50, 50>>])
    >>
----


=============================================================================

---- CONFIG MC_C07_TTrace_1790558595 ----
CONSTANTS
    MaxLen = 4

INVARIANT
    _inv

CHECK_DEADLOCK
    \* CHECK_DEADLOCK off because of PROPERTY or INVARIANT above.
    FALSE

INIT
    _init

NEXT
    _next

CONSTANT
    _TETrace <- _trace

ALIAS
    _expression
=============================================================================
\* Generated on Mon Sep 28 01:23:17 UTC 2026