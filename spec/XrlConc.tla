------------------------------- MODULE XrlConc -------------------------------
(***************************************************************************)
(* C17.  Threads execute public calls; a call is the sequence of its steps *)
(* that touch SHARED state:                                                *)
(*   tables  (read by every query; never written)                          *)
(*   builtin (read by crystal lookups; written only by AddBuiltin)         *)
(*   locale  (process-global; the formula parser saves it, sets "C",       *)
(*            converts numbers, restores it)                               *)
(*   heap    (allocator calls are atomic; every thread owns its objects    *)
(*            and its error slot)                                          *)
(* Properties:                                                             *)
(*   NoConflict     no two threads have pending steps on one shared        *)
(*                  variable of which one is a write that changes it       *)
(*   SerialResults  every finished call returned what it returns alone     *)
(* The thread-safe menu must satisfy both; adding AddBuiltin (the          *)
(* documented exception) must violate NoConflict; starting in a non-C      *)
(* locale exhibits the lost-restore interleaving of the parser.            *)
(***************************************************************************)
EXTENDS Integers, Sequences, FiniteSets, TLC
CONSTANTS Threads, Menu, InitLocale, CallsPerThread
VARIABLES pc, prog, locale, builtin, saved, result, done
vars == <<pc, prog, locale, builtin, saved, result, done>>
\* steps of each call kind: <<variable, access>>; "own" = thread-private state (error slot, heap objects)
Steps(call) ==
  CASE call = "Query"      -> << <<"tables", "r">> >>
    [] call = "ErrQuery"   -> << <<"tables", "r">>, <<"own", "w">> >>                      \* failing call: allocates an error in the thread's slot
    [] call = "Lookup"     -> << <<"builtin", "r">>, <<"own", "w">> >>                     \* Crystal_GetCrystal: search + private copy
    [] call = "Catalog"    -> << <<"tables", "r">>, <<"own", "w">> >>                      \* NIST / nuclide / symbol lookups copy from constant tables
    [] call = "Parse"      -> << <<"locale", "save">>, <<"locale", "setC">>, <<"locale", "strtod">>, <<"locale", "restore">>, <<"own", "w">> >>
    [] call = "CPQuery"    -> << <<"locale", "save">>, <<"locale", "setC">>, <<"locale", "strtod">>, <<"locale", "restore">>, <<"tables", "r">>, <<"own", "w">> >>
    [] call = "AddBuiltin" -> << <<"builtin", "r">>, <<"builtin", "w">> >>
Programs == [1..CallsPerThread -> Menu]
Init == /\ prog \in [Threads -> Programs]
        /\ pc = [t \in Threads |-> <<1, 1>>]           \* <<call index, step index>>
        /\ locale = InitLocale /\ builtin = 0
        /\ saved = [t \in Threads |-> "none"]
        /\ result = [t \in Threads |-> "ok"]
        /\ done = [t \in Threads |-> <<>>]
Finished(t) == pc[t][1] > CallsPerThread
CurCall(t) == prog[t][pc[t][1]]
CurStep(t) == Steps(CurCall(t))[pc[t][2]]
\* does the pending step of t write a shared variable to a different value?
ChangingWrite(t) == LET s == CurStep(t) IN
                    \/ s = <<"builtin", "w">>
                    \/ s = <<"locale", "setC">> /\ locale # "C"
                    \/ s = <<"locale", "restore">> /\ saved[t] # locale
Touches(t, v) == ~Finished(t) /\ CurStep(t)[1] = v
NoConflict == \A t1, t2 \in Threads : t1 # t2 => \A v \in {"tables", "builtin", "locale"} :
                ~(Touches(t1, v) /\ Touches(t2, v) /\ (ChangingWrite(t1) \/ ChangingWrite(t2)))
Step(t) ==
  /\ ~Finished(t)
  /\ LET s == CurStep(t) last == pc[t][2] = Len(Steps(CurCall(t))) IN
     /\ locale' = IF s = <<"locale", "setC">> THEN "C" ELSE IF s = <<"locale", "restore">> THEN saved[t] ELSE locale
     /\ saved' = IF s = <<"locale", "save">> THEN [saved EXCEPT ![t] = locale] ELSE saved
     /\ builtin' = IF s = <<"builtin", "w">> THEN builtin + 1 ELSE builtin
     \* a number is converted correctly only while the numeric locale is "C"
     /\ result' = IF s = <<"locale", "strtod">> /\ locale # "C" THEN [result EXCEPT ![t] = "wrong"] ELSE result
     /\ IF last THEN pc' = [pc EXCEPT ![t] = <<pc[t][1] + 1, 1>>] /\ done' = [done EXCEPT ![t] = Append(done[t], result'[t])]
        ELSE pc' = [pc EXCEPT ![t] = <<pc[t][1], pc[t][2] + 1>>] /\ done' = done
     /\ prog' = prog
Next == \E t \in Threads : Step(t)
Spec == Init /\ [][Next]_vars
SerialResults == \A t \in Threads : \A i \in 1..Len(done[t]) : done[t][i] = "ok"
\* the process-global locale is left as it was found once every thread has finished
LocaleRestored == (\A t \in Threads : Finished(t)) => locale = InitLocale
==============================================================================
