----------------------------- MODULE XrlStrings -----------------------------
(* byte-wise (strcmp) order on printable ASCII strings, which TLC does not provide *)
EXTENDS Integers, Sequences
Ascii == " !\"#$%&'()*+,-./0123456789:;<=>?@ABCDEFGHIJKLMNOPQRSTUVWXYZ[\\]^_`abcdefghijklmnopqrstuvwxyz{|}~"
CharRank == [i \in 1..Len(Ascii) |-> SubSeq(Ascii, i, i)]
RankOf(ch) == IF \E i \in 1..Len(Ascii) : CharRank[i] = ch THEN CHOOSE i \in 1..Len(Ascii) : CharRank[i] = ch ELSE 0
RECURSIVE StrLtFrom(_, _, _)
StrLtFrom(a, b, i) ==
  IF i > Len(b) THEN FALSE
  ELSE IF i > Len(a) THEN TRUE
  ELSE LET x == RankOf(SubSeq(a, i, i)) y == RankOf(SubSeq(b, i, i))
       IN IF x < y THEN TRUE ELSE IF x > y THEN FALSE ELSE StrLtFrom(a, b, i + 1)
StrLt(a, b) == StrLtFrom(a, b, 1)
StrictlySorted(seq) == \A i \in 1..(Len(seq) - 1) : StrLt(seq[i], seq[i + 1])
=============================================================================
