---------------------------- MODULE XrlXRFKissel ----------------------------
(***************************************************************************)
(* C08.  Kissel XRF cross sections = fluorescence yield x vacancy          *)
(* production; vacancy production of shell X under variant v:              *)
(*   P_X = sigma_X                         (partial photo-ionisation)      *)
(*       + sum_{Y < X, same shell} f_YX P_Y       (Coster-Kronig feeding)  *)
(*       + [v in rad, full]   sum_S omega_S RR(S -> X) P_S                 *)
(*       + [v in auger, full] sum_S a_S (sum_{t: init t = S} holes(t, X)   *)
(*                                        AugerRate(t)) P_S                *)
(* S ranges over the excited inner shells (K for L targets; K, L1..L3 for  *)
(* M targets).  holes(t, X) in {0,1,2} is computed from the NAME of the    *)
(* Auger macro.  Everything is judged STEPWISE: each P_X is recomputed     *)
(* from the primitives and from the inner P values the library produced.   *)
(***************************************************************************)
EXTENDS XrlAuger, XrlLines
NA == F(DecMacro.AVOGNUM)
POk(p) == p[1] = 1
PV(p) == IF p[1] = 1 THEN p[2] ELSE Zero
Shells9 == <<"K", "L1", "L2", "L3", "M1", "M2", "M3", "M4", "M5">>
Idx(name) == CHOOSE i \in 1..9 : Shells9[i] = name
KRowV(row, m) == IF m >= row.lo /\ m <= row.hi /\ row.ok[m - row.lo + 1] = 1 THEN row.v[m - row.lo + 1] ELSE Zero
KRowOk(row, m) == m >= row.lo /\ m <= row.hi /\ row.ok[m - row.lo + 1] = 1
\* inner shells that feed target X by transitions
Inner(i) == IF i = 1 THEN {} ELSE IF i <= 4 THEN {1} ELSE {1, 2, 3, 4}
\* sub-shells of the same principal shell above X (Coster-Kronig sources)
SameShellAbove(i) == IF i \in {3, 4} THEN 2..(i - 1) ELSE IF i >= 6 THEN 5..(i - 1) ELSE {}
\* Coster-Kronig probability Y -> X as a sum over the transition macros with that source and target (FL13 and FLP13 both lead L1 -> L3)
TransTarget(mac) == LET s == TransStem(mac) IN SubSeq(s, 2, 2) \o SubSeq(s, Len(s), Len(s))
CKProb(ev, y, x) == LET ms == SetToSeq({ n \in DOMAIN TransMacro : TransSource(n) = Shells9[y] /\ TransTarget(n) = Shells9[x] })
                    IN FSum([k \in 1..Len(ms) |-> KRowV(ev.ck, TransMacro[ms[k]])])
\* radiative transfer S -> X: yield(S) * rate of the line named S-stem X-stem
RadTransfer(ev, s, x) == LET ln == Shells9[s] \o Shells9[x] \o "_LINE" IN
                         IF ln \in DOMAIN LineMacro THEN FMul(PV(ev.yield[s]), KRowV(ev.RR, LineMacro[ln])) ELSE Zero
\* Auger transfer S -> X: AugerYield(S) * sum over transitions starting in S of (number of final holes in X) * rate
Holes(v, xname) == (IF AugerInfo[v].holes[1] = xname THEN 1 ELSE 0) + (IF AugerInfo[v].holes[2] = xname THEN 1 ELSE 0)
AugerTerms == [s \in 1..4 |-> [x \in 1..9 |-> SetToSeq({ v \in AugerValues : AugerInfo[v].init = Shells9[s] /\ Holes(v, Shells9[x]) > 0 })]]
AugerTransfer(ev, s, x) == LET ts == AugerTerms[s][x] IN
                           FMul(PV(ev.ay[s]), FSum([k \in 1..Len(ts) |-> FMul(FI(Holes(ts[k], Shells9[x])), KRowV(ev.AR, ts[k]))]))
\* expected vacancy production of shell index i under variant v, given the inner productions P (sequence of [ok, v] as the library produced them)
KWant(ev, at, v, i, P) ==
  IF ~POk(at.sig[i]) THEN [ok |-> FALSE]
  ELSE LET ck == FSum([y \in 1..9 |-> IF y \in SameShellAbove(i) /\ FPos(PV(P[y])) THEN FMul(CKProb(ev, y, i), PV(P[y])) ELSE Zero])
           rad == IF v \in {"rad", "full"} THEN FSum([s \in 1..4 |-> IF s \in Inner(i) /\ FPos(PV(P[s])) THEN FMul(RadTransfer(ev, s, i), PV(P[s])) ELSE Zero]) ELSE Zero
           aug == IF v \in {"auger", "full"} THEN FSum([s \in 1..4 |-> IF s \in Inner(i) /\ FPos(PV(P[s])) THEN FMul(AugerTransfer(ev, s, i), PV(P[s])) ELSE Zero]) ELSE Zero
       IN [ok |-> TRUE, v |-> FAdd(FAdd(FAdd(PV(at.sig[i]), ck), rad), aug)]
\* tolerance: the transfer constants are computed at build time and rounded to 11 digits
KClose(a, b, scale) == FClose(a, b, F("2e-10"), FMul(F("1e-10"), scale))
KAgree(w, p) == IF w.ok THEN POk(p) /\ KClose(p[2], w.v, w.v) ELSE ~POk(p)
\* which public function computes which variant
VariantOf(fn) == CASE fn \in {"plain", "full", "b_plain", "b_full"} -> "full" [] fn \in {"auger", "b_auger"} -> "auger" [] fn \in {"rad", "b_rad"} -> "rad" [] fn \in {"none", "b_none"} -> "pure"
IsBarn(fn) == SubSeq(fn, 1, 2) = "b_"
chk(c, msg) == IF c THEN {} ELSE {msg}
\* line -> shell index by NAME (K.., L1.., ..., M5..); group macros: KA, KB -> K; LA -> L3
LineShellIdx(n) == LET st == Stem(n) IN
                   IF SubSeq(st, 1, 1) = "K" THEN 1
                   ELSE IF Len(st) >= 2 /\ \E i \in 2..9 : Shells9[i] = SubSeq(st, 1, 2) THEN Idx(SubSeq(st, 1, 2)) ELSE 0
AtComplaints(ev, at) ==
  \* 1. every helper step of every variant
  UNION { UNION { chk(KAgree(KWant(ev, at, v, i, at.P[v]), at.P[v][i]), "P(" \o Shells9[i] \o ", " \o v \o ") differs from the cascade recursion") : i \in 1..9 } : v \in {"pure", "rad", "auger", "full"} }
  \* 2. shell cross section = yield x vacancy production; barn twin; out-of-range shells fail
  \cup UNION { UNION { LET p == at.P[VariantOf(fn)][i] r == at.sh[fn][i + 1]
                           w == IF POk(p) /\ POk(ev.yield[i]) /\ FPos(at.E) THEN [ok |-> TRUE, v |-> IF IsBarn(fn) THEN FDiv(FMul(FMul(PV(ev.yield[i]), PV(p)), PV(ev.aw)), NA) ELSE FMul(PV(ev.yield[i]), PV(p))] ELSE [ok |-> FALSE]
                       IN chk(KAgree(w, r), fn \o " shell " \o Shells9[i] \o ": differs from yield x vacancy production")
                     : i \in 1..9 } \cup chk(~POk(at.sh[fn][1]) /\ ~POk(at.sh[fn][11]) /\ ~POk(at.sh[fn][12]), fn \o ": shell outside K..M5 accepted")
             : fn \in DOMAIN at.sh }
  \* 3. orderings and the K shell
  \cup chk(\A i \in 1..9 : POk(at.P["pure"][i]) => FLe(PV(at.P["pure"][i]), FMul(PV(at.P["rad"][i]), F("1.0000000001"))) /\ FLe(PV(at.P["auger"][i]), FMul(PV(at.P["full"][i]), F("1.0000000001")))
                                                /\ FLe(PV(at.P["rad"][i]), FMul(PV(at.P["full"][i]), F("1.0000000001"))), "ordering none <= radiative <= full, non-radiative <= full violated")
  \cup chk(\A fn \in DOMAIN at.sh : at.sh[fn][2] = at.sh[IF IsBarn(fn) THEN "b_none" ELSE "none"][2], "K shell: the variants do not coincide")
  \cup chk(\A i \in 1..12 : at.sh["plain"][i] = at.sh["full"][i] /\ at.sh["b_plain"][i] = at.sh["b_full"][i], "the un-suffixed function differs from the full-cascade one")
\* 4. lines (where logged): line = shell(line) x rate; groups; L-beta = sum of its members
LineComplaints(ev, at) ==
  IF at.haslines = 0 THEN {}
  ELSE UNION { LET row == at["ln_" \o fn] shrow == at.sh[fn] IN
               { fn \o " line " \o ToString(m) \o ": differs from shell x radiative rate (or did not fail)" :
                 m \in { m \in row.lo..row.hi :
                           LET want == IF m = 3 THEN [skip |-> TRUE]
                                       ELSE IF m \in LineValues \cup {0, 1, 2} THEN
                                              (LET si == IF m \in {0, 1} THEN 1 ELSE IF m = 2 THEN 4 ELSE LineShellIdx(LineNameOf[m]) IN
                                               IF si = 0 \/ ~KRowOk(ev.RR, m) \/ ~POk(shrow[si + 1]) THEN [skip |-> FALSE, ok |-> FALSE]
                                               ELSE [skip |-> FALSE, ok |-> TRUE, v |-> FMul(KRowV(ev.RR, m), PV(shrow[si + 1]))])
                                       ELSE [skip |-> FALSE, ok |-> FALSE]
                           IN ~want.skip /\ ~(IF want.ok THEN KRowOk(row, m) /\ FClose(KRowV(row, m), want.v, F("1e-12"), Zero) ELSE ~KRowOk(row, m)) } }
               \cup (LET sums == { LET s == SetToSeq(M) IN FSum([k \in 1..Len(s) |-> KRowV(row, LineMacro[s[k]])]) : M \in {LBMembers11, LBMembers13} } IN
                     IF \E x \in sums : FPos(x) THEN chk(KRowOk(row, 3) /\ \E x \in sums : FClose(KRowV(row, 3), x, F("1e-12"), Zero), fn \o " L-beta: differs from the sum over its member lines")
                     ELSE chk(~KRowOk(row, 3), fn \o " L-beta: no member line defined but no error"))
             : fn \in DOMAIN at.sh }
Complaints(ev) == UNION { AtComplaints(ev, ev.at[j]) \cup LineComplaints(ev, ev.at[j]) : j \in 1..Len(ev.at) }
=============================================================================
