----------------------------- MODULE XrlNames -----------------------------
(***************************************************************************)
(* Naming rules: how a header macro designates a record of a data file.    *)
(* Written from the documentation of the macro families (IUPAC names),     *)
(* NOT from the name tables of xrayvars.c -- those are the mechanism that  *)
(* is checked against these rules (MC_C01) and, through the traces, the    *)
(* library itself.                                                         *)
(***************************************************************************)
EXTENDS XrlFacts
StripSuffix(s, n) == SubSeq(s, 1, Len(s) - n)
HasPrefix(s, p) == Len(s) >= Len(p) /\ SubSeq(s, 1, Len(p)) = p

\* L1_SHELL designates the records named "L1"
ShellDataName(mac) == StripSuffix(mac, 6)
\* KL3_LINE designates the records named "KL3"
LineDataName(mac) == StripSuffix(mac, 5)
\* FL12_TRANS -> "F12", FLP13_TRANS -> "FP13", FM12_TRANS -> "FM12"
TransDataName(mac) == LET s == StripSuffix(mac, 6) IN
                      IF HasPrefix(s, "FL") THEN "F" \o SubSeq(s, 3, Len(s)) ELSE s
\* K_L1L1_AUGER -> "K-L1L1"
AugerDataName(mac) == LET s == StripSuffix(mac, 6)
                          u == CHOOSE i \in 1..Len(s) : SubSeq(s, i, i) = "_"
                      IN SubSeq(s, 1, u - 1) \o "-" \o SubSeq(s, u + 1, Len(s))

\* the IUPAC (non-alias) line macros; Siegbahn aliases are #defined as another macro
CanonLineNames == { n \in DOMAIN LineMacro : n \notin DOMAIN AliasMacro }
GroupLineNames == {"KA_LINE", "KB_LINE", "LA_LINE", "LB_LINE"}
SingleLineNames == CanonLineNames \ GroupLineNames
SiegbahnAliases == { n \in DOMAIN LineMacro : n \in DOMAIN AliasMacro }

\* value -> canonical macro name (functions, evaluated once)
ShellValues == { ShellMacro[n] : n \in DOMAIN ShellMacro }
LineValues  == { LineMacro[n] : n \in SingleLineNames }
TransValues == { TransMacro[n] : n \in DOMAIN TransMacro }
ShellNameOf == [v \in ShellValues |-> CHOOSE n \in DOMAIN ShellMacro : ShellMacro[n] = v]
LineNameOf  == [v \in LineValues  |-> CHOOSE n \in SingleLineNames : LineMacro[n] = v]
TransNameOf == [v \in TransValues |-> CHOOSE n \in DOMAIN TransMacro : TransMacro[n] = v]

\* the doublets "XYab" whose members are XYa and XYb, and the KO / KP groups: their *energies* are C10's business
DoubletNames == {"L1N67_LINE", "L1O45_LINE", "L1P23_LINE", "L2P23_LINE", "L3O45_LINE", "L3P23_LINE", "L3P45_LINE"}
KOKPNames == {"KO_LINE", "KP_LINE"}

\* well-formedness of the macro families themselves (checked by MC_C01)
MacroFamiliesOK ==
  /\ \A a, b \in DOMAIN ShellMacro : ShellMacro[a] = ShellMacro[b] => a = b
  /\ \A a, b \in SingleLineNames : LineMacro[a] = LineMacro[b] => a = b
  /\ \A a, b \in DOMAIN TransMacro : TransMacro[a] = TransMacro[b] => a = b
  /\ ShellValues = 0..(Cardinality(DOMAIN ShellMacro) - 1)
  /\ LineValues = (0 - Cardinality(SingleLineNames))..(0 - 1)
  /\ TransValues = 1..Cardinality(DOMAIN TransMacro)
  /\ \A n \in SiegbahnAliases : AliasMacro[n] \in SingleLineNames /\ LineMacro[n] = LineMacro[AliasMacro[n]]
  /\ DoubletNames \cup KOKPNames \subseteq SingleLineNames
  /\ \A n \in GroupLineNames : n \in DOMAIN LineMacro
===========================================================================
