------------------------------ MODULE MC_C07 ------------------------------
(***************************************************************************)
(* C07, specification side: the reference parser itself is checked on ALL  *)
(* strings up to MaxLen over a small alphabet -- it guards the oracle:      *)
(*   accepted  =>  positive counts of known elements;                      *)
(*   concatenation of accepted formulas = sum of compositions (hence       *)
(*   invariance under reordering of terms);                                *)
(*   "(" s ")" k  =  k times the composition of s.                         *)
(***************************************************************************)
EXTENDS Integers, Sequences, FiniteSets, FP, TLC
CONSTANT MaxLen
VARIABLE s
MCSymbolZ == [x \in {"H", "O", "He"} |-> IF x = "H" THEN 1 ELSE IF x = "O" THEN 8 ELSE 2]
P == INSTANCE XrlParser WITH SymbolZ <- MCSymbolZ
Alphabet == {72, 79, 101, 40, 41, 50, 48, 46}        \* H O e ( ) 2 0 .
Strings(n) == UNION { [1..k -> Alphabet] : k \in 0..n }
Init == s = <<0>>
Next == s = <<0>> /\ \E t \in Strings(MaxLen) : s' = t
Accepted(t) == P!Parse(t).ok
\* compositions are compared up to rounding: floating-point addition is not associative
SameMap(a, b) == DOMAIN a = DOMAIN b /\ \A z \in DOMAIN a : FUlps(a[z], b[z]) <= 8
Shorts == { t \in Strings(2) : Accepted(t) }
OracleOK == s # <<0>> =>
  LET r == P!Parse(s) IN
  /\ (r.ok => DOMAIN r.m \subseteq {1, 2, 8} /\ \A z \in DOMAIN r.m : FPos(r.m[z]))
  /\ (~r.ok => r.why \in {"byte", "paren", "symbol", "zero", "number", "empty", "undecided"})
  /\ (r.ok => \A t \in Shorts :
        LET st == P!Parse(s \o t) ts == P!Parse(t \o s) IN
        st.ok /\ ts.ok /\ SameMap(st.m, P!MAdd(r.m, P!Parse(t).m)) /\ SameMap(ts.m, st.m))
  /\ (r.ok => LET g == P!Parse(<<40>> \o s \o <<41, 50>>) IN g.ok /\ SameMap(g.m, P!MScale(r.m, Two)))
  /\ (r.ok => LET g == P!Parse(<<40>> \o s \o <<41>>) IN g.ok /\ g.m = r.m)
===========================================================================
