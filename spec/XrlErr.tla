------------------------------- MODULE XrlErr -------------------------------
(***************************************************************************)
(* C03.  (1) The error-slot protocol as a state machine: slots and error   *)
(* objects, SetError / Propagate / Clear / Copy / Free, "an error is never *)
(* stored over an existing one".  (2) The outcome rule of every public     *)
(* call, judged on folded observation classes.                             *)
(***************************************************************************)
EXTENDS XrlAPI, Integers, TLC

\* ---------------------------------------------------------------- (1) slot algebra
\* st = [slot : SlotId -> NoErr | [code, msg], loc : LocId -> NoErr | [code, msg], over : Nat]
\* slots are `xrl_error **` the caller passes; locals are `xrl_error *` the caller holds (results of new / copy)
NoErr == [none |-> TRUE]
IsErr(x) == x # NoErr
E(code, msg) == [code |-> code, msg |-> msg]
\* ops: Set(slot, code, msg)  New(loc, code, msg)  Propagate(slot, loc)  PropagateNull(loc)  Clear(slot)  Copy(slot -> loc)
\*      CopyLoc(loc -> loc2)  Free(loc)  SetNull(code,msg)  (a call with no slot)  Matches(slot, code)
ErrStep(st, op) ==
  CASE op.op = "Set" -> IF IsErr(st.slot[op.s]) THEN [st EXCEPT !.over = @ + 1]                  \* first error wins; the attempt is the violation C03 counts
                        ELSE [st EXCEPT !.slot[op.s] = E(op.code, op.msg)]
    [] op.op = "SetNull" -> st
    [] op.op = "New" -> [st EXCEPT !.loc[op.l] = E(op.code, op.msg)]
    [] op.op = "Propagate" -> IF IsErr(st.slot[op.s]) THEN [st EXCEPT !.over = @ + 1, !.loc[op.l] = NoErr]      \* src released, dest kept
                              ELSE [st EXCEPT !.slot[op.s] = st.loc[op.l], !.loc[op.l] = NoErr]                \* ownership moves
    [] op.op = "PropagateNull" -> [st EXCEPT !.loc[op.l] = NoErr]
    [] op.op = "Clear" -> [st EXCEPT !.slot[op.s] = NoErr]
    [] op.op = "Copy" -> [st EXCEPT !.loc[op.l] = st.slot[op.s]]
    [] op.op = "CopyLoc" -> [st EXCEPT !.loc[op.l2] = st.loc[op.l]]
    [] op.op = "Free" -> [st EXCEPT !.loc[op.l] = NoErr]
    [] op.op = "Matches" -> st
ErrLegal(st, op) ==
  CASE op.op = "New" -> ~IsErr(st.loc[op.l])
    [] op.op \in {"Propagate", "PropagateNull"} -> IsErr(st.loc[op.l])        \* src must be an error (the library only prints a diagnostic otherwise)
    [] op.op = "Copy" -> ~IsErr(st.loc[op.l])
    [] op.op = "CopyLoc" -> ~IsErr(st.loc[op.l2]) /\ op.l # op.l2
    [] op.op = "Free" -> TRUE                                                 \* freeing NULL is allowed
    [] OTHER -> TRUE
\* result of the operation where it has one
ErrResult(st, op) == IF op.op = "Matches" THEN (IF IsErr(st.slot[op.s]) /\ st.slot[op.s].code = op.code THEN 1 ELSE 0) ELSE 0
\* number of error objects alive (each owns 2 heap blocks: struct + message)
LiveErrs(st) == Cardinality({ s \in DOMAIN st.slot : IsErr(st.slot[s]) }) + Cardinality({ l \in DOMAIN st.loc : IsErr(st.loc[l]) })

\* ---------------------------------------------------------------- (2) outcome rule on observation classes
FiniteDouble == {"neg", "zero", "pos"}
Sentinel(kind) == CASE kind = "double" -> "zero" [] kind = "ptr" -> "null" [] kind = "int" -> "zero" [] kind = "complex" -> "zero" [] kind = "status" -> "fail-zeroed"
SuccessOK(fn, kind, ret) ==
  \* a function the table does not classify (added after the table was written) is held to what the statement demands of every function
  LET k == IF fn \in Classified THEN KindOf(fn)
           ELSE CASE kind = "double" -> "S" [] kind = "ptr" -> "O" [] kind = "complex" -> "C" [] kind \in {"int", "status"} -> "I" [] OTHER -> "S" IN
  \* the statement demands: finite, and a strictly positive quantity never 0 without an error (it does not speak about signs)
  CASE kind = "double" -> (k = "P" /\ ret \in {"pos", "neg"}) \/ (k \in {"N", "S"} /\ ret \in FiniteDouble)
    [] kind = "ptr" -> k = "O" /\ ret = "ptr"
    [] kind = "int" -> k = "I" /\ ret = "pos"
    [] kind = "status" -> k = "I" /\ ret = "ok-finite"
    [] kind = "complex" -> k = "C" /\ ret \in {"zero", "nonzero"}
    [] kind = "obj" -> ret = "finite"
    [] kind = "plain" -> ret \in {"neg", "zero", "pos", "finite"}
ClassWhy(ev) ==
  IF ev.over # 0 THEN "an error was stored over an existing one"
  ELSE IF ev.same # 1 THEN "the call without an error slot returned something else"
  ELSE IF "keep" \in DOMAIN ev /\ ev.keep # 1 THEN "called with a slot that already held an error, the call replaced, freed or changed the caller's error"
  ELSE IF "rep" \in DOMAIN ev /\ ev.rep # 1 THEN "the same call repeated immediately gave a different outcome (value, error, code or message)"
  ELSE IF ev.slot = "empty" \/ ev.slot = "none" THEN
         (IF SuccessOK(ev.fn, ev.kind, ev.ret) THEN "" ELSE "no error reported but the result is " \o ev.ret \o " (kind " \o KindOf(ev.fn) \o ")")
  ELSE IF ~(ev.code >= 0 /\ ev.code <= 5) THEN "error code outside the enumeration"
  ELSE IF ev.msg # 1 THEN "error without a message"
  ELSE IF ev.ret # Sentinel(ev.kind) THEN "error reported but the result is not the sentinel: " \o ev.ret
  ELSE ""
=============================================================================
