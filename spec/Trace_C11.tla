----------------------------- MODULE Trace_C11 -----------------------------
EXTENDS XrlAuger, XrlChunks
AugerDir == IOEnv.XRL_FACTS \o "/auger/"
AugerIndex == JsonDeserialize(AugerDir \o "index.json")
TraceZs == { Tr[i].Z : i \in 1..Len(Tr) }
RawOf == [z \in TraceZs |-> IF \E j \in 1..Len(AugerIndex) : AugerIndex[j] = z
                            THEN JsonDeserialize(AugerDir \o "Z" \o ToString(z) \o ".json") ELSE << >>]
EmptyRaw == [x \in {} |-> <<>>]
BadOf(i, ev) ==
  LET Z == ev.Z
      raw == IF RawOf[Z] = << >> THEN EmptyRaw ELSE RawOf[Z]
      dens == [s \in AugerShells |-> Denominator(raw, s)]
      inZ == Z >= 1 /\ Z <= ZMAX
  IN { [prop |-> "C11", line |-> i, fn |-> "AugerYield", Z |-> Z, m |-> s,
        got |-> [ok |-> RowOk(ev.yield, s), v |-> FStr(RowVal(ev.yield, s))], want |-> YieldWant(Z, s, ev.fy, ev.ck)] :
       s \in { s \in ev.yield.lo..ev.yield.hi : ~YieldAccept(Z, s, ev.fy, ev.ck, RowOk(ev.yield, s), RowVal(ev.yield, s)) } }
     \cup
     { [prop |-> "C11", line |-> i, fn |-> "AugerRate", Z |-> Z, m |-> t,
        got |-> [ok |-> RowOk(ev.rate, t), v |-> FStr(RowVal(ev.rate, t))], want |-> RateWant(raw, dens, t)] :
       t \in { t \in ev.rate.lo..ev.rate.hi : ~RateAccept(raw, dens, t, RowOk(ev.rate, t), RowVal(ev.rate, t)) } }
     \cup
     \* the three decay channels partition unity and each lies in [0,1] (on the values the library returns)
     { [prop |-> "C11", line |-> i, fn |-> "partition", Z |-> Z, m |-> s] :
       s \in { s \in 0..(SHELLNUM_A - 1) : RowOk(ev.yield, s) /\
                 LET cks == SetToSeq(CKLeaving(ShellDataName(ShellNameOf[s])))
                     tot == FAdd(FAdd(RowVal(ev.yield, s), RowVal(ev.fy, s)), FSum([j \in 1..Len(cks) |-> RowVal(ev.ck, cks[j])]))
                 IN ~(FClose(tot, One, Zero, F("2e-10")) /\ FLe(RowVal(ev.yield, s), One) /\ FLe(RowVal(ev.fy, s), One)
                      /\ \A j \in 1..Len(cks) : FLe(RowVal(ev.ck, cks[j]), One)) } }
Judged == JudgedWith(BadOf)
Static == c = 0 => (AugerStructureOK \/ PrintT("MISMATCH " \o ToJson([prop |-> "C11", layer |-> "spec", why |-> "Auger macro family malformed"])))
============================================================================
