CONSTANTS
 Threads = {1, 2}
 Menu = {"Lookup", "AddBuiltin"}
 InitLocale = "C"
 CallsPerThread = 1
INIT Init
NEXT Next
INVARIANT NoConflict
CHECK_DEADLOCK FALSE
