------------------------------ MODULE MC_C03 ------------------------------
(* C03, part 1: the error-slot algebra explored exhaustively; with Emit every transition is printed as a program. *)
EXTENDS XrlErr, Sequences, Json
CONSTANTS Emit, MaxOps
VARIABLES st, hist
Slots == 1..2
Locs == 1..2
Codes == {1, 5}
Msgs == {"a", "bb"}
Ops == [op : {"Set"}, s : Slots, code : Codes, msg : Msgs] \cup [op : {"SetNull"}, code : Codes, msg : Msgs]
       \cup [op : {"New"}, l : Locs, code : Codes, msg : Msgs] \cup [op : {"Propagate"}, s : Slots, l : Locs] \cup [op : {"PropagateNull"}, l : Locs]
       \cup [op : {"Clear"}, s : Slots] \cup [op : {"Copy"}, s : Slots, l : Locs] \cup [op : {"CopyLoc"}, l : Locs, l2 : Locs]
       \cup [op : {"Free"}, l : Locs] \cup [op : {"Matches"}, s : Slots, code : Codes \cup {0}]
Init == st = [slot |-> [s \in Slots |-> NoErr], loc |-> [l \in Locs |-> NoErr], over |-> 0] /\ hist = <<>>
Next == /\ Len(hist) < MaxOps
        /\ \E op \in Ops : /\ ErrLegal(st, op)
                          /\ st' = ErrStep(st, op) /\ hist' = Append(hist, op)
                          /\ (Emit => PrintT("EDGE " \o ToJson([pre |-> hist, op |-> op])))
View == [slot |-> st.slot, loc |-> st.loc]
\* "no call ever stores an error over an existing one": a full slot keeps its first error whatever is attempted
FirstErrorWins == [][\A s \in Slots : IsErr(st.slot[s]) /\ IsErr(st'.slot[s]) => st'.slot[s] = st.slot[s]]_<<st, hist>>
\* a slot only becomes empty through Clear; an attempt on a full slot is counted
OnlyClearEmpties == [][\A s \in Slots : IsErr(st.slot[s]) /\ ~IsErr(st'.slot[s]) => hist'[Len(hist')].op = "Clear" /\ hist'[Len(hist')].s = s]_<<st, hist>>
OverCounted == [][st'.over >= st.over /\ (st'.over > st.over => hist'[Len(hist')].op \in {"Set", "Propagate"} /\ IsErr(st.slot[hist'[Len(hist')].s]))]_<<st, hist>>
\* propagation moves ownership: the object leaves the local variable
PropagateMoves == [][hist'[Len(hist')].op = "Propagate" => ~IsErr(st'.loc[hist'[Len(hist')].l])]_<<st, hist>>
Spec == Init /\ [][Next]_<<st, hist>>
===========================================================================
