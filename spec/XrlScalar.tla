----------------------------- MODULE XrlScalar -----------------------------
(***************************************************************************)
(* C01.  Property layer: what a scalar query must return, stated over the  *)
(* records of the shipped data files and the naming rules of XrlNames.     *)
(* Mechanism layer: the build-time generator and the accessors as the code *)
(* implements them (name tables of xrayvars.c, slot arithmetic, range      *)
(* guards, %.10E rounding).  MC_C01 checks mechanism => property on the    *)
(* real facts; the traces bind the library to the property layer.          *)
(***************************************************************************)
EXTENDS XrlNames, FP

ShellQ == {"EdgeEnergy", "FluorYield", "JumpFactor", "AtomicLevelWidth"}
LineQ  == {"LineEnergy", "RadRate"}
TransQ == {"CosKronTransProb"}
PlainQ == {"AtomicWeight", "ElementDensity"}
OccQ   == {"ElectronConfig", "ElectronConfig_Biggs"}
ScalarQ == ShellQ \cup LineQ \cup TransQ \cup PlainQ \cup OccQ

QFile(q) == CASE q = "AtomicWeight" -> ScalarFacts.atomicweight
              [] q = "ElementDensity" -> ScalarFacts.densities
              [] q = "EdgeEnergy" -> ScalarFacts.edges
              [] q = "FluorYield" -> ScalarFacts.fluor_yield
              [] q = "JumpFactor" -> ScalarFacts.jump
              [] q = "AtomicLevelWidth" -> ScalarFacts.atomiclevelswidth
              [] q = "LineEnergy" -> ScalarFacts.fluor_lines
              [] q = "RadRate" -> ScalarFacts.radrate
              [] q = "CosKronTransProb" -> ScalarFacts.coskron

Thousand == F("1000.0")
\* documented unit conversion: energies are shipped in eV and returned in keV
QConv(q, x) == IF q \in {"EdgeEnergy", "LineEnergy", "AtomicLevelWidth"} THEN FDiv(x, Thousand) ELSE x

Tol11 == F("6e-11")     \* "the 11 significant digits the build preserves"

\* ---------------------------------------------------------------- property layer
\* the macro value m designates a named quantity of q's family, or nothing
DataNameOf(q, m) ==
  CASE q \in PlainQ -> IF m = 0 THEN <<"_">> ELSE <<>>
    [] q \in ShellQ -> IF m \in ShellValues THEN <<ShellDataName(ShellNameOf[m])>> ELSE <<>>
    [] q \in LineQ  -> IF m \in LineValues THEN <<LineDataName(LineNameOf[m])>> ELSE <<>>
    [] q \in TransQ -> IF m \in TransValues THEN <<TransDataName(TransNameOf[m])>> ELSE <<>>

\* the tokens recorded for element Z and that named quantity, in file order
Records(q, Z, m) ==
  LET dn == DataNameOf(q, m)
      zs == ToString(Z)
      file == QFile(q)
  IN IF dn = <<>> \/ zs \notin DOMAIN file THEN <<>>
     ELSE Get(file[zs], dn[1], <<>>)

OccRecords(q, Z, m) ==
  LET zs == ToString(Z)
      occ == IF q = "ElectronConfig" THEN KisselOcc ELSE ComptonOcc
  IN IF zs \notin DOMAIN occ \/ m < 0 \/ m >= Len(occ[zs]) THEN <<>>
     ELSE IF q = "ElectronConfig" /\ m \notin ShellValues THEN <<>>
     ELSE <<occ[zs][m + 1]>>

\* cells whose meaning is a *group* of lines: decided by C10, not here
Skipped(q, m) ==
  \/ q \in LineQ /\ m \in {LineMacro[n] : n \in GroupLineNames}
  \/ q = "LineEnergy" /\ m \in {LineMacro[n] : n \in DoubletNames \cup KOKPNames}

\* the outcome (ok, v) of query q(Z, m) is acceptable
PropAccept(q, Z, m, ok, v) ==
  \* Where a data file holds several records for the same element and quantity (corrections appended at the end of coskron.dat and others),
  \* "the shipped value" is the LAST one: a later record supersedes an earlier one, as in every data file of this kind.
  LET recs == IF q \in OccQ THEN OccRecords(q, Z, m) ELSE Records(q, Z, m)
      n == Len(recs)
  IN IF n = 0 \/ ~FPos(F(recs[n])) THEN ~ok /\ FEq(v, Zero)          \* "an error, never a number": the 0 sentinel comes with the error
     ELSE ok /\ FClose(v, QConv(q, F(recs[n])), Tol11, Zero)

PropWant(q, Z, m) ==
  LET recs == IF q \in OccQ THEN OccRecords(q, Z, m) ELSE Records(q, Z, m)
  IN [records |-> recs, name |-> IF q \in OccQ THEN <<>> ELSE DataNameOf(q, m)]

\* ---------------------------------------------------------------- mechanism layer
NameTable(q) == CASE q \in ShellQ -> NameFacts.ShellName
                  [] q \in LineQ -> NameFacts.LineName
                  [] q \in TransQ -> NameFacts.TransName
InitVal(q) == IF q \in LineQ \cup TransQ THEN Zero ELSE F("-9999")   \* ArrayInit(): OUTD or 0.0
\* the generator stores a record in the FIRST slot whose table name equals the record name
FirstSlot(q, name) == LET T == NameTable(q)
                          hits == { t \in 1..Len(T) : T[t] = name }
                      IN IF hits = {} THEN 0 ELSE CHOOSE t \in hits : \A u \in hits : t <= u
\* content of table slot (1-based t) for element Z as compiled into the library
MechCell(q, Z, t) ==
  LET T == NameTable(q)
      zs == ToString(Z)
      file == QFile(q)
      recs == IF zs \in DOMAIN file THEN Get(file[zs], T[t], <<>>) ELSE <<>>
  IN IF recs = <<>> \/ FirstSlot(q, T[t]) # t THEN InitVal(q)
     ELSE FRound11(QConv(q, F(recs[Len(recs)])))     \* a later record overwrites an earlier one
MechPlain(q, Z) ==
  LET zs == ToString(Z)
      file == QFile(q)
  IN IF zs \notin DOMAIN file THEN F("-9999") ELSE LET r == file[zs]["_"] IN FRound11(F(r[Len(r)]))
\* the accessor: range guards, slot arithmetic, "<= 0 is an error"
MechResult(q, Z, m) ==
  IF Z < 1 \/ Z > ZMAX THEN [ok |-> FALSE]
  ELSE IF q \in PlainQ THEN (LET x == MechPlain(q, Z) IN IF FLe(x, Zero) THEN [ok |-> FALSE] ELSE [ok |-> TRUE, v |-> x])
  ELSE LET slot == IF q \in LineQ THEN 0 - m - 1 ELSE m
           lo == IF q \in TransQ THEN 1 ELSE 0
           n == Len(NameTable(q))
       IN IF slot < lo \/ slot >= n THEN [ok |-> FALSE]
          ELSE LET x == MechCell(q, Z, slot + 1)
               IN IF FLe(x, Zero) THEN [ok |-> FALSE] ELSE [ok |-> TRUE, v |-> x]

MechImpliesProp(q, Z, m) ==
  Skipped(q, m) \/ LET r == MechResult(q, Z, m) IN PropAccept(q, Z, m, r.ok, IF r.ok THEN r.v ELSE Zero)

\* the header capacities agree with the name tables the generator iterates over
CapacitiesOK ==
  /\ Len(NameFacts.ShellName) = SHELLNUM
  /\ Len(NameFacts.LineName) = LINENUM
  /\ Len(NameFacts.TransName) = TRANSNUM
============================================================================
